/-
  C11 — the checker and the scanner of src/cpp/pretty-format.c as C11 needs them: the model of
  C10 (`Pretty/{Lex,Val,Print,Scan,Check}.lean`, imported and reused function by function)
  with the repairs fixes/C11-*.patch applied and with float ranges filled in:

  * C11-01 (`rtosc_scan_arg_vals`): white space and comments in front of the first value are
    skipped, as `rtosc_count_printed_arg_vals` does                         → `scanArgVals`
  * C11-02 (`rtosc_scan_arg_val`): an open-ended range `a b ...]` only counts (has a delta)
    for the numeric types "cihfdTF", as in the checker                      → `finishArg`
  * C11-03 (`rtosc_skip_next_printed_arg`): the value left of a range is only scanned
    (without a string buffer) when the range is numeric                     → `ellipsisTail`
  * C11-04 (`rtosc_scan_arg_val(s)`): the last element of an array, or of a repeated array, is
    not the left neighbour `a` of a range `b ... c` behind the array        → `scanArrayElems`,
                                                                              `scanArgValsLoop`
  * C11-06 (`rtosc_scan_arg_val`, array case): `args_before` of an element is the number of argument
    values scanned so far in the array (`num_read`), not the element index: behind a range
    `a ... b` (three values, one element) the next range finds `b`      → `scanArrayElems`
  * C11-05 (`delta_from_arg_vals`): for 'f' / 'd' the number of steps is the nearest integer
    (the manual: "an n must exist such that |b + n d - c| <= 0.001")        → `deltaFromArgVals`
  * C11-07 (`rtosc_skip_next_printed_arg`): "..." behind a repetition `nxa` is a syntax error
    (the manual: "Ranges may not overlap, i.e. no 2x1 ... 3")               → `ellipsisTail`
  * C11-08 (`scanf_fmtstr`): the numeric word also ends at the comment sign '%' (`42%c`), like
    every other kind of value                                → C10's `numWordLen` (Pretty/Lex.lean)
  * float / double range arithmetic (`C11Float.lean`) instead of `Err.unmodelled`.

  Only the functions on the path of these changes are written again (the recursive cores
  `rtosc_scan_arg_val`, `rtosc_skip_next_printed_arg`, their list loops, and the range printer);
  every per-construct function (`scanKeyword`, `scanString`, `skipNumericArg`, …) is C10's.
  The functions of C10 and the ones here agree wherever C10's are defined and no repair applies;
  `Proofs/ScanTransfer.lean` proves this for single tokens.
  No Mathlib import: linked into the driver.
-/
import RtoscModel.Pretty.Check
import RtoscModel.Pretty.C11Float
namespace Rtosc.Pretty.C11
open Rtosc Rtosc.Libc Rtosc.Pretty
open Rtosc.ArgVal (Cell IntTy StrTy FlagTy)

/-! ### `delta_from_arg_vals` (fix C11-05, floats) -/

def orUndef {α} (o : Option α) : Res α :=
  match o with
  | some a => .ok a
  | none => .error .undef

/-- `delta_from_arg_vals(llhsarg, lhsarg, rhsarg, delta, must_be_unity)`:
    (return value, `*delta`) -/
def deltaFromArgVals (llhs : Option Cell) (lhs : Cell) (rhs : Option Cell) (mustBeUnity : Bool) :
    Res (Int × Cell) := do
  let (cmp, delta) ←
    if mustBeUnity then do
      let r ← orUndef rhs
      let cmp ← cmpCell lhs r
      let d ← must (fromIntF r 1)
      let d' ← if cmp > 0 then must (negateF d) else pure d
      pure (cmp, d')
    else do
      let ll ← orUndef llhs
      let d ← must (subF lhs ll)
      let nullv ← orUndef (nullVal d)
      let cmp ← cmpCell d nullv
      pure (cmp, d)
  if cmp = 0 then return (-1, delta)
  match rhs with
  | some r =>
    let width ← must (subF r lhs)
    let div ← must (divF width delta)
    -- fix C11-05: the nearest "n" for 'f' / 'd'
    let div1 ←
      match div with
      | .flt _ => must (addF div (.flt (cHalf AF32).toUInt32))
      | .dbl _ => must (addF div (.dbl (cHalf AF64).toUInt64))
      | _ => pure div
    let div' ← must (roundF div1)
    let width2 ← must (multF div' delta)
    -- rtosc_arg_vals_eq(&width, &width2, 1, 1, {0.001})
    if !(← eqTolCell width width2) then return (-1, delta)
    let res ← must (toIntF div')
    -- `return res + 1` in `int`: 2147483647 + 1 is a signed overflow ("0 ... 2147483647")
    if res + 1 > 2147483647 ∨ res + 1 < -2147483648 then throw .undef
    return (res + 1, delta)
  | none => return (0, delta)

/-! ### the scanner -/

/-- `can_precede_range(av)` (fix C11-04) on the cells of the value scanned last -/
def canPrecedeRange (cells : List Cell) : Res Bool := do
  match ← deref cells with
  | .arr .. => pure false
  | .rep _ hdl =>
    if hdl = 0 then (do let c ← deref (cells.drop 1); pure (c.type ≠ ArgVal.tyA)) else pure true
  | _ => pure true

/-- the element loop of the array scanner (fixes C11-04, C11-06: `prev_ok ? num_read : 0`) -/
def scanArrayElems (se : ElemScanner) : Nat → Bytes → List Cell → Nat → Bool → List Cell → UInt8 →
    Res (Bytes × List Cell × UInt8)
  | 0, _, _, _, _, _, _ => .error .fuel
  | loopFuel + 1, s, prev, i, prevOk, acc, arrtype =>
    if hd s ≠ 0 ∧ hd s ≠ 93 then do
      let (rd, cells) ← se s prev (if prevOk then acc.length else 0) true    -- fix C11-06: `num_read`, not `i`
      if rd = 0 then throw .hang
      let s1 ← advance s rd
      let ok' ← canPrecedeRange cells
      let c0 ← deref cells
      let ty : UInt8 ← match c0 with
        | .rep _ hdl => (do let c ← deref (cells.drop (if hdl ≠ 0 then 2 else 1)); pure c.type)
        | c => pure c.type
      let argsScanned ← nextArgOffset (cells.length + 1) cells
      if argsScanned ≠ cells.length then throw .undef
      scanArrayElems se loopFuel (skipSpace s1) (cells.reverse ++ prev) (i + 1) ok' (acc ++ cells) ty
    else pure (s, acc, arrtype)

/-- `case '[':` -/
def scanArray (se : ElemScanner) (src : Bytes) (prev : List Cell) : Res ValRes := do
  let s1 := skipSpace (src.drop 1)
  let hole : Cell := .arr 32 0
  let (s2, elems, arrtype) ← scanArrayElems se (src.length + 1) s1 (hole :: prev) 0 true [] 32
  let r ← advance s2 1
  pure ⟨r, Cell.arr arrtype elems.length :: elems, true⟩

/-- the `switch(*src)` of `rtosc_scan_arg_val`: C10's, but for the array case -/
def scanValue (se : ElemScanner) (src : Bytes) (prev : List Cell) : Res ValRes :=
  if hd src = 91 then scanArray se src prev else Pretty.scanValue se src prev

/-- the tail of `rtosc_scan_arg_val`: "is the argument being followed by an ellipsis?"
    (fix C11-02: `numeric_range`) -/
def finishArg (se : ElemScanner) (src : Bytes) (v : ValRes) (prev : List Cell) (argsBefore : Nat)
    (followEllipsis : Bool) : Res (Nat × List Cell) := do
  let rest := v.rest
  let cells := v.cells
  let src2 := skipSpace rest
  if followEllipsis ∧ startsWith src2 [46, 46, 46] then do
    if !v.argValid then throw .undef           -- `arg` was advanced behind "nx…": *arg is not written yet
    let lhsarg ← deref cells
    let s1 := skipSpace (src2.drop 3)         -- src += 2; while(isspace(*++src));
    let infinite := hd s1 = 93
    let (s2, rhs) : Bytes × Option Cell ←
      if infinite then pure (s1, none)
      else do
        let (rd, rcells) ← se s1 [] 0 false
        let r ← advance s1 rd
        let rc ← deref rcells
        pure (r, some rc)
    -- find llhs position
    let p3 := prev.drop 2
    let llhs : Option Cell ←
      if decide (argsBefore > 2) && (match p3.head? with | some (.rep _ hdl) => decide (hdl ≠ 0) | _ => false) then do
        match p3 with
        | .rep num _ :: _ =>
          -- arg-3 is the range header, arg-2 its delta, arg-1 its start
          let block := [p3.headD (.rep 0 0), prev.getD 1 (.rep 0 0), prev.getD 0 (.rep 0 0)]
          match ← rangeArgF block (num - 1) with
          | some c => pure (some c)
          | none => throw .undef                    -- NULL is dereferenced
        | _ => throw .undef
      else pure prev.head?
    let useless : Bool ←
      if argsBefore < 1 then pure true
      else if lhsarg.type = ArgVal.tyRange then pure true
      else
        match llhs with
        | none => throw .oob
        | some ll =>
          if !typesMatch ll.type lhsarg.type then pure true
          else do pure ((← cmpCell ll lhsarg) = 0)
    -- like the syntax checker: only numeric types can count
    let numericRange := numericRangeTypes.contains lhsarg.type
    let (hasDelta, num, delta) : Bool × Int × Option Cell ←
      if infinite ∧ (useless ∨ !numericRange) then pure (false, 0, none)
      else do
        let (n, d) ← deltaFromArgVals llhs lhsarg rhs useless
        if infinite ∧ n = -1 then pure (false, n, some d) else pure (true, n, some d)
    -- insert_arg_range(arg, num, &lhsarg, has_delta, &delta, true, true)
    let hdr : Cell := .rep (if !hasDelta then 0 else num) (if hasDelta then 1 else 0)
    let dcell : List Cell ← if hasDelta then (match delta with | some d => pure [d] | none => throw .undef) else pure []
    if hasDelta ∧ cells.length ≠ 1 then throw .undef      -- an array would be shifted by one only
    pure (src.length - s2.length, hdr :: dcell ++ cells)
  else pure (src.length - rest.length, cells)

/-- `rtosc_scan_arg_val(src, arg, nargs, buffer_for_strings, bufsize, args_before, follow_ellipsis)` -/
def scanArgVal : Nat → Bytes → List Cell → Nat → Bool → Res (Nat × List Cell)
  | 0, _, _, _, _ => .error .fuel
  | fuel + 1, src, prev, argsBefore, followEllipsis => do
    let v ← scanValue (scanArgVal fuel) src prev
    finishArg (scanArgVal fuel) src v prev argsBefore followEllipsis

/-- the loop of `rtosc_scan_arg_vals` (fix C11-04: `prev_ok ? i : 0`) -/
def scanArgValsLoop : Nat → Bytes → Nat → Nat → Bool → List Cell → Nat → Res (Nat × List Cell)
  | 0, _, _, _, _, _, _ => .error .fuel
  | fuel + 1, src, n, i, prevOk, done, rd =>
    if i < n then do
      let (tmp, cells) ← scanArgVal (src.length + 2) src done.reverse (if prevOk then i else 0) true
      let ok' ← canPrecedeRange cells
      let s1 ← advance src tmp
      let length ← nextArgOffset (cells.length + 1) cells
      if length ≠ cells.length then throw .undef
      let sk ← skipSpaceComments (s1.length + 1) s1
      scanArgValsLoop fuel (s1.drop sk) n (i + length) ok' (done ++ cells) (rd + tmp + sk)
    else pure (rd, done)

/-- `rtosc_scan_arg_vals(src, args, n, buffer_for_strings, bufsize)` (fix C11-01) -/
def scanArgVals (src : Bytes) (n : Nat) : Res (Nat × List Cell) := do
  let sk ← skipSpaceComments (src.length + 1) src
  scanArgValsLoop (n + 1) (src.drop sk) n 0 true [] sk

/-! ### the checker -/

/-- `rtosc_scan_arg_val(s, &av, 1, NULL, &zero, 0, 0)`: one value scanned into a local variable,
    without a buffer for strings.  A string, symbol or non-empty blob is stored through the NULL
    buffer, an array or "nx…" writes behind the variable: undefined behaviour (`Err.undef`). -/
def scanOne (s : Bytes) : Res Cell := do
  let (_, cells) ← scanArgVal (s.length + 2) s [] 0 false
  match cells with
  | [.str _ _] => .error .undef
  | [.blob d] => if d.isEmpty then .ok (.blob d) else .error .undef
  | [c] => .ok c
  | _ => .error .undef

/-- the tail of `rtosc_skip_next_printed_arg`: the argument is followed by "..." at `src2`
    (fix C11-03: `numeric_range && types_match(...)`) -/
def ellipsisTail (sk : ArgSkipper) (oldSrc : Bytes) (sw : SwRes) (src2 : Bytes) (llhssrc : Option Bytes)
    (insideBundle : Bool) : Res SkipRes := do
  let skipped := sw.skipped
  let ellipsis := src2
  let rhssrc := skipSpace (src2.drop 3)
  let lhssrc := oldSrc
  let lhstype : UInt8 := if sw.dlType ≠ 0 then sw.dlType else sw.type
  let numericRange := lhstype = 0 ∨ numericRangeTypes.contains lhstype
  let fail : SkipRes := { src := none, skipped := skipped, type := 45 }
  -- fix C11-07: no range of a repetition ("2x1 ... 3", "[2x1 ...]"): `break` before anything is looked at
  if isRangeMultiplier oldSrc then return fail
  -- in all cases, check rhs
  let rhsInfo : Option (Bytes × UInt8 × Option Cell × Bool) ←
    if hd rhssrc = 93 then pure (some (rhssrc, lhstype, none, true))
    else if !numericRange then pure none
    else do
      let r ← sk rhssrc 120 none false insideBundle
      match r.src with
      | none => pure none
      | some endsrc => do
        let rc ← scanOne rhssrc
        pure (some (endsrc, r.type, some rc, false))
  match rhsInfo with
  | none => pure fail
  | some (endsrc, rhstype, rhsarg, infinite) =>
    if lhstype ≠ rhstype then pure fail
    else do
      let lhsarg : Option Cell ← if numericRange then (do let cl ← scanOne lhssrc; pure (some cl)) else pure none
      -- is llhs given and useful?
      let (useless, llhsarg) : Bool × Option Cell ←
        match llhssrc with
        | none => pure (true, none)
        | some ll0 => do
          let ra ← sk ll0 0 none false insideBundle
          let after : Option Bytes := ra.src.map skipSpace
          let ll1 : Bytes :=
            match after with
            | some a =>
              if a.length > ellipsis.length ∧ startsWith a [46, 46, 46] then skipSpace (a.drop 3)
              else if isRangeMultiplier ll0 then afterX ll0 else ll0
            | none => if isRangeMultiplier ll0 then afterX ll0 else ll0
          let rl ← sk ll1 0 none false insideBundle
          if numericRange ∧ typesMatch rl.type lhstype then do
            let llc ← scanOne ll1
            let l ← orUndef lhsarg
            if (← cmpCell llc l) = 0 then pure (true, some llc) else pure (false, some llc)
          else pure (true, none)
      let hasDelta : Option Bool ←
        if infinite ∧ (useless ∨ !numericRange) then pure (some false)
        else do
          let l ← orUndef lhsarg
          let (num, _) ← deltaFromArgVals llhsarg l rhsarg useless
          if num = -1 then (if infinite then pure (some false) else pure none)
          else pure (some true)
      match hasDelta with
      | none => pure fail
      | some hdl =>
        pure { src := some endsrc, skipped := skipped + (if hdl then 2 else 1), type := 45 }

/-- `rtosc_skip_next_printed_arg`; the first argument bounds the nesting depth -/
def skipNextPrintedArg : Nat → Bytes → UInt8 → Option Bytes → Bool → Bool → Res SkipRes
  | 0, _, _, _, _, _ => .error .fuel
  | fuel + 1, oldSrc, typeIn, llhssrc, followEllipsis, insideBundle => do
    match ← skipValue (skipNextPrintedArg fuel) oldSrc typeIn insideBundle with
    | none => pure { src := none, skipped := 1, type := typeIn }
    | some sw =>
      match sw.src with
      | none => pure { src := none, skipped := sw.skipped, type := sw.type }
      | some src =>
        let src2 := skipSpace src
        if followEllipsis ∧ startsWith src2 [46, 46, 46] then
          ellipsisTail (skipNextPrintedArg fuel) oldSrc sw src2 llhssrc insideBundle
        else pure { src := some src, skipped := sw.skipped, type := sw.type }

/-- the recursion bound handed to `rtosc_skip_next_printed_arg` by the loop of the checker.  The C code has no
    bound; its call depth is limited by the text: a call works inside the argument it skips (elements of an
    array) or, behind "...", on the previous argument `recent` (`llhssrc`), which lies BEFORE `src`.  So the
    bound must cover the text from `recent` on, not only the text from `src` on (with `src.length + 2` a left
    neighbour nested deeper than the rest of the text is long, `[[[[[[[[1]]]]]]]] 2...5`, ran out of fuel in
    the model only). -/
def lookBackFuel (src : Bytes) (recent : Option Bytes) : Nat :=
  max src.length (match recent with | some r => r.length | none => 0) + 2

/-- the loop of `rtosc_count_printed_arg_vals` -/
def countLoop : Nat → Option Bytes → Option Bytes → Int → Res Int
  | 0, _, _, _ => .error .fuel
  | fuel + 1, src?, recent, num =>
    match src? with
    | none => .ok (-num)
    | some src =>
      if hd src ≠ 0 ∧ hd src ≠ 47 then do
        let r ← skipNextPrintedArg (lookBackFuel src recent) src 0 recent true false
        let src1 : Option Bytes ← match r.src with
          | none => pure none
          | some s => do
            let s1 := skipSpace s
            let s2 ← if hd s1 ≠ 0 then skipCommentLines (s1.length + 1) s1 else pure s1
            pure (some s2)
        match src1 with
        | some s2 => if s2.length ≥ src.length then throw .hang else pure ()
        | none => pure ()
        countLoop fuel src1 (some src) (num + r.skipped)
      else .ok num

/-- `rtosc_count_printed_arg_vals(src)` -/
def countPrintedArgVals (src : Bytes) : Res Int := do
  let s0 := skipSpace src
  let s1 ← skipCommentLines (s0.length + 1) s0
  countLoop (s1.length + 1) (some s1) none 0

/-! ### the printer for ranges of 'f' / 'd' with a delta

  `rtosc_print_arg_vals` is C10's `printArgVals`; it stops with `Err.unmodelled` exactly when
  `rtosc_arg_val_range_arg` / `rtosc_arg_val_from_int` meet a float.  Only then the copy below
  (the same code over `rangeArgF` / `fromIntF`) is used: `printArgVals` at the end. -/

def printRangeElems (pe : ElemPrinter) (opt : POpt) (arg : List Cell) (hd : Int) :
    Int → PSt → Nat → Int → Nat → Nat → Res (PSt × Nat)
  | _, st, wrt, _, _, 0 => .ok (st, wrt)
  | i, st, wrt, lastSep, awl, cnt + 1 => do
    let cur : List Cell ←
      if hd ≠ 0 then (do let c ← must (rangeArgF arg i); pure [c]) else pure (arg.drop 1)
    let (st1, tmp) ← pe cur none st
    let (st2, wrt2, awl2) ← linebreakCheck st1 (wrt + tmp) lastSep tmp awl opt.linelength
    let lastSep' : Int := st2.out.length
    let st3 : PSt := { out := st2.out ++ [32], cols := st2.cols + 1 }
    printRangeElems pe opt arg hd (i + 1) st3 (wrt2 + 1) lastSep' awl2 cnt

/-- `rtosc_print_range(arg, buffer, bs, opt, cols_used, prev_arg)` -/
def printRange (pe : ElemPrinter) (opt : POpt) (arg : List Cell) (prev : Option Cell) (st : PSt) :
    Res (PSt × Nat) := do
  match ← deref arg with
  | .rep num hd =>
    let (st1, wrt1, start) ←
      if opt.compress ∨ num = 0 then
        if hd ≠ 0 ∨ num = 0 then do
          let firstArg := arg.drop (if hd ≠ 0 then 2 else 1)
          let first ← deref firstArg
          let (sa, tmp) ← pe firstArg none st
          let (sb, wb) ←
            if hd ≠ 0 then do
              let one ← must (fromIntF first 1)
              let mOne ← must (fromIntF first (-1))
              let confusing ← match prev with
                | some p => if p.type = first.type then (do pure (!(← eqSingle firstArg [p]))) else pure false
                | none => pure false
              let unit ← (do if ← eqSingle (arg.drop 1) [one] then pure true else eqSingle (arg.drop 1) [mOne])
              if (unit && !confusing) || num = 0 then pure (sa, tmp)
              else do
                let sa1 : PSt := { out := sa.out ++ [32], cols := sa.cols + 1 }
                let second ← must (rangeArgF arg 1)
                let (sa2, tmp2) ← pe [second] none sa1
                pure (sa2, tmp + 1 + tmp2)
            else pure (sa, tmp)
          let sc : PSt := { out := sb.out ++ lit " ... ", cols := sb.cols + 5 }
          pure (sc, wb + 5, num - (if num ≠ 0 then 1 else 0))
        else do
          let mult := fmtDec num ++ [120]
          let sa : PSt := { out := st.out ++ mult, cols := st.cols + mult.length }
          let (sb, tmp) ← pe (arg.drop 1) none sa
          pure (sb, mult.length + tmp, num)
      else pure (st, 0, 0)
    let lastSep : Int := (st1.out.length : Int) - 1
    let awl ← initArgsWritten st1
    let (st2, wrt2) ← printRangeElems pe opt arg hd start st1 wrt1 lastSep awl (num - start).toNat
    if start < num then
      pure ({ st2 with out := st2.out.dropLast }, wrt2 - 1)
    else pure (st2, wrt2)
  | _ => throw .undef

/-- `rtosc_print_arg_val`: scalars are C10's; arrays and ranges recurse into this copy -/
def printArgVal : Nat → POpt → List Cell → Option Cell → PSt → Res (PSt × Nat)
  | 0, _, _, _, _ => .error .fuel
  | fuel + 1, opt, arg, prev, st => do
    match ← deref arg with
    | .arr _ len =>
      if len < 0 then throw .undef
      let n := len.toNat
      let lastSep : Int := (st.out.length : Int) - 1
      let awl ← initArgsWritten st
      let st0 : PSt := { out := st.out ++ [91], cols := st.cols + 1 }
      if n ≠ 0 then
        let (st1, wrt) ← printArrayElems (printArgVal fuel opt) opt arg n 1 st0 1 lastSep awl (n + 1)
        pure ({ out := st1.out.dropLast ++ [93], cols := st1.cols + 1 }, wrt)
      else
        pure ({ out := st0.out ++ [93], cols := st0.cols + 1 + 1 }, 2)
    | .rep .. => printRange (printArgVal fuel opt) opt arg prev st
    | _ => Pretty.printArgVal 1 opt arg prev st

/-- the loop of `rtosc_print_arg_vals` -/
def printArgValsLoop : Nat → POpt → List Cell → Nat → Nat → PSt → Nat → Int → Nat → Res (PSt × Nat)
  | 0, _, _, _, _, _, _, _, _ => .error .fuel
  | fuel + 1, opt, args, n, i, st, wrt, lastSep, awl =>
    if i < n then do
      let cur := args.drop i
      let c ← deref cur
      let conv ← convertToRange opt cur (n - i)
      let input : List Cell := match conv with | some (_, block) => block | none => cur
      let prev : Option Cell := if i = 0 then none else (args.drop (i - 1)).head?
      let (st1, tmp) ← printArgVal (cur.length + 3) opt input prev st
      let wrt1 := wrt + tmp
      let (st2, wrt2, awl2) ←
        if !breaksItself c then linebreakCheck st1 wrt1 lastSep tmp awl opt.linelength
        else pure (st1, wrt1, awl)
      let inc ← match conv with
        | some (skipped, _) => pure skipped
        | none => nextArgOffset (cur.length + 1) cur
      let i' := i + inc
      if i' < n then
        let lastSep' : Int := st2.out.length
        let st3 : PSt := { out := st2.out ++ [32], cols := st2.cols + 1 }
        printArgValsLoop fuel opt args n i' st3 (wrt2 + 1) lastSep' awl2
      else printArgValsLoop fuel opt args n i' st2 wrt2 lastSep awl2
    else pure (st, wrt)

/-- `rtosc_print_arg_vals`: C10's model; its float-range gaps are filled by the copy above -/
def printArgVals (opt : POpt) (args : List Cell) (st : PSt) : Res (PSt × Nat) :=
  match Pretty.printArgVals opt args st with
  | .error .unmodelled =>
    printArgValsLoop (args.length + 1) opt args args.length 0 st 0 ((st.out.length : Int) - 1)
      (if st.cols ≠ 0 then 1 else 0)
  | r => r

end Rtosc.Pretty.C11
