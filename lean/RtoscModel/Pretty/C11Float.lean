/-
  C11 — the float/double part of src/cpp/arg-val-math.c, which the scanner and the checker of
  src/cpp/pretty-format.c need for ranges `a b ... c` of 'f' / 'd' values
  (`delta_from_arg_vals`), and the printer for printing such a range
  (`rtosc_arg_val_range_arg`).  C10's `Pretty/Val.lean` leaves these cases `Err.unmodelled`
  (printed text never contains float ranges with a delta); this file fills them in.

  IEEE-754 binary32 / binary64 on bit patterns, exact rational arithmetic rounded once to
  nearest-even (x86-64 SSE: `float` expressions are evaluated in `float`).  `+`, `*`, `(T)int`
  are C16's (`ArgVal/Float.lean`); here: `-`, `/`, unary minus, `(int)x`, `<=`, `>=`,
  `rtosc_arg_val_round`, the tolerance comparison of `rtosc_arg_vals_eq`.
  An operation with a NaN operand is not modelled (`Err.unmodelled`); a conversion `(int)x`
  with `x` outside `int` is undefined behaviour in C (`Err.undef`).
  No Mathlib import: linked into the driver.
-/
import RtoscModel.Pretty.Val
namespace Rtosc.Pretty.C11
open Rtosc Rtosc.Libc Rtosc.Pretty
open Rtosc.ArgVal (Cell IntTy StrTy FlagTy)

abbrev AF := Rtosc.ArgVal.FFmt

/-- the same format for `Libc.roundPos` -/
def libcFmt (F : AF) : Libc.FFmt := ⟨F.mbits, F.ebits⟩

def liftF (r : Option Nat) : Res Nat :=
  match r with
  | some b => .ok b
  | none => .error .unmodelled

/-- `-x` -/
def fneg (F : AF) (a : Nat) : Nat := if F.sign a then a - F.signBit else a + F.signBit

/-- `a - b` -/
def fsub (F : AF) (a b : Nat) : Res Nat :=
  if F.isNaN b then .error .unmodelled else liftF (F.add a (fneg F b))

/-- `a / b` -/
def fdiv (F : AF) (a b : Nat) : Res Nat :=
  if F.isNaN a ∨ F.isNaN b then .error .unmodelled
  else
    let neg := F.sign a != F.sign b
    if F.isInf a then
      if F.isInf b then .ok F.defaultNaN else .ok (F.withSign neg F.infBits)
    else if F.isInf b then .ok (F.withSign neg 0)
    else if F.isZero b then
      if F.isZero a then .ok F.defaultNaN else .ok (F.withSign neg F.infBits)
    else if F.isZero a then .ok (F.withSign neg 0)
    else
      let (ma, ea) := F.decode a
      let (mb, eb) := F.decode b
      let e : Int := ea - eb
      let num := if e ≥ 0 then ma * 2 ^ e.toNat else ma
      let den := if e ≥ 0 then mb else mb * 2 ^ (-e).toNat
      .ok (F.withSign neg (Libc.roundPos (libcFmt F) num den))

/-- `(int)x`: truncation towards zero; outside `int` the conversion is undefined -/
def ftoInt (F : AF) (a : Nat) : Res Int :=
  if F.isNaN a ∨ F.isInf a then .error .undef
  else if F.isZero a then .ok 0
  else
    let (m, e) := F.decode a
    let mag : Nat := if e ≥ 0 then m * 2 ^ e.toNat else m / 2 ^ (-e).toNat
    let v : Int := if F.sign a then -(mag : Int) else mag
    if v < -2147483648 ∨ v > 2147483647 then .error .undef else .ok v

/-- `a >= b` -/
def fge (F : AF) (a b : Nat) : Bool := !F.isNaN a && !F.isNaN b && decide (F.key a ≥ F.key b)
/-- `a <= b` -/
def fle (F : AF) (a b : Nat) : Bool := !F.isNaN a && !F.isNaN b && decide (F.key a ≤ F.key b)

/-- `mfabs(x)`: `(x >= 0) ? x : -x` -/
def fabs (F : AF) (a : Nat) : Nat := if fge F a 0 then a else fneg F a

/-- the constants `0.999f` / `0.999`, `(float)0.001` / `0.001`, `0.5` -/
def c999 (F : AF) : Nat := if F.mbits = 23 then 0x3f7fbe77 else 0x3feff7ced916872b
def c001 (F : AF) : Nat := if F.mbits = 23 then 0x3a83126f else 0x3f50624dd2f1a9fc
def cHalf (F : AF) : Nat := if F.mbits = 23 then 0x3f000000 else 0x3fe0000000000000

/-- `rtosc_arg_val_round` for 'f' / 'd':
    `tmp = (int)x; x = tmp + (int)(x - tmp >= 0.999);` -/
def fround (F : AF) (a : Nat) : Res Nat := do
  let tmp ← ftoInt F a
  let diff ← fsub F a (F.ofInt tmp)
  let up : Int := if fge F diff (c999 F) then 1 else 0
  -- `tmp + 1` in `int`: INT_MAX + 1 overflows
  if tmp + up > 2147483647 then .error .undef else pure (F.ofInt (tmp + up))

/-- `mfabs(a - b) <= tolerance` -/
def feqTol (F : AF) (a b : Nat) : Res Bool := do
  let d ← fsub F a b
  pure (fle F (fabs F d) (c001 F))

/-! ### cells -/

def AF32 : AF := Rtosc.ArgVal.f32
def AF64 : AF := Rtosc.ArgVal.f64

/-- `rtosc_arg_val_from_int(av, type, number)`, all numeric types -/
def fromIntF (like : Cell) (number : Int) : Res (Option Cell) :=
  match like with
  | .flt _ => .ok (some (.flt (AF32.ofInt number).toUInt32))
  | .dbl _ => .ok (some (.dbl (AF64.ofInt number).toUInt64))
  | c => fromInt c number

/-- `rtosc_arg_val_negate(av)` -/
def negateF (c : Cell) : Res (Option Cell) :=
  match c with
  | .flt a => .ok (some (.flt (fneg AF32 a.toNat).toUInt32))
  | .dbl a => .ok (some (.dbl (fneg AF64 a.toNat).toUInt64))
  | c => negate c

/-- `rtosc_arg_val_round(av)` -/
def roundF (c : Cell) : Res (Option Cell) :=
  match c with
  | .flt a => do let r ← fround AF32 a.toNat; pure (some (.flt r.toUInt32))
  | .dbl a => do let r ← fround AF64 a.toNat; pure (some (.dbl r.toUInt64))
  | c => roundAV c

/-- `rtosc_arg_val_add(lhs, rhs, res)` -/
def addF (l r : Cell) : Res (Option Cell) :=
  match l, r with
  | .flt a, .flt b => do let x ← liftF (AF32.add a.toNat b.toNat); pure (some (.flt x.toUInt32))
  | .dbl a, .dbl b => do let x ← liftF (AF64.add a.toNat b.toNat); pure (some (.dbl x.toUInt64))
  | l, r => addAV l r

/-- `rtosc_arg_val_sub(lhs, rhs, res)` -/
def subF (l r : Cell) : Res (Option Cell) :=
  match l, r with
  | .flt a, .flt b => do let x ← fsub AF32 a.toNat b.toNat; pure (some (.flt x.toUInt32))
  | .dbl a, .dbl b => do let x ← fsub AF64 a.toNat b.toNat; pure (some (.dbl x.toUInt64))
  | l, r => subAV l r

/-- `rtosc_arg_val_mult(lhs, rhs, res)` -/
def multF (l r : Cell) : Res (Option Cell) :=
  match l, r with
  | .flt a, .flt b => do let x ← liftF (AF32.mul a.toNat b.toNat); pure (some (.flt x.toUInt32))
  | .dbl a, .dbl b => do let x ← liftF (AF64.mul a.toNat b.toNat); pure (some (.dbl x.toUInt64))
  | l, r => multAV l r

/-- `rtosc_arg_val_div(lhs, rhs, res)` -/
def divF (l r : Cell) : Res (Option Cell) :=
  match l, r with
  | .flt a, .flt b => do let x ← fdiv AF32 a.toNat b.toNat; pure (some (.flt x.toUInt32))
  | .dbl a, .dbl b => do let x ← fdiv AF64 a.toNat b.toNat; pure (some (.dbl x.toUInt64))
  | l, r => divAV l r

/-- `rtosc_arg_val_to_int(av, &res)` -/
def toIntF (c : Cell) : Res (Option Int) :=
  match c with
  | .flt a => do let v ← ftoInt AF32 a.toNat; pure (some v)
  | .dbl a => do let v ← ftoInt AF64 a.toNat; pure (some v)
  | c => toIntAV c

/-- `rtosc_arg_vals_eq(&a, &b, 1, 1, {0.001})` on two single scalar cells -/
def eqTolCell (l r : Cell) : Res Bool :=
  match l, r with
  | .flt a, .flt b => feqTol AF32 a.toNat b.toNat
  | .dbl a, .dbl b => feqTol AF64 a.toNat b.toNat
  | l, r => eqCell l r

/-- `rtosc_arg_val_range_arg(range_arg, ith, result)`: `start + ith * delta`; `none` = NULL -/
def rangeArgF (p : List Cell) (ith : Int) : Res (Option Cell) :=
  match p with
  | _ :: delta :: start :: _ => do
    match ← fromIntF delta ith with
    | none => pure none
    | some n =>
      match ← multF n delta with
      | none => pure none
      | some m => addF start m
  | _ => .error .oob

end Rtosc.Pretty.C11
