/-
  C10/C11 — model of the pretty scanner of src/cpp/pretty-format.c, with the fix patches
  fixes/C10-02 … C10-06, C10-16 and fixes/C11-01, -02, -04, -05, -06 applied (leading white space and
  comments in `rtosc_scan_arg_vals`; open-ended ranges count for numeric types only;
  `can_precede_range` / `prev_ok`; nearest step count for 'f' / 'd' ranges; `num_read` as
  `args_before` inside arrays):
  `parse_identifier`, `delta_from_arg_vals`, `insert_arg_range` (as used by the scanner),
  `rtosc_scan_arg_val`, `rtosc_scan_arg_vals`, `rtosc_scan_message`,
  and `rtosc_float2secfracs`, `rtosc_arg_val_from_params` (src/rtosc-time.c).

  `rtosc_scan_arg_val(src, arg, …)` is modelled as a function from the text at `src`
  to (characters read, cells written at `arg[0…]`).  The cells already written before `arg`
  (which the code inspects through `arg[-1]`, `arg[-2]`, `arg[-3]`) are passed as `prev`,
  most recent first.  The buffer for strings is abstracted: a string/blob cell carries its
  bytes; the code hands out consecutive, non-overlapping pieces of the caller's buffer
  (validated by correspondence: the harness reads all strings after scanning has finished)
  and the `bufsize` bookkeeping only feeds `assert`s.
  A cell whose value the code leaves indeterminate is never invented: `Err.undef`.
  No Mathlib import: linked into the driver.
-/
import RtoscModel.Pretty.Print
import RtoscModel.Pretty.C11Float
namespace Rtosc.Pretty
open Rtosc Rtosc.Libc
open Rtosc.ArgVal (Cell IntTy StrTy FlagTy)
open Rtosc.Pretty.C11 (fromIntF negateF subF divF addF roundF multF toIntF eqTolCell rangeArgF cHalf AF32 AF64)

/-- C `char` read as `int` (`char` is signed on the target) -/
def scharVal (c : UInt8) : Int := if c.toNat < 128 then c.toNat else (c.toNat : Int) - 256

/-- `types_match(type1, type2)` -/
def typesMatch (a b : UInt8) : Bool := a = b || (a = 84 && b = 70) || (a = 70 && b = 84)

/-- `parse_identifier(src, arg, …)` at an identifier start: (rest, cell) -/
def parseIdentifier (s : Bytes) : Bytes × Cell :=
  let name := takeIdentChars s
  (s.drop name.length, .str .S (some name))

/-- `rtosc_float2secfracs(secfracsf)` -/
def float2secfracs (bits32 : Nat) : Res Nat := do
  let (str, _) ← removeTrailingZeroes (fmtA (promote bits32))
  -- if(secfracs_as_hex[3]=='.') { [3] = [2]; scanpos = 3 } else scanpos = 2
  let dotted := str.getD 3 0 = 46
  let str1 := if dotted then str.set 3 (str.getD 2 0) else str
  let scanpos := if dotted then 3 else 2
  -- strstr(str, "+0") && !plus[2]
  let plusZeroAtEnd := str1.length ≥ 2 ∧ str1.drop (str1.length - 2) = [43, 48]
  let (secfracs, exp) ←
    if plusZeroAtEnd then pure ((0 : Int), (0 : Int))
    else
      match sscanf [.int .x none false, .lit 112, .lit 45, .int .i none false] (str1.drop scanpos) with
      | [.int a, .int e] => pure (a, toI32 e)
      | _ => throw .undef
  -- p = strchr(str, 'p')
  let pIdx := (str1.takeWhile (· ≠ 112)).length
  if pIdx ≥ str1.length then throw .undef
  let hexdigitsAfterComma : Int := (pIdx : Int) - ((scanpos : Int) + 1)
  let lshift : Int := 32 - exp - hexdigitsAfterComma * 4
  -- fix C10-16: mantissa bits below 2^-32 are cut off (no shift by a negative count)
  if lshift ≥ 64 then throw .undef
  else if lshift ≥ 0 then pure ((secfracs.toNat * 2 ^ lshift.toNat) % 18446744073709551616)
  else if lshift > -64 then pure (secfracs.toNat / 2 ^ (-lshift).toNat)
  else pure 0

/-- `rtosc_arg_val_from_params(dest, &m_tm, secfracs)`: `val.t` -/
def timeFromParams (tm : Tm) (secfracs : Nat) : Nat :=
  let t := (mktime tm % 18446744073709551616).toNat          -- (uint64_t)mktime(m_tm)
  Nat.lor (secfracs % 18446744073709551616) ((t * 4294967296) % 18446744073709551616)

/-- `(uint64_t)(d * 4294967296.0)` for a double bit pattern (exact product; truncation) -/
def doubleToSecfracs (b : Nat) : Res Nat :=
  if f64.sign b then (match f64.classify b with | .zero => .ok 0 | _ => .error .undef)
  else
    match f64.classify b with
    | .zero => .ok 0
    | .fin m e =>
      let e' := e + 32
      let v := if e' ≥ 0 then m * 2 ^ e'.toNat else m / 2 ^ (-e').toNat
      if v ≥ 18446744073709551616 then .error .undef else .ok v
    | _ => .error .undef

/-- `numeric_range_types()` -/
def numericRangeTypes : Bytes := lit "cihfdTF"

/-- `delta_from_arg_vals(llhsarg, lhsarg, rhsarg, delta, must_be_unity)`:
    (return value, `*delta`).  The arithmetic of src/cpp/arg-val-math.c: integers and booleans
    from `Pretty/Val.lean`, 'f' / 'd' from `Pretty/C11Float.lean`. -/
def deltaFromArgVals (llhs : Option Cell) (lhs : Cell) (rhs : Option Cell) (mustBeUnity : Bool) :
    Res (Int × Cell) := do
  let (cmp, delta) ←
    if mustBeUnity then do
      let r ← match rhs with | some r => pure r | none => throw .undef
      let cmp ← cmpCell lhs r
      let d ← must (fromIntF r 1)
      let d' ← if cmp > 0 then must (negateF d) else pure d
      pure (cmp, d')
    else do
      let ll ← match llhs with | some c => pure c | none => throw .undef
      let d ← must (subF lhs ll)
      let nullv ← match nullVal d with | some z => pure z | none => throw .undef
      let cmp ← cmpCell d nullv
      pure (cmp, d)
  if cmp = 0 then return (-1, delta)
  match rhs with
  | some r =>
    let width ← must (subF r lhs)
    let div ← must (divF width delta)
    -- fix C11-05: for 'f' / 'd' take the nearest "n" (`rtosc_arg_val_round` rounds down)
    let div1 ←
      match div with
      | .flt _ => must (addF div (.flt (cHalf AF32).toUInt32))
      | .dbl _ => must (addF div (.dbl (cHalf AF64).toUInt64))
      | _ => pure div
    let div' ← must (roundF div1)
    let width2 ← must (multF div' delta)
    -- rtosc_arg_vals_eq(&width, &width2, 1, 1, {0.001}): exact for the integer types
    if !(← eqTolCell width width2) then return (-1, delta)
    let res ← must (toIntF div')
    return (toI32 (res + 1), delta)
  | none => return (0, delta)

/-- bytes of a string part up to the closing quote, unescaped: (content, rest at the quote) -/
def scanStrPart : Nat → Bytes → Res (Bytes × Bytes)
  | 0, _ => .error .fuel
  | fuel + 1, s =>
    match s with
    | [] => .error .oob                       -- while(*src != '"') runs past the NUL
    | c :: r =>
      if c = 34 then .ok ([], s)
      else if c = 92 then
        match r with
        | [] => .error .oob
        | e :: r' => do
          let (rest, stop) ← scanStrPart fuel r'
          pure (getEscapedChar e false :: rest, stop)
      else do
        let (rest, stop) ← scanStrPart fuel r
        pure (c :: rest, stop)

/-- the `do … while(cont)` loop of the string scanner; `s` points behind an opening quote;
    returns the content and the position of the final closing quote -/
def scanStrParts : Nat → Bytes → Res (Bytes × Bytes)
  | 0, _ => .error .fuel
  | fuel + 1, s => do
    let (part, q) ← scanStrPart (s.length + 1) s
    match at? q 1 with
    | none => throw .oob
    | some c1 =>
      if c1 = 92 then
        let rd := skipFmt fmtStrCont q
        if rd = 0 then throw .hang            -- src is not advanced, the loop repeats forever
        else do
          let (more, q') ← scanStrParts fuel (q.drop rd)
          pure (part ++ more, q')
      else pure (part, q)

/-- what `rtosc_scan_arg_val` needs from itself for nested values -/
abbrev ElemScanner := Bytes → List Cell → Nat → Bool → Res (Nat × List Cell)

/-- `can_precede_range(av)` (fix C11-04) on the cells of the value scanned last: the last element
    of an array (or of a repeated array) is not the left neighbour of the value behind it -/
def canPrecedeRange (cells : List Cell) : Res Bool := do
  match ← deref cells with
  | .arr .. => pure false
  | .rep _ hdl =>
    if hdl = 0 then (do let c ← deref (cells.drop 1); pure (c.type ≠ ArgVal.tyA)) else pure true
  | _ => pure true

/-- the element loop of the array scanner: (rest of the text at ']' or NUL, cells, arrtype).
    `acc` are the cells written so far (`num_read` of them), `prevOk` is `prev_ok`
    (fixes C11-04, C11-06: `args_before` is `prev_ok ? num_read : 0`, not the element index `i`) -/
def scanArrayElems (se : ElemScanner) : Nat → Bytes → List Cell → Nat → Bool → List Cell → UInt8 →
    Res (Bytes × List Cell × UInt8)
  | 0, _, _, _, _, _, _ => .error .fuel
  | loopFuel + 1, s, prev, i, prevOk, acc, arrtype =>
    if hd s ≠ 0 ∧ hd s ≠ 93 then do
      let (rd, cells) ← se s prev (if prevOk then acc.length else 0) true
      if rd = 0 then throw .hang
      let s1 ← advance s rd
      let ok' ← canPrecedeRange cells
      let c0 ← deref cells
      let ty : UInt8 ← match c0 with
        | .rep _ hdl => (do let c ← deref (cells.drop (if hdl ≠ 0 then 2 else 1)); pure c.type)
        | c => pure c.type
      let argsScanned ← nextArgOffset (cells.length + 1) cells
      if argsScanned ≠ cells.length then throw .undef
      scanArrayElems se loopFuel (skipSpace s1) (cells.reverse ++ prev) (i + 1) ok' (acc ++ cells) ty
    else pure (s, acc, arrtype)

/-- the numeric case of `rtosc_scan_arg_val`: one pass of the `do … while(repeat_once)` loop
    writes the scanned number into the union (`raw`, 64 bits, little endian) -/
def scanNumberPass (s : Bytes) (argType : UInt8) (raw : Option Nat) : Res (Nat × UInt8 × Nat) := do
  let nf ← match scanfFmtstr s with | some nf => pure nf | none => throw .undef     -- NULL format
  let argType' := if argType = 0 then nf.type else argType
  -- fix C10-03: the lossless part of a double has no 'd' suffix
  let asDouble := argType ≠ 0 ∧ argType = 100 ∧ nf.type = 102
  let dirs : List Dir := if asDouble then [.flt true false, .n] else nf.dirs false
  let ty : UInt8 := if asDouble then 100 else nf.type
  let vals := sscanf dirs s
  let rd := match vals.getLast? with | some (.pos n) => n | _ => 0
  let old := raw.getD 0
  let raw' : Option Nat :=
    match vals.head? with
    | some (.int v) =>
      if ty = 104 then some ((toI64 v % 18446744073709551616).toNat)
      else some (old / 4294967296 * 4294967296 + (toI32 v % 4294967296).toNat)
    | some (.flt b) =>
      if ty = 100 then some b else some (old / 4294967296 * 4294967296 + b % 4294967296)
    | _ => raw
  match raw' with
  | none => throw .undef
  | some r => pure (rd, argType', r)

/-- the cell an `arg->type` / union content pair stands for -/
def cellOfRaw (ty : UInt8) (raw : Nat) : Res Cell :=
  if ty = 104 then .ok (.huge (toI64 raw))
  else if ty = 105 then .ok (.int .i (toI32 (raw % 4294967296)))
  else if ty = 102 then .ok (.flt (raw % 4294967296).toUInt32)
  else if ty = 100 then .ok (.dbl raw.toUInt64)
  else .error .undef

/-- the value one `case` of the `switch` in `rtosc_scan_arg_val` has scanned -/
structure ValRes where
  rest : Bytes            -- `src` behind the value
  cells : List Cell       -- the cells written at `arg[0…]`
  argValid : Bool         -- `arg` still points to the first of them (not so after "nx…")
deriving Repr

/-- the byte loop of the blob scanner -/
def scanBlobBytes : Nat → Bytes → Bytes → Res (Bytes × Bytes)
  | 0, s, acc => .ok (s, acc)
  | k + 1, s, acc =>
    match sscanf (fmtBlobByte false) s with
    | [.int v, .pos rd] => scanBlobBytes k (s.drop rd) (acc ++ [(v % 256).toNat.toUInt8])
    | _ => .error .undef                      -- `rd` (and `tmp`) indeterminate

/-- `case 't': case 'f': case 'n': case 'i':` -/
def scanKeyword (src : Bytes) : ValRes :=
  let c := hd src
  -- arg->type = toupper(*src_backup)
  let flag : Cell := .flag (if c = 116 then .T else if c = 102 then .F else if c = 110 then .N else .I)
  match skipWord (lit "immediately") src with
  | some r => ⟨r, [Cell.time 1], true⟩
  | none =>
  match skipWord (lit "now") src with
  | some r => ⟨r, [Cell.time 1], true⟩
  | none =>
  match skipWord (lit "true") src with
  | some r => ⟨r, [flag], true⟩
  | none =>
  match skipWord (lit "false") src with
  | some r => ⟨r, [flag], true⟩
  | none =>
  match skipWord (lit "nil") src with
  | some r => ⟨r, [flag], true⟩
  | none =>
  match skipWord (lit "inf") src with
  | some r => ⟨r, [flag], true⟩
  | none =>
    let (r, cell) := parseIdentifier src
    ⟨r, [cell], true⟩

/-- `case '#':` -/
def scanColor (src : Bytes) : Res ValRes := do
  let s1 := src.drop 1
  let v ← match sscanf [.int .x none false] s1 with
    | [.int v] => pure v
    | _ => throw .undef
  let r ← advance s1 8
  pure ⟨r, [Cell.int .r (toI32 v)], true⟩

/-- `case '\'':` -/
def scanChar (src : Bytes) : Res ValRes := do
  let s1 := src.drop 1
  if s1.isEmpty then throw .oob                     -- `src += 2` below passes the NUL
  if hd s1 = 92 then
    match at? s1 2 with
    | none => throw .oob
    | some c2 =>
      if c2 ≠ 0 ∧ !isspace c2 then do
        let r ← advance s1 3
        pure ⟨r, [Cell.int .c (scharVal (getEscapedChar (s1.getD 1 0) true))], true⟩
      else do
        let r ← advance s1 2
        pure ⟨r, [Cell.int .c 92], true⟩
  else do
    let r ← advance s1 2
    pure ⟨r, [Cell.int .c (scharVal (hd s1))], true⟩

/-- `case '"':` -/
def scanString (src : Bytes) : Res ValRes := do
  let (content, q) ← scanStrParts (src.length + 1) (src.drop 1)
  let r := q.drop 1
  if hd r = 83 then pure ⟨r.drop 1, [Cell.str .S (some content)], true⟩
  else pure ⟨r, [Cell.str .s (some content)], true⟩

def u8 (v : Int) : UInt8 := (v % 256).toNat.toUInt8

/-- `case 'M':` -/
def scanMidi (src : Bytes) : Res ValRes :=
  if startsWith src (lit "MIDI") ∧ (isspace (hd (src.drop 4)) ∨ hd (src.drop 4) = 91) then
    match sscanf (fmtMidi false) src with
    | [.int a, .int b, .int c', .int d, .pos rd] => pure ⟨src.drop rd, [Cell.midi (u8 a) (u8 b) (u8 c') (u8 d)], true⟩
    | [.int a, .int b, .int c', .int d] => pure ⟨src, [Cell.midi (u8 a) (u8 b) (u8 c') (u8 d)], true⟩
    | _ => throw .undef
  else
    let (r, cell) := parseIdentifier src
    pure ⟨r, [cell], true⟩

/-- `case '[':` -/
def scanArray (se : ElemScanner) (src : Bytes) (prev : List Cell) : Res ValRes := do
  let s1 := skipSpace (src.drop 1)
  -- start_arg is written after the loop; while the loop runs it is indeterminate, but the
  -- look-backs of the elements never reach it
  let hole : Cell := .arr 32 0
  let (s2, elems, arrtype) ← scanArrayElems se (src.length + 1) s1 (hole :: prev) 0 true [] 32
  let r ← advance s2 1
  pure ⟨r, Cell.arr arrtype elems.length :: elems, true⟩

/-- `case 'B':` -/
def scanBlob (src : Bytes) : Res ValRes :=
  match sscanf fmtBlobOpenLen src with
  | [.int len, .pos rd] =>
    if rd = 0 then
      let (r, cell) := parseIdentifier src
      pure ⟨r, [cell], true⟩
    else do
      let n := toI32 len
      if n < 0 then throw .undef
      let s1 := src.drop rd
      let (s2, data) ← scanBlobBytes n.toNat s1 []
      let r ← advance s2 1
      pure ⟨r, [Cell.blob data], true⟩
  | _ =>
    -- arg->val.b.len may have been assigned, rd = 0: an identifier
    let (r, cell) := parseIdentifier src
    pure ⟨r, [cell], true⟩

/-- `default:` a range multiplier "nx…" -/
def scanMultiplier (se : ElemScanner) (src : Bytes) : Res ValRes := do
  let (mult, rd) ← match sscanf fmtMult src with
    | [.int m, .pos rd] => pure (toI32 m, rd)
    | _ => throw .undef
  let s1 := src.drop rd
  let (tmp, vcells) ← se s1 [] 0 false
  let r ← advance s1 tmp
  pure ⟨r, Cell.rep mult 0 :: vcells, false⟩

/-- `default:` a date (fixes C10-04, C10-05, C10-06) -/
def scanDate (src : Bytes) : Res ValRes := do
  let (year, mon, mday, rd0) ← match sscanf fmtScDate src with
    | [.int y, .int m, .int d, .pos rd] => pure (toI32 y, toI32 m, toI32 d, rd)
    | _ => throw .undef
  let s1 := src.drop rd0
  let (hour, min, s2) := match sscanf fmtScHM s1 with
    | [.int h, .int m, .pos rd] => if rd ≠ 0 then (toI32 h, toI32 m, s1.drop rd) else (0, 0, s1)
    | _ => (0, 0, s1)
  let (sec, s3) := match sscanf fmtScS s2 with
    | [.int sc, .pos rd] => (toI32 sc, s2.drop rd)
    | _ => ((0 : Int), s2)
  let openRd := if hd s3 = 46 then skipFmt fmtScFracOpen s3 else 0
  let (secfracs, s4) ←
    if openRd ≠ 0 then do
      let s3' := s3.drop openRd
      match sscanf fmtScLoss s3' with
      | [.flt b, .pos rd] => do let sf ← doubleToSecfracs b; pure (sf, s3'.drop rd)
      | [.flt b] => do let sf ← doubleToSecfracs b; pure (sf, s3')
      | _ => pure (0, s3')
    else if hd s3 = 46 then
      match sscanf fmtScFloat s3 with
      | [.flt b, .pos rd] => do let sf ← float2secfracs b; pure (sf, s3.drop rd)
      | _ =>
        -- secfracsf is indeterminate, `rd` still holds the result of the seconds scan
        throw .undef
    else pure (0, s3)
  let tm : Tm := { year := year, mon := mon, mday := mday, hour := hour, min := min, sec := sec }
  pure ⟨s4, [Cell.time (timeFromParams tm secfracs)], true⟩

/-- `default:` a numeric literal, optionally followed by its exact value in parentheses -/
def scanNumeric (src : Bytes) : Res ValRes := do
  let (rd1, ty1, raw1) ← scanNumberPass src 0 none
  let s1 := src.drop rd1
  let after := skipSpace s1
  if hd after = 40 then do
    let s2 := skipSpace (after.drop 1)
    let (rd2, ty2, raw2) ← scanNumberPass s2 ty1 (some raw1)
    let s3 := s2.drop rd2
    let s4 := s3.drop (skipFmt fmtCloseParen s3)
    let cell ← cellOfRaw ty2 raw2
    pure ⟨s4, [cell], true⟩
  else do
    let cell ← cellOfRaw ty1 raw1
    pure ⟨s1, [cell], true⟩

/-- the `switch(*src)` of `rtosc_scan_arg_val` -/
def scanValue (se : ElemScanner) (src : Bytes) (prev : List Cell) : Res ValRes :=
  let c := hd src
  if c = 116 ∨ c = 102 ∨ c = 110 ∨ c = 105 then pure (scanKeyword src)
  else if c = 35 then scanColor src
  else if c = 39 then scanChar src
  else if c = 34 then scanString src
  else if c = 77 then scanMidi src
  else if c = 91 then scanArray se src prev
  else if c = 66 then scanBlob src
  else if isRangeMultiplier src then scanMultiplier se src
  else if isIdentStart c then
    let (r, cell) := parseIdentifier src
    pure ⟨r, [cell], true⟩
  else if skipFmt fmtIsDate src ≠ 0 then scanDate src           -- fix C10-02
  else scanNumeric src

/-- the tail of `rtosc_scan_arg_val`: "is the argument being followed by an ellipsis?" -/
def finishArg (se : ElemScanner) (src : Bytes) (v : ValRes) (prev : List Cell) (argsBefore : Nat)
    (followEllipsis : Bool) : Res (Nat × List Cell) := do
  let rest := v.rest
  let cells := v.cells
  let src2 := skipSpace rest
  if followEllipsis ∧ startsWith src2 [46, 46, 46] then do
    if !v.argValid then throw .undef           -- `arg` was advanced behind "nx…": *arg is not written yet
    let lhsarg ← deref cells
    let s1 := skipSpace (src2.drop 3)         -- src += 2; while(isspace(*++src));
    let infinite := hd s1 = 93
    let (s2, rhs) : Bytes × Option Cell ←
      if infinite then pure (s1, none)
      else do
        let (rd, rcells) ← se s1 [] 0 false
        let r ← advance s1 rd
        let rc ← deref rcells
        pure (r, some rc)
    -- find llhs position
    let p3 := prev.drop 2
    let llhs : Option Cell ←
      if decide (argsBefore > 2) && (match p3.head? with | some (.rep _ hdl) => decide (hdl ≠ 0) | _ => false) then do
        match p3 with
        | .rep num _ :: _ =>
          -- arg-3 is the range header, arg-2 its delta, arg-1 its start
          let block := [p3.headD (.rep 0 0), prev.getD 1 (.rep 0 0), prev.getD 0 (.rep 0 0)]
          match ← rangeArgF block (num - 1) with
          | some c => pure (some c)
          | none => throw .undef                    -- NULL is dereferenced
        | _ => throw .undef
      else pure prev.head?
    let useless : Bool ←
      if argsBefore < 1 then pure true
      else if lhsarg.type = ArgVal.tyRange then pure true
      else
        match llhs with
        | none => throw .oob
        | some ll =>
          if !typesMatch ll.type lhsarg.type then pure true
          else do pure ((← cmpCell ll lhsarg) = 0)
    -- like the syntax checker: only numeric types can count (fix C11-02)
    let numericRange := numericRangeTypes.contains lhsarg.type
    let (hasDelta, num, delta) : Bool × Int × Option Cell ←
      if infinite ∧ (useless ∨ !numericRange) then pure (false, 0, none)
      else do
        let (n, d) ← deltaFromArgVals llhs lhsarg rhs useless
        if infinite ∧ n = -1 then pure (false, n, some d) else pure (true, n, some d)
    -- insert_arg_range(arg, num, &lhsarg, has_delta, &delta, true, true)
    let hdr : Cell := .rep (if !hasDelta then 0 else num) (if hasDelta then 1 else 0)
    let dcell : List Cell ← if hasDelta then (match delta with | some d => pure [d] | none => throw .undef) else pure []
    if hasDelta ∧ cells.length ≠ 1 then throw .undef      -- an array would be shifted by one only
    pure (src.length - s2.length, hdr :: dcell ++ cells)
  else pure (src.length - rest.length, cells)

/-- `rtosc_scan_arg_val(src, arg, nargs, buffer_for_strings, bufsize, args_before, follow_ellipsis)`:
    characters read and the cells written at `arg[0…]`.  `prev`: the cells before `arg`, most
    recent first.  The first argument bounds the nesting depth. -/
def scanArgVal : Nat → Bytes → List Cell → Nat → Bool → Res (Nat × List Cell)
  | 0, _, _, _, _ => .error .fuel
  | fuel + 1, src, prev, argsBefore, followEllipsis => do
    let v ← scanValue (scanArgVal fuel) src prev
    finishArg (scanArgVal fuel) src v prev argsBefore followEllipsis

/-- the white space / comment skipping between two arguments: characters skipped -/
def skipSpaceComments : Nat → Bytes → Res Nat
  | 0, _ => .error .fuel
  | fuel + 1, s =>
    let a := skipFmt fmtSpace s
    let s1 := s.drop a
    if hd s1 = 37 then do
      let b ← skipComments (s1.length + 1) s1
      let s2 := s1.drop b
      if isspace (hd s2) then do
        let more ← skipSpaceComments fuel s2
        pure (a + b + more)
      else pure (a + b)
    else pure a
where
  /-- `while(*src == '%') rd += skip_fmt(&src, "%*[^\n]%n")` -/
  skipComments : Nat → Bytes → Res Nat
    | 0, _ => .error .fuel
    | fuel + 1, s =>
      if hd s = 37 then
        let b := skipFmt fmtComment s
        if b = 0 then .error .hang
        else do
          let more ← skipComments fuel (s.drop b)
          pure (b + more)
      else .ok 0

/-- the loop of `rtosc_scan_arg_vals`: (characters read, cells written); `i` cells are done;
    `prevOk` is `prev_ok` (fix C11-04: `args_before` is `prev_ok ? i : 0`) -/
def scanArgValsLoop : Nat → Bytes → Nat → Nat → Bool → List Cell → Nat → Res (Nat × List Cell)
  | 0, _, _, _, _, _, _ => .error .fuel
  | fuel + 1, src, n, i, prevOk, done, rd =>
    if i < n then do
      let (tmp, cells) ← scanArgVal (src.length + 2) src done.reverse (if prevOk then i else 0) true
      let ok' ← canPrecedeRange cells
      let s1 ← advance src tmp
      let length ← nextArgOffset (cells.length + 1) cells
      if length ≠ cells.length then throw .undef
      let sk ← skipSpaceComments (s1.length + 1) s1
      scanArgValsLoop fuel (s1.drop sk) n (i + length) ok' (done ++ cells) (rd + tmp + sk)
    else pure (rd, done)

/-- `rtosc_scan_arg_vals(src, args, n, buffer_for_strings, bufsize)`; white space and comments in
    front of the first value are skipped (fix C11-01) -/
def scanArgVals (src : Bytes) (n : Nat) : Res (Nat × List Cell) := do
  let sk ← skipSpaceComments (src.length + 1) src
  scanArgValsLoop (n + 1) (src.drop sk) n 0 true [] sk

/-- `rtosc_scan_message(src, address, adrsize, args, n, …)`: (characters read, address, cells) -/
def scanMessage (src : Bytes) (adrsize : Nat) (n : Nat) : Res (Nat × Bytes × List Cell) := do
  let s0 := skipSpace src
  let rd0 := src.length - s0.length
  let c0 ← if hd s0 = 37 then skipCommentsSp (s0.length + 1) s0 else pure 0
  let s1 := s0.drop c0
  let rd1 := rd0 + c0
  -- assert(*src == '/') is compiled out
  let addr := (s1.takeWhile (fun c => !isspace c)).take (adrsize - rd1)
  let s2 := s1.drop addr.length
  let rd2 := rd1 + addr.length
  let s3 := skipSpace s2
  let rd3 := rd2 + (s2.length - s3.length)
  let (rd, cells) ← scanArgVals s3 n
  pure (rd3 + rd, addr, cells)
where
  /-- `while (*src == '%') rd += skip_fmt(&src, "%*[^\n] %n")` -/
  skipCommentsSp : Nat → Bytes → Res Nat
    | 0, _ => .error .fuel
    | fuel + 1, s =>
      if hd s = 37 then
        let b := skipFmt fmtCommentSp s
        if b = 0 then .error .hang
        else do
          let more ← skipCommentsSp fuel (s.drop b)
          pure (b + more)
      else .ok 0

end Rtosc.Pretty
