/-
  C10/C11 — character-level helpers of src/cpp/pretty-format.c shared by printer, checker and
  scanner: the two escape tables, `skip_word`, `skip_identifier`, `is_range_multiplier`,
  `end_of_printed_string`, `skip_fmt`, the numeric format selection `scanf_fmtstr`, and the
  sscanf format strings of the file written as directive lists.

  A `const char*` into the text is the suffix of the text it points to (the bytes before the
  terminating NUL); NULL is `none`.  `*p` at the end is the NUL (`Libc.hd`).  Moving a pointer
  past the NUL (`advance`) is an explicit out-of-bounds result, never a default.
  No Mathlib import: linked into the driver.
-/
import RtoscModel.Libc.Scanf
import RtoscModel.Libc.Time
namespace Rtosc.Pretty
open Rtosc Rtosc.Libc

/-- how a model function can fail to have a defined result -/
inductive Err where
  | oob            -- read/move past the terminating NUL of the text, or before the buffer
  | undef          -- the C code reads an indeterminate value / passes NULL on
  | trap           -- integer division overflow
  | unmodelled     -- float range arithmetic (not needed for printed text), see Range.lean
  | argval         -- an error of the arg-val comparison model
  | hang           -- the C code does not terminate (or overruns its output while looping)
  | fuel
deriving DecidableEq, Repr

abbrev Res := Except Err

/-- `p + k` -/
def advance (s : Bytes) (k : Nat) : Res Bytes :=
  if k ≤ s.length then .ok (s.drop k) else .error .oob

/-! ### escape tables -/

/-- `as_escaped_char(c, chr)`: the letter of the escape sequence for `c`, if any -/
def asEscapedChar (c : UInt8) (chr : Bool) : Option UInt8 :=
  if c = 7 then some 97          -- \a
  else if c = 8 then some 98     -- \b
  else if c = 9 then some 116    -- \t
  else if c = 10 then some 110   -- \n
  else if c = 11 then some 118   -- \v
  else if c = 12 then some 102   -- \f
  else if c = 13 then some 114   -- \r
  else if c = 92 then some 92    -- backslash
  else if chr && c = 39 then some 39
  else if chr && c = 0 then some 48   -- NUL as \0 (fix C10-14)
  else if !chr && c = 34 then some 34
  else none

/-- `get_escaped_char(c, chr)`: 0 when there is no such escape sequence -/
def getEscapedChar (c : UInt8) (chr : Bool) : UInt8 :=
  if c = 97 then 7
  else if c = 98 then 8
  else if c = 116 then 9
  else if c = 110 then 10
  else if c = 118 then 11
  else if c = 102 then 12
  else if c = 114 then 13
  else if c = 92 then 92
  else if chr && c = 39 then 39
  else if !chr && c = 34 then 34
  else 0

/-! ### words, identifiers -/

def isIdentStart (c : UInt8) : Bool := c = 95 || isalpha c
def isIdentChar (c : UInt8) : Bool := c = 95 || isalnum c

/-- `skip_word(exp, &str)`: the position after the word, if it is present as a separate word
    ('%' ends a word: fix C10-09) -/
def skipWord (exp : Bytes) (s : Bytes) : Option Bytes :=
  if startsWith s exp then
    let r := s.drop exp.length
    let c := hd r
    if c = 0 || c = 47 || c = 93 || c = 46 || c = 37 || isspace c then some r else none
  else none

def skipIdentChars : Bytes → Bytes
  | [] => []
  | c :: r => if isIdentChar c then skipIdentChars r else c :: r

def takeIdentChars : Bytes → Bytes
  | [] => []
  | c :: r => if isIdentChar c then c :: takeIdentChars r else []

/-- `skip_identifier(str)` -/
def skipIdentifier (s : Bytes) : Option Bytes :=
  if isIdentStart (hd s) then some (skipIdentChars (s.drop 1)) else none

def skipDigits : Bytes → Bytes
  | [] => []
  | c :: r => if isdigit c then skipDigits r else c :: r

/-- `is_range_multiplier(s)`: `[1-9][0-9]*x` -/
def isRangeMultiplier (s : Bytes) : Bool :=
  isdigit (hd s) && hd s ≠ 48 && hd (skipDigits (s.drop 1)) = 120

/-- `strchr(s, 'x') + 1` for a string that starts with a range multiplier -/
def afterX : Bytes → Bytes
  | [] => []
  | c :: r => if c = 120 then r else afterX r

/-! ### formats -/

/-- `skip_fmt(&src, fmt)`: characters skipped (0 if the format did not match up to its `%n`) -/
def skipFmt (fmt : List Dir) (s : Bytes) : Nat := scanRd fmt s

def fmtStrCont : List Dir := [.lit 34, .lit 92, .ws, .lit 34, .n]                 -- "\"\\ \"%n"
def fmtCloseParen : List Dir := [.ws, .lit 41, .n]                                 -- " )%n"
def fmtSpace : List Dir := [.ws, .n]                                               -- " %n"
def fmtCommentSp : List Dir := [.notNl, .ws, .n]                                   -- "%*[^\n] %n"
def fmtComment : List Dir := [.notNl, .n]                                          -- "%*[^\n]%n"
def hx (sup : Bool) : List Dir := [.lit 48, .lit 120, .int .x none sup]           -- "0x%x" / "0x%*x"
def fmtMidi (sup : Bool) : List Dir :=                                             -- "MIDI [ 0x%x 0x%x 0x%x 0x%x ]%n"
  lits "MIDI" ++ [.ws, .lit 91, .ws] ++ hx sup ++ [.ws] ++ hx sup ++ [.ws] ++ hx sup ++ [.ws] ++ hx sup ++
    [.ws, .lit 93, .n]
def fmtBlobOpen : List Dir := lits "BLOB" ++ [.ws, .lit 91, .ws, .n]               -- "BLOB [ %n"
def fmtBlobLen : List Dir := [.int .i none false, .ws, .n]                         -- "%i %n"
def fmtBlobOpenLen : List Dir := lits "BLOB" ++ [.ws, .lit 91, .ws, .int .i none false, .ws, .n] -- "BLOB [ %i %n"
def fmtBlobByte (sup : Bool) : List Dir := hx sup ++ [.ws, .n]                     -- "0x%x %n"
def fmtMult : List Dir := [.int .d none false, .lit 120, .n]                       -- "%dx%n"
def d1 : Dir := .int .d (some 1) true
def fmtIsDate : List Dir := [.int .d (some 4) true, .lit 45, d1, d1, .lit 45, d1, d1, .n] -- "%*4d-%*1d%*1d-%*1d%*1d%n"
def fmtCkHM : List Dir := [.ws, .int .d (some 2) true, .lit 58, d1, d1, .n]        -- " %*2d:%*1d%*1d%n"
def fmtCkS : List Dir := [.lit 58, d1, d1, .n]                                     -- ":%*1d%*1d%n"
def fmtCkFrac : List Dir := [.lit 46, .int .d none true, .n]                       -- ".%*d%n"
def fmtCkLossOpen : List Dir :=                                                    -- " ( ... + 0x%n"
  [.ws, .lit 40, .ws, .lit 46, .lit 46, .lit 46, .ws, .lit 43, .ws, .lit 48, .lit 120, .n]
def fmtCkHexDot : List Dir := [.int .x none true, .lit 46, .n]                     -- "%*x.%n"
def fmtCkHexP : List Dir := [.int .x none true, .lit 112, .n]                      -- "%*xp%n"
def fmtCkExp : List Dir := [.lit 45, .int .d none false, .ws, .lit 115, .ws, .lit 41, .n] -- "-%d s )%n"
def d2 : Dir := .int .d (some 2) false
def fmtScDate : List Dir := [.int .d (some 4) false, .lit 45, d2, .lit 45, d2, .n] -- "%4d-%2d-%2d%n"
def fmtScHM : List Dir := [.ws, d2, .lit 58, d2, .n]                               -- " %2d:%2d%n"
def fmtScS : List Dir := [.lit 58, d2, .n]                                         -- ":%2d%n"
def fmtScFracOpen : List Dir := [.flt false true, .ws, .lit 40, .n]                -- "%*f (%n"
def fmtScLoss : List Dir :=                                                        -- " ... + %lf s )%n"  (fix C10-05)
  [.ws, .lit 46, .lit 46, .lit 46, .ws, .lit 43, .ws, .flt true false, .ws, .lit 115, .ws, .lit 41, .n]
def fmtScFloat : List Dir := [.flt false false, .n]                                -- "%f%n"

/-! ### numeric literals: `scanf_fmtstr` -/

/-- the format `scanf_fmtstr` selects (named after its type letter / spelling) -/
inductive NumFmt where
  | h      -- "%*lih%n"
  | d      -- "%*d%n"
  | ii     -- "%*ii%n"
  | x      -- "%*i%n" matched, replaced by "%*x%n"
  | lfd    -- "%*lfd%n"
  | ff     -- "%*ff%n"
  | f      -- "%*f%n"
deriving DecidableEq, Repr

/-- the format used for *trying* (`x` is tried as "%*i%n") -/
def NumFmt.tryDirs : NumFmt → List Dir
  | .h => [.int .i none true, .lit 104, .n]
  | .d => [.int .d none true, .n]
  | .ii => [.int .i none true, .lit 105, .n]
  | .x => [.int .i none true, .n]
  | .lfd => [.flt true true, .lit 100, .n]
  | .ff => [.flt false true, .lit 102, .n]
  | .f => [.flt false true, .n]

/-- the format used for skipping / scanning (`sup = false`: "%*" turned into "%") -/
def NumFmt.dirs (sup : Bool) : NumFmt → List Dir
  | .h => [.int .i none sup, .lit 104, .n]
  | .d => [.int .d none sup, .n]
  | .ii => [.int .i none sup, .lit 105, .n]
  | .x => [.int .x none sup, .n]
  | .lfd => [.flt true sup, .lit 100, .n]
  | .ff => [.flt false sup, .lit 102, .n]
  | .f => [.flt false sup, .n]

/-- the rtosc type letter the format stands for -/
def NumFmt.type : NumFmt → UInt8
  | .h => 104
  | .d => 105 | .ii => 105 | .x => 105
  | .lfd => 100
  | .ff => 102 | .f => 102

/-- length of the numeric word: up to the string end, white space, ')' , ']', '%' (a comment;
    fix C11-08) or "..." -/
def numWordLen : Bytes → Nat
  | [] => 0
  | c :: r =>
    if isspace c || c = 41 || c = 93 || c = 37 || startsWith (c :: r) [46, 46, 46] then 0
    else numWordLen r + 1

/-- `scanf_fmtstr(src, &type)`: first format that matches exactly the numeric word -/
def scanfFmtstr (s : Bytes) : Option NumFmt :=
  let exp := numWordLen s
  [NumFmt.h, .d, .ii, .x, .lfd, .ff, .f].find? (fun nf => scanRd nf.tryDirs s = exp)

/-- `skip_numeric(&src, type)`: (characters skipped, type); `none`: no format matches -/
def skipNumeric (s : Bytes) : Option (Nat × UInt8) :=
  match scanfFmtstr s with
  | none => none
  | some nf => some (skipFmt (nf.dirs true) s, nf.type)

/-! ### strings -/

/-- the inner `for` loop of `end_of_printed_string`: up to the closing quote;
    `none` = bad escape sequence -/
def strBody : Bytes → Bool → Option Bytes
  | [], _ => some []
  | c :: r, escaped =>
    if escaped || c ≠ 34 then
      if escaped && getEscapedChar c false = 0 then none
      else strBody r (if c = 92 then !escaped else false)
    else some (c :: r)

/-- the `do … while(cont)` loop of `end_of_printed_string`; `s` points behind an opening quote.
    A continuation `"\` that is not followed by white space and `"` makes `skip_fmt_null`
    set `src = NULL`, which the next loop iteration dereferences (`Err.undef`).
    `fuel` bounds the number of continuation parts. -/
def eosLoop : Nat → Bytes → Res (Option Bytes)
  | 0, _ => .error .fuel
  | fuel + 1, s =>
    match strBody s false with
    | none => .ok none
    | some s1 =>
      if hd s1 = 34 && hd (s1.drop 1) = 92 then
        let rd := skipFmt fmtStrCont s1
        if rd = 0 then .error .undef else eosLoop fuel (s1.drop rd)
      else if s1.isEmpty then .ok none
      else .ok (some (s1.drop 1))

/-- `end_of_printed_string(src)`: called at the opening quote; the position after the closing
    quote of the last part -/
def endOfPrintedString (s : Bytes) : Res (Option Bytes) := eosLoop s.length (s.drop 1)

end Rtosc.Pretty
