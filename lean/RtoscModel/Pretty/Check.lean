/-
  C10/C11 — model of the syntax checker of src/cpp/pretty-format.c, with fixes C10-13 and C11-03
  (the value left of a range is only scanned when the range is numeric) applied:
  `rtosc_skip_next_printed_arg`, `rtosc_count_printed_arg_vals`,
  `rtosc_count_printed_arg_vals_of_msg`.

  `rtosc_skip_next_printed_arg(src, &skipped, &type, llhssrc, follow_ellipsis, inside_bundle)`
  becomes a function returning (position after the argument or NULL, `*skipped`, `*type`);
  `*type` is an in/out parameter in C (several paths leave it untouched), so its previous
  content is an argument (`typeIn`).  For ranges the checker calls the scanner
  (`Scan.scanArgVal`) on the texts left and right of the ellipsis, like the code does.
  No Mathlib import: linked into the driver.
-/
import RtoscModel.Pretty.Scan
namespace Rtosc.Pretty
open Rtosc Rtosc.Libc
open Rtosc.ArgVal (Cell IntTy StrTy FlagTy)

/-- `arraytypes_match(type1, type2)`: ranges match everything -/
def arraytypesMatch (a b : UInt8) : Bool := a = 45 || b = 45 || typesMatch a b

structure SkipRes where
  src : Option Bytes      -- returned pointer (NULL = `none`)
  skipped : Int
  type : UInt8
deriving Repr

/-- what `rtosc_skip_next_printed_arg` needs from itself -/
abbrev ArgSkipper := Bytes → UInt8 → Option Bytes → Bool → Bool → Res SkipRes

/-- the element loop of the array case: (src, skipped) -/
def skipArrayElems (sk : ArgSkipper) : Nat → Option Bytes → Option Bytes → UInt8 → Int → Res (Option Bytes × Int)
  | 0, _, _, _, _ => .error .fuel
  | loopFuel + 1, src?, recent, arraytype, skipped =>
    match src? with
    | none => .ok (none, skipped)
    | some src =>
      if hd src ≠ 0 ∧ hd src ≠ 93 then do
        let r ← sk src 20 recent true true
        let src1 : Option Bytes := r.src.map skipSpace
        let (arraytype', src2) : UInt8 × Option Bytes :=
          if arraytype = 0 then (r.type, src1)
          else if !arraytypesMatch arraytype r.type then (arraytype, none)
          else (arraytype, src1)
        -- no progress would repeat forever
        match src2 with
        | some s2 => if s2.length ≥ src.length then throw .hang else pure ()
        | none => pure ()
        skipArrayElems sk loopFuel src2 (some src) arraytype' (skipped + r.skipped)
      else .ok (some src, skipped)

/-- `rtosc_scan_arg_val(s, &av, 1, NULL, &zero, 0, 0)`: one value scanned into a local variable,
    without a buffer for strings.  A string, symbol or non-empty blob is stored through the NULL
    buffer, an array or "nx…" writes behind the variable: undefined behaviour (`Err.undef`). -/
def scanOne (s : Bytes) : Res Cell := do
  let (_, cells) ← scanArgVal (s.length + 2) s [] 0 false
  match cells with
  | [.str _ _] => .error .undef
  | [.blob d] => if d.isEmpty then .ok (.blob d) else .error .undef
  | [c] => .ok c
  | _ => .error .undef

/-- what the `switch` of `rtosc_skip_next_printed_arg` leaves behind:
    `src` (NULL = none), `*skipped`, `*type`, `deltaless_range_type` -/
structure SwRes where
  src : Option Bytes
  skipped : Int
  type : UInt8
  dlType : UInt8
deriving Repr

/-- `for(;src && *src == '0';) { skip_fmt_null(&src, "0x%*x %n"); blobsize--; }` -/
def skipBlobBytes : Nat → Option Bytes → Int → Option Bytes × Int
  | 0, s, k => (s, k)
  | fuel + 1, s?, k =>
    match s? with
    | none => (none, k)
    | some s =>
      if hd s = 48 then
        let rd := skipFmt (fmtBlobByte true) s
        if rd = 0 then (none, k - 1) else skipBlobBytes fuel (some (s.drop rd)) (k - 1)
      else (some s, k)

/-- a keyword, or else an identifier: `case 't': 'f': 'n': 'i':` -/
def skipKeyword (src : Bytes) : SwRes :=
  let c := hd src
  let ident : SwRes := ⟨skipIdentifier src, 1, 83, 0⟩
  if c = 116 then
    match skipWord (lit "true") src with
    | some r => ⟨some r, 1, 84, 0⟩
    | none => ident
  else if c = 102 then
    match skipWord (lit "false") src with
    | some r => ⟨some r, 1, 70, 0⟩
    | none => ident
  else if c = 110 then
    match skipWord (lit "nil") src with
    | some r => ⟨some r, 1, 78, 0⟩
    | none =>
      match skipWord (lit "now") src with
      | some r => ⟨some r, 1, 116, 0⟩
      | none => ident
  else
    match skipWord (lit "inf") src with
    | some r => ⟨some r, 1, 73, 0⟩
    | none =>
      match skipWord (lit "immediately") src with
      | some r => ⟨some r, 1, 116, 0⟩
      | none => ident

/-- `case '#':` -/
def skipColor (src : Bytes) : SwRes :=
  let digs := (src.drop 1).take 8
  if digs.length = 8 ∧ digs.all isxdigit then ⟨some (src.drop 9), 1, 114, 0⟩ else ⟨none, 1, 114, 0⟩

/-- `case '\'':` (`none` = `return NULL` right away) -/
def skipChar (src : Bytes) : Option SwRes :=
  if src.length < 3 then none
  else
    let c1 := src.getD 1 0
    let c2 := src.getD 2 0
    let c3 := src.getD 3 0
    if c1 = 92 then
      if c2 = 39 ∧ (c3 = 0 ∨ isspace c3) then
        -- '\' : accepted as a backslash
        some ⟨some (src.drop 3), 1, 99, 0⟩
      else
        let esc := getEscapedChar c2 true
        -- '\0' is the only escape sequence with the value 0 (fix C10-14)
        if (esc = 0 ∧ c2 ≠ 48) ∨ c3 ≠ 39 then some ⟨none, 1, 99, 0⟩
        else some ⟨some (src.drop 4), 1, 99, 0⟩
    else if c2 ≠ 39 then some ⟨none, 1, 99, 0⟩
    else some ⟨some (src.drop 3), 1, 99, 0⟩

/-- `case '"':` -/
def skipString (src : Bytes) : Res SwRes := do
  match ← endOfPrintedString src with
  | some r => if hd r = 83 then pure ⟨some (r.drop 1), 1, 83, 0⟩ else pure ⟨some r, 1, 115, 0⟩
  | none => pure ⟨none, 1, 115, 0⟩

/-- `case 'M':` -/
def skipMidi (src : Bytes) : SwRes :=
  if startsWith src (lit "MIDI") ∧ (isspace (hd (src.drop 4)) ∨ hd (src.drop 4) = 91) then
    let rd := skipFmt (fmtMidi true) src
    ⟨(if rd = 0 then none else some (src.drop rd)), 1, 109, 0⟩
  else ⟨skipIdentifier src, 1, 83, 0⟩

/-- `case '[':` -/
def skipArray (sk : ArgSkipper) (src : Bytes) : Res SwRes := do
  let s1 := skipSpace (src.drop 1)
  let (r, skipped) ← skipArrayElems sk (src.length + 1) (some s1) none 0 1
  let r' : Option Bytes := match r with
    | some s => if hd s ≠ 0 then some (s.drop 1) else none
    | none => none
  pure ⟨r', skipped, 97, 0⟩

/-- `case 'B':` -/
def skipBlob (src : Bytes) : SwRes :=
  let rd := skipFmt fmtBlobOpen src
  if rd ≠ 0 then
    let s1 := src.drop rd
    let (blobsize, src1) : Int × Option Bytes := match sscanf fmtBlobLen s1 with
      | [.int v, .pos r] => (toI32 v, if r ≠ 0 then some (s1.drop r) else none)
      | [.int v] => (toI32 v, none)
      | _ => (0, none)
    let (src2, blobsize') := skipBlobBytes (s1.length + 1) src1 blobsize
    let src3 : Option Bytes := if blobsize' ≠ 0 then none else src2
    let src4 : Option Bytes := match src3 with
      | some s => if hd s = 93 then some (s.drop 1) else none
      | none => none
    ⟨src4, 1, 98, 0⟩
  else ⟨skipIdentifier src, 1, 83, 0⟩

/-- `default:` "nx…" -/
def skipMultiplier (sk : ArgSkipper) (src : Bytes) (typeIn : UInt8) (insideBundle : Bool) : Res SwRes := do
  let s1 := afterX src
  let r ← sk s1 0 none false insideBundle
  match r.src with
  | some s => pure ⟨some s, 1 + r.skipped, 45, r.type⟩
  | none => pure ⟨none, 1, typeIn, r.type⟩

/-- `default:` a date; `rdDate` = length of "YYYY-MM-DD" -/
def skipDate (src : Bytes) (rdDate : Nat) : SwRes :=
  let s1 := src.drop rdDate
  let rdHM := skipFmt fmtCkHM s1
  if rdHM = 0 then ⟨some s1, 1, 116, 0⟩ else
  let s2 := s1.drop rdHM
  let rdS := skipFmt fmtCkS s2
  if rdS = 0 then ⟨some s2, 1, 116, 0⟩ else
  let s3 := s2.drop rdS
  let rdF := skipFmt fmtCkFrac s3
  if rdF = 0 then ⟨some s3, 1, 116, 0⟩ else
  let s4 := s3.drop rdF
  let rdL := skipFmt fmtCkLossOpen s4
  if rdL = 0 then ⟨some s4, 1, 116, 0⟩ else
  let s5 := s4.drop rdL
  let s6 := s5.drop (skipFmt fmtCkHexDot s5)
  let rdP := skipFmt fmtCkHexP s6
  if rdP = 0 then ⟨none, 1, 116, 0⟩ else
  let s7 := s6.drop rdP
  match sscanf fmtCkExp s7 with
  | [.int e, .pos rd] =>
    if rd ≠ 0 ∧ toI32 e > 0 ∧ toI32 e ≤ 32 then ⟨some (s7.drop rd), 1, 116, 0⟩ else ⟨none, 1, 116, 0⟩
  | _ => ⟨none, 1, 116, 0⟩

/-- `default:` a numeric literal with an optional exact value in parentheses -/
def skipNumericArg (src : Bytes) (typeIn : UInt8) : SwRes :=
  match skipNumeric src with
  | none => ⟨none, 1, typeIn, 0⟩
  | some (rd, ty) =>
    if rd = 0 then ⟨none, 1, ty, 0⟩
    else
      let s1 := src.drop rd
      let after := skipSpace s1
      if hd after = 40 then
        if ty = 102 ∨ ty = 100 then
          let s2 := skipSpace (after.drop 1)
          match skipNumeric s2 with
          | none => ⟨none, 1, ty, 0⟩
          | some (rd2, _) =>
            if rd2 = 0 then ⟨none, 1, ty, 0⟩
            else
              let s3 := s2.drop rd2
              let rd3 := skipFmt fmtCloseParen s3
              ⟨(if rd3 = 0 then none else some (s3.drop rd3)), 1, ty, 0⟩
        else ⟨none, 1, ty, 0⟩
      else ⟨some s1, 1, ty, 0⟩

/-- the `switch(*src)`; `none` = `return NULL` -/
def skipValue (sk : ArgSkipper) (src : Bytes) (typeIn : UInt8) (insideBundle : Bool) : Res (Option SwRes) :=
  let c := hd src
  if c = 116 ∨ c = 102 ∨ c = 110 ∨ c = 105 then pure (some (skipKeyword src))
  else if c = 35 then pure (some (skipColor src))
  else if c = 39 then pure (skipChar src)
  else if c = 34 then do let r ← skipString src; pure (some r)
  else if c = 77 then pure (some (skipMidi src))
  else if c = 91 then do let r ← skipArray sk src; pure (some r)
  else if c = 66 then pure (some (skipBlob src))
  else if isRangeMultiplier src then do let r ← skipMultiplier sk src typeIn insideBundle; pure (some r)
  else if isIdentStart c then pure (some ⟨some (skipIdentChars src), 1, 83, 0⟩)
  else if skipFmt fmtIsDate src ≠ 0 then pure (some (skipDate src (skipFmt fmtIsDate src)))
  else pure (some (skipNumericArg src typeIn))

/-- the tail of `rtosc_skip_next_printed_arg`: the argument is followed by "..." at `src2` -/
def ellipsisTail (sk : ArgSkipper) (oldSrc : Bytes) (sw : SwRes) (src2 : Bytes) (llhssrc : Option Bytes)
    (insideBundle : Bool) : Res SkipRes := do
  let skipped := sw.skipped
  let ellipsis := src2
  let rhssrc := skipSpace (src2.drop 3)
  let lhssrc := if isRangeMultiplier oldSrc then afterX oldSrc else oldSrc
  let lhstype : UInt8 := if sw.dlType ≠ 0 then sw.dlType else sw.type
  let numericRange := lhstype = 0 ∨ numericRangeTypes.contains lhstype
  let fail : SkipRes := { src := none, skipped := skipped, type := 45 }
  -- in all cases, check rhs
  let rhsInfo : Option (Bytes × UInt8 × Option Cell × Bool) ←
    if hd rhssrc = 93 then pure (some (rhssrc, lhstype, none, true))
    else if !numericRange then pure none
    else do
      let r ← sk rhssrc 120 none false insideBundle
      match r.src with
      | none => pure none
      | some endsrc => do
        let rc ← scanOne rhssrc
        pure (some (endsrc, r.type, some rc, false))
  match rhsInfo with
  | none => pure fail
  | some (endsrc, rhstype, rhsarg, infinite) =>
    if lhstype ≠ rhstype then pure fail
    else do
      let lhsarg : Option Cell ← if numericRange then (do let cl ← scanOne lhssrc; pure (some cl)) else pure none
      -- is llhs given and useful?
      let (useless, llhsarg) : Bool × Option Cell ←
        match llhssrc with
        | none => pure (true, none)
        | some ll0 => do
          -- fix C10-13: is llhs itself a range "a ... b"? then take "b"
          let ra ← sk ll0 0 none false insideBundle
          let after : Option Bytes := ra.src.map skipSpace
          let ll1 : Bytes :=
            match after with
            | some a =>
              if a.length > ellipsis.length ∧ startsWith a [46, 46, 46] then skipSpace (a.drop 3)
              else if isRangeMultiplier ll0 then afterX ll0 else ll0
            | none => if isRangeMultiplier ll0 then afterX ll0 else ll0
          let rl ← sk ll1 0 none false insideBundle
          -- fix C11-03: `numeric_range && types_match(llhstype, lhstype)`
          if numericRange ∧ typesMatch rl.type lhstype then do
            let llc ← scanOne ll1
            let l ← match lhsarg with | some l => pure l | none => throw .undef
            if (← cmpCell llc l) = 0 then pure (true, some llc) else pure (false, some llc)
          else pure (true, none)
      let hasDelta : Option Bool ←
        if infinite ∧ (useless ∨ !numericRange) then pure (some false)
        else do
          let l ← match lhsarg with | some l => pure l | none => throw .undef
          let (num, _) ← deltaFromArgVals llhsarg l rhsarg useless
          if num = -1 then (if infinite then pure (some false) else pure none)
          else pure (some true)
      match hasDelta with
      | none => pure fail
      | some hdl =>
        -- ellipsis skips 3 arg vals: range, delta, start
        pure { src := some endsrc, skipped := skipped + (if hdl then 2 else 1), type := 45 }

/-- `rtosc_skip_next_printed_arg`; the first argument bounds the nesting depth -/
def skipNextPrintedArg : Nat → Bytes → UInt8 → Option Bytes → Bool → Bool → Res SkipRes
  | 0, _, _, _, _, _ => .error .fuel
  | fuel + 1, oldSrc, typeIn, llhssrc, followEllipsis, insideBundle => do
    match ← skipValue (skipNextPrintedArg fuel) oldSrc typeIn insideBundle with
    | none => pure { src := none, skipped := 1, type := typeIn }
    | some sw =>
      match sw.src with
      | none => pure { src := none, skipped := sw.skipped, type := sw.type }
      | some src =>
        let src2 := skipSpace src
        if followEllipsis ∧ startsWith src2 [46, 46, 46] then
          ellipsisTail (skipNextPrintedArg fuel) oldSrc sw src2 llhssrc insideBundle
        else pure { src := some src, skipped := sw.skipped, type := sw.type }

/-- skip the comments `while (*src == '%') skip_fmt(&src, "%*[^\n] %n")` -/
def skipCommentLines : Nat → Bytes → Res Bytes
  | 0, _ => .error .fuel
  | fuel + 1, s =>
    if hd s = 37 then
      let b := skipFmt fmtCommentSp s
      if b = 0 then .error .hang else skipCommentLines fuel (s.drop b)
    else .ok s

/-- the nesting bound handed to `skipNextPrintedArg` by `countLoop`: the range tail re-skips the
    PREVIOUS argument `recent`, which may be nested deeper than the current text is long, so the
    bound covers both texts (the C function recurses without a bound) -/
def checkFuel (src : Bytes) (recent : Option Bytes) : Nat :=
  max src.length (match recent with | some r => r.length | none => 0) + 2

/-- the loop of `rtosc_count_printed_arg_vals` -/
def countLoop : Nat → Option Bytes → Option Bytes → Int → Res Int
  | 0, _, _, _ => .error .fuel
  | fuel + 1, src?, recent, num =>
    match src? with
    | none => .ok (-num)
    | some src =>
      if hd src ≠ 0 ∧ hd src ≠ 47 then do
        let r ← skipNextPrintedArg (checkFuel src recent) src 0 recent true false
        let src1 : Option Bytes ← match r.src with
          | none => pure none
          | some s => do
            let s1 := skipSpace s
            -- `if(*src && !isspace(*src))` is true whenever `*src` is not NUL
            let s2 ← if hd s1 ≠ 0 then skipCommentLines (s1.length + 1) s1 else pure s1
            pure (some s2)
        match src1 with
        | some s2 => if s2.length ≥ src.length then throw .hang else pure ()
        | none => pure ()
        countLoop fuel src1 (some src) (num + r.skipped)
      else .ok num

/-- `rtosc_count_printed_arg_vals(src)` -/
def countPrintedArgVals (src : Bytes) : Res Int := do
  let s0 := skipSpace src
  let s1 ← skipCommentLines (s0.length + 1) s0
  countLoop (s1.length + 1) (some s1) none 0

/-- `INT_MIN` -/
def intMin : Int := -2147483648

/-- `rtosc_count_printed_arg_vals_of_msg(msg)` -/
def countPrintedArgValsOfMsg (msg : Bytes) : Res Int := do
  let s0 := skipSpace msg
  let s1 ← skipCommentLines (s0.length + 1) s0
  if hd s1 = 47 then countPrintedArgVals (s1.dropWhile (fun c => !isspace c))
  else if s1.isEmpty then pure intMin
  else pure (-1)

end Rtosc.Pretty
