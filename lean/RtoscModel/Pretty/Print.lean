/-
  C10 — model of the pretty printer of src/cpp/pretty-format.c, with the fix patches
  fixes/C10-01 … C10-15 applied:
  `remove_trailing_zeroes`, `break_string`, `linebreak_check_after_write`,
  `rtosc_print_range`, `range_args_identical`, `range_step_overflows`,
  `rtosc_convert_to_range` (+ `insert_arg_range`), `rtosc_print_arg_val` (every type),
  `rtosc_print_arg_vals`, `rtosc_print_message`, and `rtosc_secfracs2float` (rtosc-time.c).

  The caller's buffer is `PSt.out`: every character written since the buffer's start, so that
  the code's look-backs (`buffer[-1]`, `last_sep`) are indices into it; `PSt.cols` is
  `*cols_used`.  Every function returns, next to the new state, the count `wrt` exactly as the
  code accumulates it — that it equals the number of characters added is a theorem, not a
  definition.  The separator is `" "` (`opt->sep`), the buffer is large enough (the
  `bs` bookkeeping only feeds `assert`s that are compiled out).
  The `' '` filler cell `rtosc_convert_to_range` writes behind a converted range is omitted:
  no code reads it (`conv` is used instead of `next_arg_offset` whenever a range was made).
  No Mathlib import: linked into the driver.
-/
import RtoscModel.Pretty.Val
namespace Rtosc.Pretty
open Rtosc Rtosc.Libc
open Rtosc.ArgVal (Cell IntTy StrTy FlagTy)

structure POpt where
  lossless : Bool
  prec : Nat
  linelength : Int
  compress : Bool
deriving DecidableEq, Repr

/-- `default_print_options` = { true, 2, " ", 80, true } -/
def defaultOpt : POpt := ⟨true, 2, 80, true⟩

structure PSt where
  out : Bytes
  cols : Int
deriving DecidableEq, Repr

def rangeMin : Nat := 5

/-- append text that does not count as columns here (callers add to `cols` themselves) -/
def PSt.emit (st : PSt) (bs : Bytes) : PSt := { st with out := st.out ++ bs }

/-- `remove_trailing_zeroes(str)`: the new string and the number of removed characters -/
def removeTrailingZeroes (s : Bytes) : Res (Bytes × Nat) :=
  let s1 := if hd s = 45 then s.drop 1 else s
  if s1.length < 3 then .error .oob
  else
    let s2 := s1.drop 3
    let pre := s.take (s.length - s2.length)
    match s2 with
    | 46 :: s3 =>
      let digs := s3.takeWhile isxdigit
      let rest := s3.drop digs.length
      let kept := stripZeros digs
      if kept.isEmpty then .ok (pre ++ rest, digs.length + 1)
      else .ok (pre ++ 46 :: kept ++ rest, digs.length - kept.length)
    | _ => .ok (s, 0)

/-- `rtosc_secfracs2float(secfracs)`: print as "0x%xp-32", scan with "%f" -/
def secfracs2float (secfracs : Nat) : Res Nat :=
  match sscanf fmtScFloat (lit "0x" ++ fmtHex (secfracs % 4294967296) ++ lit "p-32") with
  | .flt b :: _ => .ok b
  | _ => .error .undef

/-- the text `break_string` writes: `"\`, newline, four spaces, `"` -/
def breakText : Bytes := [34, 92, 10, 32, 32, 32, 32, 34]

/-- the reserved words `is_reserved_word` knows (fix C10-09) -/
def reservedWords : List Bytes :=
  [lit "true", lit "false", lit "nil", lit "inf", lit "immediately", lit "now", lit "MIDI", lit "BLOB"]

/-- "Symbol": are quotes required? -/
def symbolPlain (s : Bytes) : Bool :=
  isIdentStart (hd s) && (s.drop 1).all isIdentChar && !reservedWords.contains s

/-- the character loop of the string printer -/
def printStrChars (plain : Bool) (ll : Int) : Bytes → PSt → PSt
  | [], st => st
  | c :: r, st =>
    let st1 : PSt := if !plain && st.cols > ll - 3 then { out := st.out ++ breakText, cols := 5 } else st
    match asEscapedChar c false with
    | some e =>
      let st2 : PSt := { out := st1.out ++ [92, e], cols := st1.cols + 2 }
      let st3 : PSt := if !plain && e = 110 then { out := st2.out ++ breakText, cols := 5 } else st2
      printStrChars plain ll r st3
    | none => printStrChars plain ll r { out := st1.out ++ [c], cols := st1.cols + 1 }

/-- the byte loop of the blob printer: (state, wrt) -/
def printBlobBytes (ll : Int) : Bytes → PSt → Nat → PSt × Nat
  | [], st, wrt => (st, wrt)
  | b :: r, st, wrt =>
    let brk := st.cols ≥ ll - 6
    -- asnprintf(buffer-1, …, "\n    "): the trailing space becomes a newline
    let st1 : PSt := if brk then { out := st.out.dropLast ++ [10, 32, 32, 32, 32], cols := 4 } else st
    let wrt1 := if brk then wrt + 4 else wrt
    printBlobBytes ll r { out := st1.out ++ [48, 120] ++ fmtHex2 b.toNat ++ [32], cols := st1.cols + 5 } (wrt1 + 5)

/-- `linebreak_check_after_write`: `lastSep` is an index into `out` (−1: before the buffer);
    returns the state, `wrt` and `args_written_this_line` -/
def linebreakCheck (st : PSt) (wrt : Nat) (lastSep : Int) (inc : Nat) (awl : Nat) (ll : Int) :
    Res (PSt × Nat × Nat) :=
  let awl1 := awl + 1
  if st.cols > ll ∧ awl1 > 1 then
    if lastSep < 0 ∨ lastSep ≥ st.out.length then .error .oob
    else
      let i := lastSep.toNat
      let tail := st.out.drop (i + 1)
      -- memmove(last_sep+5, last_sep+1, 1+inc) moves everything behind the separator
      if tail.length > inc + 1 then .error .undef
      else .ok ({ out := st.out.take i ++ [10, 32, 32, 32, 32] ++ tail, cols := 4 + inc }, wrt + 4, 1)
  else .ok (st, wrt, awl1)

/-- `(*cols_used && isspace(*last_sep)) ? 1 : 0` with `last_sep = buffer - 1` (fix C10-07) -/
def initArgsWritten (st : PSt) : Res Nat :=
  if st.cols ≠ 0 then
    match st.out.getLast? with
    | none => .error .oob
    | some c => .ok (if isspace c then 1 else 0)
  else .ok 0

/-- `range_args_identical(lhs, rhs)` (fix C10-12) -/
def rangeArgsIdentical (l r : List Cell) : Res Bool := do
  if !(← eqSingle l r) then return false
  let size ← incsize l
  if size ≠ (← incsize r) then return false
  let ls := l.take size
  let rs := r.take size
  if ls.length ≠ size ∨ rs.length ≠ size then throw .oob
  return (ls.zip rs).all fun (a, b) =>
    a.type = b.type &&
    (match a, b with
     | .flt x, .flt y => x = y
     | .dbl x, .dbl y => x = y
     | _, _ => true)

/-- `range_step_overflows(lhs, delta)` (fix C10-11) -/
def rangeStepOverflows (lhs delta : Cell) : Bool :=
  match lhs, delta with
  | .int .c a, .int _ d => a + d < -2147483648 || a + d > 2147483647
  | .int .i a, .int _ d => a + d < -2147483648 || a + d > 2147483647
  | .huge a, .huge d => a + d < -9223372036854775808 || a + d > 9223372036854775807
  | _, _ => false

/-- `range_width_overflows(first, last)` (fix C10-15) -/
def rangeWidthOverflows (first last : Cell) : Bool :=
  match first, last with
  | .int .c a, .int _ b => b - a < -2147483648 || b - a > 2147483647
  | .int .i a, .int _ b => b - a < -2147483648 || b - a > 2147483647
  | .huge a, .huge b => b - a < -9223372036854775808 || b - a > 9223372036854775807
  | _, _ => false

/-- first loop of `rtosc_convert_to_range`: number of leading args of the type of the first -/
def countCommon : Nat → UInt8 → List Cell → Nat → Nat → Nat → Res Nat
  | 0, _, _, _, _, _ => .error .fuel
  | fuel + 1, ty, arg, size, i, n =>
    if i < size then do
      let c ← deref (arg.drop i)
      if c.type ≠ ty then pure n
      else countCommon fuel ty arg size (i + (← incsize (arg.drop i))) (n + 1)
    else pure n

/-- second loop of `rtosc_convert_to_range`: returns (skipped, num_common) -/
def extendRun : Nat → List Cell → Nat → Option Cell → Nat → Nat → Res (Nat × Nat)
  | 0, _, _, _, _, _ => .error .fuel
  | fuel + 1, arg, size, delta, skipped, numCommon => do
    let next := skipped + (← incsize (arg.drop skipped))
    match delta with
    | some d =>
      let cur ← deref (arg.drop skipped)
      if rangeStepOverflows cur d then pure (skipped, numCommon)          -- break
      else
        let added ← must (addAV cur d)
        if next ≥ size then pure (next, numCommon + 1)
        else if !(← eqSingle [added] (arg.drop next)) then pure (next, numCommon + 1)
        else if rangeWidthOverflows (← deref arg) (← deref (arg.drop next)) then pure (next, numCommon + 1)
        else extendRun fuel arg size delta next (numCommon + 1)
    | none =>
      if next ≥ size then pure (next, numCommon + 1)
      else if !(← rangeArgsIdentical arg (arg.drop next)) then pure (next, numCommon + 1)
      else extendRun fuel arg size delta next (numCommon + 1)

/-- `rtosc_convert_to_range(arg, size, arg_out, opt)`: `none` = 0 (nothing converted),
    `some (skipped, converted range block)` -/
def convertToRange (opt : POpt) (arg : List Cell) (size : Nat) : Res (Option (Nat × List Cell)) := do
  if size < rangeMin then return none
  let c0 ← deref arg
  if c0.type = ArgVal.tyRange ∨ !opt.compress then return none
  let numCommon ← countCommon (size + 1) c0.type arg size 0 0
  if numCommon < rangeMin then return none
  let inc0 ← incsize arg
  let delta : Option Cell ←
    if ← rangeArgsIdentical arg (arg.drop inc0) then pure none
    else if (lit "cihTF").contains c0.type then do
      let d ← must (subAV (← deref (arg.drop 1)) c0)
      pure (some d)
    else return none
  match delta with
  | some d => if rangeStepOverflows c0 d then return none
  | none => pure ()
  let (skipped, n) ← extendRun (size + 1) arg size delta inc0 1
  if n ≥ rangeMin then
    let hdr : Cell := .rep n (if delta.isSome then 1 else 0)
    let block := hdr :: (match delta with | some d => [d] | none => []) ++ arg.take inc0
    return some (skipped, block)
  else return none

/-- the type letter is one of "-asb" (`strchr("-asb", type)`; also true for NUL, which no cell has) -/
def breaksItself (c : Cell) : Bool := (lit "-asb").contains c.type

/-- the printer for one argument, as the loops below call it: cells, previous arg, state -/
abbrev ElemPrinter := List Cell → Option Cell → PSt → Res (PSt × Nat)

/-- the element loop of the array printer; `i` is the index into `arg` (1-based as in the code);
    returns the state after the last separator has been written, and `wrt`.
    The last argument bounds the number of iterations (`len + 1` always suffices). -/
def printArrayElems (pe : ElemPrinter) (opt : POpt) (arg : List Cell) (n : Nat) :
    Nat → PSt → Nat → Int → Nat → Nat → Res (PSt × Nat)
  | i, st, wrt, lastSep, awl, loopFuel =>
    if i ≤ n then
      match loopFuel with
      | 0 => .error .fuel
      | loopFuel' + 1 => do
        let cur := arg.drop i
        let conv ← convertToRange opt cur (n + 1 - i)
        let input : List Cell := match conv with | some (_, block) => block | none => cur
        let prev : Option Cell ← if i = 1 then pure none else (do let c ← deref (arg.drop (i - 1)); pure (some c))
        let (st1, tmp) ← pe input prev st
        let step ← match conv with
          | some (skipped, _) => pure skipped
          | none => nextArgOffset (cur.length + 1) cur
        let (st2, wrt2, awl2) ← linebreakCheck st1 (wrt + tmp) lastSep tmp awl opt.linelength
        let lastSep' : Int := st2.out.length
        let st3 : PSt := { out := st2.out ++ [32], cols := st2.cols + 1 }      -- COUNT_UP_WRITE(' ')
        printArrayElems pe opt arg n (i + step) st3 (wrt2 + 1) lastSep' awl2 loopFuel'
    else pure (st, wrt)

/-- the loop over all args of the range (`cnt` = `num - start` iterations) -/
def printRangeElems (pe : ElemPrinter) (opt : POpt) (arg : List Cell) (hd : Int) :
    Int → PSt → Nat → Int → Nat → Nat → Res (PSt × Nat)
  | _, st, wrt, _, _, 0 => .ok (st, wrt)
  | i, st, wrt, lastSep, awl, cnt + 1 => do
    let cur : List Cell ←
      if hd ≠ 0 then (do let c ← must (rangeArg arg i); pure [c]) else pure (arg.drop 1)
    let (st1, tmp) ← pe cur none st
    let (st2, wrt2, awl2) ← linebreakCheck st1 (wrt + tmp) lastSep tmp awl opt.linelength
    let lastSep' : Int := st2.out.length
    let st3 : PSt := { out := st2.out ++ [32], cols := st2.cols + 1 }
    printRangeElems pe opt arg hd (i + 1) st3 (wrt2 + 1) lastSep' awl2 cnt

/-- `rtosc_print_range(arg, buffer, bs, opt, cols_used, prev_arg)` -/
def printRange (pe : ElemPrinter) (opt : POpt) (arg : List Cell) (prev : Option Cell) (st : PSt) :
    Res (PSt × Nat) := do
  match ← deref arg with
  | .rep num hd =>
    -- prepare for the loop: (state, wrt, start)
    let (st1, wrt1, start) ←
      if opt.compress ∨ num = 0 then
        if hd ≠ 0 ∨ num = 0 then do
          let firstArg := arg.drop (if hd ≠ 0 then 2 else 1)
          let first ← deref firstArg
          let (sa, tmp) ← pe firstArg none st
          let (sb, wb) ←
            if hd ≠ 0 then do
              let one ← must (fromInt first 1)
              let mOne ← must (fromInt first (-1))
              let confusing ← match prev with
                | some p => if p.type = first.type then (do pure (!(← eqSingle firstArg [p]))) else pure false
                | none => pure false
              let unit ← (do if ← eqSingle (arg.drop 1) [one] then pure true else eqSingle (arg.drop 1) [mOne])
              if (unit && !confusing) || num = 0 then pure (sa, tmp)
              else do
                let sa1 : PSt := { out := sa.out ++ [32], cols := sa.cols + 1 }
                let second ← must (rangeArg arg 1)
                let (sa2, tmp2) ← pe [second] none sa1
                pure (sa2, tmp + 1 + tmp2)
            else pure (sa, tmp)
          let sc : PSt := { out := sb.out ++ lit " ... ", cols := sb.cols + 5 }
          pure (sc, wb + 5, num - (if num ≠ 0 then 1 else 0))
        else do
          let mult := fmtDec num ++ [120]
          let sa : PSt := { out := st.out ++ mult, cols := st.cols + mult.length }
          let (sb, tmp) ← pe (arg.drop 1) none sa
          pure (sb, mult.length + tmp, num)
      else pure (st, 0, 0)
    let lastSep : Int := (st1.out.length : Int) - 1
    let awl ← initArgsWritten st1
    let (st2, wrt2) ← printRangeElems pe opt arg hd start st1 wrt1 lastSep awl (num - start).toNat
    if start < num then
      -- remove the last separator
      pure ({ st2 with out := st2.out.dropLast }, wrt2 - 1)
    else pure (st2, wrt2)
  | _ => throw .undef

/-- `rtosc_print_arg_val(arg, buffer, bs, opt, cols_used, prev_arg_if_range)`: state and `wrt`.
    The first argument bounds the nesting depth (arrays in arrays, ranges of arrays). -/
def printArgVal : Nat → POpt → List Cell → Option Cell → PSt → Res (PSt × Nat)
  | 0, _, _, _, _ => .error .fuel
  | fuel + 1, opt, arg, prev, st => do
    let simple (txt : Bytes) : Res (PSt × Nat) :=
      pure ({ out := st.out ++ txt, cols := st.cols + txt.length }, txt.length)
    match ← deref arg with
    | .flag .T => simple (lit "true")
    | .flag .F => simple (lit "false")
    | .flag .N => simple (lit "nil")
    | .flag .I => simple (lit "inf")
    | .huge v => simple (fmtDec v ++ [104])
    | .time v =>
      if v = 1 then simple (lit "immediately")
      else do
        let tm := localtime (v / 4294967296 : Nat)
        let secfracs := v % 4294967296
        let date : Bytes :=
          if secfracs ≠ 0 ∨ tm.sec ≠ 0 then fmtDate tm ++ 32 :: fmtHM tm ++ 58 :: fmtS tm
          else if tm.hour ≠ 0 ∨ tm.min ≠ 0 then fmtDate tm ++ 32 :: fmtHM tm
          else fmtDate tm
        if secfracs ≠ 0 then
          if opt.prec > 9 then throw .undef       -- the format string buffer is too small
          let prec := if opt.prec < 1 then 1 else opt.prec          -- fix C10-08
          let flt ← secfracs2float secfracs
          let num := fmtF false prec (promote flt)
          -- snip part before separator
          let fracTxt0 := num.dropWhile (· ≠ 46)
          if fracTxt0.isEmpty then throw .undef    -- strchr returned NULL
          -- fix C10-17: a fraction that rounds up to "1.00" is printed as the largest fraction ".99"
          let fracTxt := if hd num ≠ 48 then 46 :: List.replicate (fracTxt0.length - 1) 57 else fracTxt0
          let wrt := date.length + num.length - (num.length - fracTxt.length)
          if opt.lossless then
            let hex := fmtA (promote flt) ++ lit "s)"
            let (hex', removed) ← removeTrailingZeroes hex
            let txt := date ++ fracTxt ++ lit " (...+" ++ hex'
            let wrt' := wrt + (6 + hex.length) - removed
            pure ({ out := st.out ++ txt, cols := st.cols + wrt' }, wrt')
          else
            pure ({ out := st.out ++ date ++ fracTxt, cols := st.cols + wrt }, wrt)
        else simple date
    | .int .r v =>
      let u := (v % 4294967296).toNat
      simple (35 :: fmtHex2 (u / 16777216 % 256) ++ fmtHex2 (u / 65536 % 256) ++ fmtHex2 (u / 256 % 256) ++ fmtHex2 (u % 256))
    | .flt b =>
      if opt.prec > 9 then throw .undef
      let num := fmtF true opt.prec (promote b.toNat)
      if opt.lossless then
        let hex := fmtA (promote b.toNat) ++ [41]
        let (hex', removed) ← removeTrailingZeroes hex
        let wrt := num.length + (2 + hex.length) - removed
        pure ({ out := st.out ++ num ++ lit " (" ++ hex', cols := st.cols + wrt }, wrt)
      else simple num
    | .dbl b =>
      if opt.prec > 9 then throw .undef
      let num := fmtF true opt.prec b.toNat ++ [100]
      if opt.lossless then simple (num ++ lit " (" ++ fmtA b.toNat ++ [41])
      else simple num
    | .int .c v =>
      -- as_escaped_char(int c, true): only values that are one of the listed characters match
      let esc : Option UInt8 := if 0 ≤ v ∧ v < 256 then asEscapedChar v.toNat.toUInt8 true else none
      match esc with
      | some e => simple [39, 92, e, 39]
      | none => simple [39, (v % 256).toNat.toUInt8, 39]
    | .int .i v => simple (fmtDec v)
    | .midi a b c d =>
      simple (lit "MIDI [0x" ++ fmtHex2 a.toNat ++ lit " 0x" ++ fmtHex2 b.toNat ++ lit " 0x" ++ fmtHex2 c.toNat ++
              lit " 0x" ++ fmtHex2 d.toNat ++ [93])
    | .str ty s? =>
      match s? with
      | none => throw .undef
      | some raw =>
        let s := raw.takeWhile (· ≠ 0)
        let plain := ty == .S && symbolPlain s
        let st0 : PSt := if plain then st else { out := st.out ++ [34], cols := st.cols + 1 }
        let st1 := printStrChars plain opt.linelength s st0
        let st2 : PSt :=
          if plain then st1
          else { out := st1.out ++ 34 :: (if ty == .S then [83] else []), cols := st1.cols + 1 }
        pure (st2, st2.out.length - st.out.length)
    | .blob data =>
      let head := lit "BLOB [" ++ fmtDec data.length ++ [32]
      let st0 : PSt := { out := st.out ++ head, cols := st.cols + head.length }
      let (st1, wrt) := printBlobBytes opt.linelength data st0 head.length
      -- buffer[-1] = ']'
      pure ({ st1 with out := st1.out.dropLast ++ [93] }, wrt)
    | .arr _ len =>
      if len < 0 then throw .undef
      let n := len.toNat
      let lastSep : Int := (st.out.length : Int) - 1
      let awl ← initArgsWritten st
      let st0 : PSt := { out := st.out ++ [91], cols := st.cols + 1 }        -- COUNT_UP_WRITE('[')
      if n ≠ 0 then
        let (st1, wrt) ← printArrayElems (printArgVal fuel opt) opt arg n 1 st0 1 lastSep awl (n + 1)
        pure ({ out := st1.out.dropLast ++ [93], cols := st1.cols + 1 }, wrt)
      else
        pure ({ out := st0.out ++ [93], cols := st0.cols + 1 + 1 }, 2)
    | .rep .. => printRange (printArgVal fuel opt) opt arg prev st

/-- the loop of `rtosc_print_arg_vals`; `i` cells of `args` (length n) are done -/
def printArgValsLoop : Nat → POpt → List Cell → Nat → Nat → PSt → Nat → Int → Nat → Res (PSt × Nat)
  | 0, _, _, _, _, _, _, _, _ => .error .fuel
  | fuel + 1, opt, args, n, i, st, wrt, lastSep, awl =>
    if i < n then do
      let cur := args.drop i
      let c ← deref cur
      let conv ← convertToRange opt cur (n - i)
      let input : List Cell := match conv with | some (_, block) => block | none => cur
      -- (i == 0) ? NULL : (args-1); the cell before `args` exists whenever i > 0
      let prev : Option Cell := if i = 0 then none else (args.drop (i - 1)).head?
      let (st1, tmp) ← printArgVal (cur.length + 3) opt input prev st
      let wrt1 := wrt + tmp
      -- these compute the newlines themselves
      let (st2, wrt2, awl2) ←
        if !breaksItself c then linebreakCheck st1 wrt1 lastSep tmp awl opt.linelength
        else pure (st1, wrt1, awl)
      let inc ← match conv with
        | some (skipped, _) => pure skipped
        | none => nextArgOffset (cur.length + 1) cur
      let i' := i + inc
      if i' < n then
        let lastSep' : Int := st2.out.length
        let st3 : PSt := { out := st2.out ++ [32], cols := st2.cols + 1 }
        printArgValsLoop fuel opt args n i' st3 (wrt2 + 1) lastSep' awl2
      else printArgValsLoop fuel opt args n i' st2 wrt2 lastSep awl2
    else pure (st, wrt)

/-- `rtosc_print_arg_vals(args, n, buffer, bs, opt, cols_used)` writing behind `st.out` -/
def printArgVals (opt : POpt) (args : List Cell) (st : PSt) : Res (PSt × Nat) :=
  printArgValsLoop (args.length + 1) opt args args.length 0 st 0 ((st.out.length : Int) - 1)
    (if st.cols ≠ 0 then 1 else 0)

/-- `rtosc_print_message(address, args, n, buffer, bs, opt, cols_used)` -/
def printMessage (opt : POpt) (address : Bytes) (args : List Cell) (cols0 : Int) : Res (PSt × Nat) := do
  let head := address ++ [32]
  let (st, wrt) ← printArgVals opt args { out := head, cols := cols0 + head.length }
  pure (st, head.length + wrt)

end Rtosc.Pretty
