/-
  C11 — specification: the sentences of the pretty format as doc/Guide.adoc, section
  "Pretty-printing Messages", describes them, as (value, spelling) choices.

  * `Tok`      one scalar value together with the way it is spelled (decimal / hex / octal,
               suffixes, exponent forms, exact value in parentheses, escapes, concatenated
               string parts, identifier or quoted symbol, keyword, colour, MIDI, blob);
  * `SVal`     a value of a sentence: a scalar, `nxA`, `b ... c`, an array (with an optional
               open end `...` behind its last element);
  * `Layout`   where the manual allows white space: white space / line breaks / `%` comments
               in front of, between and behind the values (`Gap`s; a comment may follow a value
               directly), and blanks at the places inside a value (`Blank`s, addressed by a path);
  * `render : Sentence → Layout → Bytes`   the text;
  * `denote : Sentence → Option (List Item)`   what it denotes, as C16's structured argument list
               (`ArgVal.Item`: values, arrays, `n x value`, `start / delta / count` ranges);
               `cells` is its memory layout (`ArgVal.flatList`), what the scanner has to write.
  `Sentence.wf` collects the side conditions the manual states (ranges of one numeric type, "a"
  and "b" different, an n with b + n d = c, elements of an array of one type, …).

  Nothing here refers to the code of src/cpp/pretty-format.c.  Number denotations use exact
  integer arithmetic and one rounding to nearest-even (`Libc.roundPos`); the step of a float
  range is one IEEE subtraction and its count the tolerance rule of the manual, evaluated with
  the operations of `C11Float.lean`.
  No Mathlib import.
-/
import RtoscModel.ArgVal.Expand
import RtoscModel.Pretty.C11Float
namespace Rtosc.Pretty.C11
open Rtosc Rtosc.Libc
open Rtosc.ArgVal (Cell IntTy StrTy FlagTy Item flatList)

/-! ### layout -/

inductive Ws where | sp | tab | nl | vt | ff | cr
deriving DecidableEq, Repr

def Ws.byte : Ws → UInt8
  | .sp => 32 | .tab => 9 | .nl => 10 | .vt => 11 | .ff => 12 | .cr => 13

/-- white space at a place inside a value -/
abbrev Blank := List Ws
def blankBytes (b : Blank) : Bytes := b.map Ws.byte
/-- white space at a place where at least one character is required -/
def blank1Bytes (b : Blank) : Bytes := if b.isEmpty then [32] else blankBytes b

/-- one insertion between two values -/
inductive Gap where
  | ws (w : Ws)
  | comment (body : Bytes)        -- '%', the body (without line breaks), the line break
deriving DecidableEq, Repr

/-- the characters of a comment body: everything but the line break and NUL -/
def commentBody (b : Bytes) : Bytes := b.filter (fun c => c ≠ 10 && c ≠ 0)

def Gap.bytes : Gap → Bytes
  | .ws w => [w.byte]
  | .comment b => 37 :: commentBody b ++ [10]

def gapsBytes (g : List Gap) : Bytes := (g.map Gap.bytes).flatten

/-- between two values: the insertions; one blank when there is none.  A comment may follow a
    value directly (upstream's own test "comment right after true": `true%false`); the line
    break that ends it separates the values. -/
def sepBytes (g : List Gap) : Bytes :=
  match g with
  | [] => [32]
  | g => gapsBytes g

/-- behind the last value: insertions; the text may end inside a comment -/
def trailBytes (g : List Gap) (last : Option Bytes) : Bytes :=
  match last with
  | none => gapsBytes g
  | some b => gapsBytes g ++ 37 :: commentBody b

/-- the insertions start with a white-space character -/
def startsWs : List Gap → Bool
  | .ws _ :: _ => true
  | _ => false

/-- the insertions start with a comment (which then follows the value directly) -/
def startsComment : List Gap → Bool
  | .comment _ :: _ => true
  | _ => false

structure Layout where
  lead : List Gap                  -- in front of the first value
  sep : Nat → List Gap             -- behind value i (i + 1 exists)
  trail : List Gap                 -- behind the last value
  last : Option Bytes              -- a comment without line break at the very end
  blank : List Nat → Blank         -- inside values, by path

/-- no comment follows a value directly: every comment behind a value is preceded by white space
    (the layouts for which the theorems of `Props/C11.lean` are proved) -/
def Layout.spaced (L : Layout) : Prop :=
  (∀ i, L.sep i = [] ∨ startsWs (L.sep i) = true) ∧
  ((L.trail = [] ∧ L.last = none) ∨ startsWs L.trail = true)

/-! ### scalar values and their spellings -/

inductive IntBase where
  | dec      -- 42
  | hex      -- 0x2a, sign in front
  | hexUp    -- 0x2A
  | oct      -- 052
  | hex2c    -- two's complement in 32 bit: 0xffffffd6 for -42
deriving DecidableEq, Repr

def octDigitsFuel : Nat → Nat → Bytes → Bytes
  | 0, _, acc => acc
  | fuel + 1, n, acc => if n = 0 then acc else octDigitsFuel fuel (n / 8) (digitChar (n % 8) :: acc)
def fmtOct (n : Nat) : Bytes := if n = 0 then [48] else octDigitsFuel n n []

def magText : IntBase → Nat → Bytes
  | .dec, m => fmtNat m
  | .hex, m => 48 :: 120 :: fmtHex m
  | .hexUp, m => 48 :: 120 :: (fmtHex m).map toupper
  | .oct, m => 48 :: fmtOct m
  | .hex2c, m => 48 :: 120 :: fmtHex m

def intText (base : IntBase) (v : Int) : Bytes :=
  match base with
  | .hex2c => magText .hex2c (v % 4294967296).toNat
  | b => (if v < 0 then [45] else []) ++ magText b v.natAbs

/-- digits, most significant first; every entry is taken modulo the base -/
abbrev Digs := List Nat
def digsVal (base : Nat) (ds : Digs) : Nat := ds.foldl (fun v d => v * base + d % base) 0
def decDigs (ds : Digs) : Bytes := ds.map (fun d => digitChar (d % 10))
def hexDigs (ds : Digs) : Bytes := ds.map (fun d => hexDigitChar (d % 16))

/-- a decimal floating literal: `ip [. fp] [e ex]` -/
structure DecLit where
  neg : Bool
  ip : Digs
  fp : Option Digs
  ex : Option Int
  exPlus : Bool          -- write `e+5` for a non-negative exponent
  exUpper : Bool         -- `E`
deriving DecidableEq, Repr

/-- a hexadecimal floating literal: `0x ip [. fp] p ex` -/
structure HexLit where
  neg : Bool
  ip : Digs
  fp : Option Digs
  ex : Int
deriving DecidableEq, Repr

def expText (marker : UInt8) (x : Int) (plus : Bool) : Bytes :=
  marker :: (if x < 0 then 45 :: fmtNat x.natAbs else (if plus then [43] else []) ++ fmtNat x.natAbs)

def DecLit.text (l : DecLit) : Bytes :=
  (if l.neg then [45] else []) ++ decDigs l.ip ++
  (match l.fp with | some f => 46 :: decDigs f | none => []) ++
  (match l.ex with | some x => expText (if l.exUpper then 69 else 101) x l.exPlus | none => [])

def HexLit.text (l : HexLit) : Bytes :=
  (if l.neg then [45] else []) ++ [48, 120] ++ hexDigs l.ip ++
  (match l.fp with | some f => 46 :: hexDigs f | none => []) ++ expText 112 l.ex true

/-- the magnitude bits of `m · base^x` in format `F` (one rounding, ties to even) -/
def scaledBits (F : Libc.FFmt) (base m : Nat) (x : Int) : Nat :=
  if x ≥ 0 then roundPos F (m * base ^ x.toNat) 1 else roundPos F m (base ^ (-x).toNat)

def DecLit.bits (F : Libc.FFmt) (l : DecLit) : Nat :=
  let fp := l.fp.getD []
  (if l.neg then F.signBit else 0) + scaledBits F 10 (digsVal 10 (l.ip ++ fp)) (l.ex.getD 0 - fp.length)

def HexLit.bits (F : Libc.FFmt) (l : HexLit) : Nat :=
  let fp := l.fp.getD []
  (if l.neg then F.signBit else 0) + scaledBits F 2 (digsVal 16 (l.ip ++ fp)) (l.ex - 4 * fp.length)

inductive FLit where
  | dec (l : DecLit)
  | hex (l : HexLit)
deriving DecidableEq, Repr

def FLit.text : FLit → Bytes | .dec l => l.text | .hex l => l.text
def FLit.bits (F : Libc.FFmt) : FLit → Nat | .dec l => l.bits F | .hex l => l.bits F
/-- without a type suffix the literal must not look like an integer -/
def FLit.floatish : FLit → Bool
  | .dec l => l.fp.isSome || l.ex.isSome
  | .hex _ => true

/-- one character of a string part -/
inductive StrCh where
  | raw (c : UInt8)      -- printable, neither `"` nor `\`
  | esc (c : UInt8)      -- written as an escape sequence
deriving DecidableEq, Repr

def StrCh.value : StrCh → UInt8 | .raw c => c | .esc c => c
def StrCh.text : StrCh → Bytes
  | .raw c => [c]
  | .esc c => [92, (asEscapedChar c false).getD 63]
def StrCh.ok : StrCh → Bool
  | .raw c => 32 ≤ c && c ≤ 126 && c ≠ 34 && c ≠ 92
  | .esc c => (asEscapedChar c false).isSome

inductive Kw where | true_ | false_ | nil | inf | now | immediately
deriving DecidableEq, Repr

def Kw.text : Kw → Bytes
  | .true_ => lit "true" | .false_ => lit "false" | .nil => lit "nil" | .inf => lit "inf"
  | .now => lit "now" | .immediately => lit "immediately"
def Kw.cell : Kw → Cell
  | .true_ => .flag .T | .false_ => .flag .F | .nil => .flag .N | .inf => .flag .I
  | .now => .time 1 | .immediately => .time 1

/-- a scalar value with its spelling -/
inductive Tok where
  | int (v : Int) (base : IntBase) (sfx : Bool)                       -- 42  0x2a  052  42i
  | huge (v : Int) (base : IntBase)                                   -- 42h
  | flt (dbl : Bool) (sfx : Bool) (l : FLit) (exact : Option HexLit)  -- 1.  1e10  10f  10d  0.5 (0x1p-1)
  | chr (c : UInt8) (esc : Bool)                                      -- 'x'  '\n'
  | str (sym : Bool) (parts : List (List StrCh))                      -- "a" \ "b"   "a"S
  | ident (name : Bytes)                                              -- An_Identifier
  | kw (k : Kw)
  | color (v : Nat) (upper : Bool)                                    -- #8badf00d
  | midi (a b c d : UInt8) (pad : Bool)                               -- MIDI [0xff 0x0 0x00 0xff]
  | blob (data : Bytes)                                               -- BLOB [2 0x01 0x02]
deriving DecidableEq, Repr

/-- the eight hexadecimal digits of a 32-bit value -/
def hexDigits8 (v : Nat) : Bytes :=
  [hexDigitChar (v / 268435456 % 16), hexDigitChar (v / 16777216 % 16), hexDigitChar (v / 1048576 % 16),
   hexDigitChar (v / 65536 % 16), hexDigitChar (v / 4096 % 16), hexDigitChar (v / 256 % 16),
   hexDigitChar (v / 16 % 16), hexDigitChar (v % 16)]

def reserved : List Bytes :=
  [lit "true", lit "false", lit "nil", lit "inf", lit "immediately", lit "now", lit "MIDI", lit "BLOB"]

def partText (p : List StrCh) : Bytes := 34 :: (p.map StrCh.text).flatten ++ [34]

/-- string parts joined by `\`, white space; `k` numbers the joints -/
def partsText (bl : List Nat → Blank) : Nat → List (List StrCh) → Bytes
  | _, [] => []
  | _, [p] => partText p
  | k, p :: q :: r => partText p ++ 92 :: blankBytes (bl [k]) ++ partsText bl (k + 1) (q :: r)

def hexByteText (pad : Bool) (b : UInt8) : Bytes :=
  48 :: 120 :: (if pad then fmtHex2 b.toNat else fmtHex b.toNat)

def blobBytesText (bl : List Nat → Blank) : Nat → Bytes → Bytes
  | _, [] => []
  | k, b :: r => blank1Bytes (bl [k]) ++ hexByteText true b ++ blobBytesText bl (k + 1) r

def Tok.text (bl : List Nat → Blank) : Tok → Bytes
  | .int v base sfx => intText base v ++ (if sfx then [105] else [])
  | .huge v base => intText base v ++ [104]
  | .flt dbl sfx l exact =>
    l.text ++ (if sfx then [if dbl then 100 else 102] else []) ++
    (match exact with
     | some e => blank1Bytes (bl [0]) ++ 40 :: blankBytes (bl [1]) ++ e.text ++ blankBytes (bl [2]) ++ [41]
     | none => [])
  | .chr c esc => if esc then [39, 92, (asEscapedChar c true).getD 63, 39] else [39, c, 39]
  | .str sym parts => partsText bl 0 parts ++ (if sym then [83] else [])
  | .ident name => name
  | .kw k => k.text
  | .color v upper =>
    35 :: (let h := hexDigits8 v; if upper then h.map toupper else h)
  | .midi a b c d pad =>
    lit "MIDI" ++ blankBytes (bl [0]) ++ 91 :: blankBytes (bl [1]) ++ hexByteText pad a ++ blank1Bytes (bl [2]) ++
      hexByteText pad b ++ blank1Bytes (bl [3]) ++ hexByteText pad c ++ blank1Bytes (bl [4]) ++ hexByteText pad d ++
      blankBytes (bl [5]) ++ [93]
  | .blob data =>
    lit "BLOB" ++ blankBytes (bl [0]) ++ 91 :: blankBytes (bl [1]) ++ fmtNat data.length ++
      blobBytesText bl 3 data ++ blankBytes (bl [2]) ++ [93]

/-- the value a scalar spelling denotes -/
def Tok.cell : Tok → Cell
  | .int v _ _ => .int .i v
  | .huge v _ => .huge v
  | .flt dbl _ l exact =>
    if dbl then .dbl ((match exact with | some e => e.bits f64 | none => l.bits f64)).toUInt64
    else .flt ((match exact with | some e => e.bits f32 | none => l.bits f32)).toUInt32
  | .chr c _ => .int .c (c.toNat : Int)
  | .str sym parts => .str (if sym then .S else .s) (some ((parts.flatten).map StrCh.value))
  | .ident name => .str .S (some name)
  | .kw k => k.cell
  | .color v _ => .int .r (toI32 v)
  | .midi a b c d _ => .midi a b c d
  | .blob data => .blob data

def digsOK (ds : Digs) : Bool := !ds.isEmpty

/-- the side conditions on a scalar spelling -/
def Tok.wf : Tok → Bool
  | .int v _ _ => decide (-2147483648 ≤ v) && decide (v ≤ 2147483647)
  | .huge v base => decide (-9223372036854775808 ≤ v) && decide (v ≤ 9223372036854775807) && base ≠ .hex2c
  | .flt dbl sfx l exact =>
    (!dbl || sfx) && (sfx || l.floatish) &&
    (match l with
     | .dec d => digsOK d.ip
     | .hex h => digsOK h.ip) &&
    (match exact with | some e => digsOK e.ip | none => true) &&
    -- a value (finite)
    (if dbl then decide ((match exact with | some e => e.bits f64 | none => l.bits f64) % f64.signBit < f64.infBits)
     else decide ((match exact with | some e => e.bits f32 | none => l.bits f32) % f32.signBit < f32.infBits))
  | .chr c esc => if esc then (asEscapedChar c true).isSome else (32 ≤ c && c ≤ 126 && c ≠ 39 && c ≠ 92)
  | .str _ parts => !parts.isEmpty && parts.all (fun p => p.all StrCh.ok)
  | .ident name => isIdentStart (hd name) && name.all isIdentChar && !reserved.contains name
  | .kw _ => true
  | .color v _ => decide (v < 4294967296)
  | .midi .. => true
  | .blob data => decide (data.length ≤ 2147483647)

/-! ### values of a sentence -/

inductive SVal where
  | val (t : Tok)
  | rep (n : Nat) (x : SVal)          -- nxA: A is a scalar or an array
  | range (b c : Tok)                 -- b ... c; "a" is the value to its left
  | arr (es : List SVal) (opn : Bool) -- [ … ], `opn`: "..." behind the last element

abbrev Sentence := List SVal

def sub (bl : List Nat → Blank) (k : Nat) : List Nat → Blank := fun p => bl (k :: p)

mutual
/-- the text of one value; `bl` supplies the blanks inside it -/
def SVal.text (bl : List Nat → Blank) : SVal → Bytes
  | .val t => t.text bl
  | .rep n x => fmtNat n ++ 120 :: x.text (sub bl 0)
  | .range b c => b.text (sub bl 0) ++ blankBytes (bl [1]) ++ [46, 46, 46] ++ blankBytes (bl [2]) ++ c.text (sub bl 3)
  | .arr es opn =>
    91 :: blankBytes (bl [0]) ++ elemsText bl 1 es ++
      (if opn then blankBytes (bl [2]) ++ [46, 46, 46] else []) ++ blankBytes (bl [4]) ++ [93]
/-- the elements of an array, separated by white space; element `k` uses the paths `2k+5 :: _`
    and is preceded by the blank `[2k+6]` (first element: `k = 1`) -/
def elemsText (bl : List Nat → Blank) : Nat → List SVal → Bytes
  | _, [] => []
  | k, [x] => x.text (sub bl (2 * k + 5))
  | k, x :: y :: r => x.text (sub bl (2 * k + 5)) ++ blank1Bytes (bl [2 * k + 6]) ++ elemsText bl (k + 1) (y :: r)
end

/-- the type letter of a value: of a scalar its type, of `nxA` the type of `A`, of a range the
    type of its values, of an array 'a' -/
def SVal.ty : SVal → UInt8
  | .val t => t.cell.type
  | .rep _ x => x.ty
  | .range b _ => b.cell.type
  | .arr _ _ => Rtosc.ArgVal.tyA

/-- "elements of the same type" ('T' and 'F' count as one type) -/
def sameTy (a b : UInt8) : Bool := a == b || (a == 84 && b == 70) || (a == 70 && b == 84)

/-- all elements have the type of the first one -/
def sameTys : List SVal → Bool
  | [] => true
  | x :: r => r.all (fun e => sameTy x.ty e.ty)

mutual
/-- the side conditions on the spellings inside a value (`n` of `nxA` is positive, the elements
    of an array are of one type) -/
def SVal.wf : SVal → Bool
  | .val t => t.wf
  | .rep n x => decide (1 ≤ n) && x.wf
  | .range b c => b.wf && c.wf
  | .arr es _ => wfList es && sameTys es
def wfList : List SVal → Bool
  | [] => true
  | x :: r => x.wf && wfList r
end

/-- an unsuffixed octal spelling whose decimal reading is a different number: the trigger of
    known finding C11-K1 (`scanf_fmtstr` tries "%*d%n" first: "077" is read as 77) -/
def Tok.octalPlain : Tok → Bool
  | .int v .oct false => decide (8 ≤ v.natAbs)
  | _ => false

mutual
def SVal.hasOctalPlain : SVal → Bool
  | .val t => t.octalPlain
  | .rep _ x => x.hasOctalPlain
  | .range b c => b.octalPlain || c.octalPlain
  | .arr es _ => hasOctalPlainList es
def hasOctalPlainList : List SVal → Bool
  | [] => false
  | x :: r => x.hasOctalPlain || hasOctalPlainList r
end

/-- **trigger predicate of C11-K1** -/
def hasOctalPlain (s : List SVal) : Bool := hasOctalPlainList s

/-- the spelling ends in a numeric word (`scanf_fmtstr` computes its end) -/
def Tok.numWord : Tok → Bool
  | .int .. => true
  | .huge .. => true
  | .flt _ _ _ none => true
  | _ => false

/-- the text of the value ends in a numeric word -/
def SVal.endsNum : SVal → Bool
  | .val t => t.numWord
  | .rep _ x => x.endsNum
  | .range _ c => c.numWord
  | .arr _ _ => false

/-- a value (numbered from `i`) that ends in a numeric word is directly followed by a comment -/
def numPercentFrom (L : Layout) : Nat → List SVal → Bool
  | _, [] => false
  | _, [x] => x.endsNum && (startsComment L.trail || (L.trail.isEmpty && L.last.isSome))
  | i, x :: y :: r => (x.endsNum && startsComment (L.sep i)) || numPercentFrom L (i + 1) (y :: r)

/-- a numeric literal directly followed by '%' (`42%c`).  Formerly the trigger predicate of the
    finding C11-K2: `scanf_fmtstr` ended the numeric word at white space, ')' , ']' and "..." but not
    at the comment sign, so no format matched the word and the text was rejected, although `true%c`,
    `"s"%c`, `'a'%c`, `[1]%c`, `abc%c`, `#12345678%c` were accepted.  Repaired by fix C11-08 (the word
    ends at '%' too, `numWordLen`); the predicate only serves to show that such layouts are covered
    (`num_comment_reads`, `exTightNum` in Props/C11.lean). -/
def hasNumPercent (s : List SVal) (L : Layout) : Bool := numPercentFrom L 0 s

/-- the values with the separators between them -/
def valuesText (L : Layout) : Nat → List SVal → Bytes
  | _, [] => []
  | i, [x] => x.text (sub L.blank i)
  | i, x :: y :: r => x.text (sub L.blank i) ++ sepBytes (L.sep i) ++ valuesText L (i + 1) (y :: r)

/-- **the text of a sentence under a layout** -/
def render (s : Sentence) (L : Layout) : Bytes :=
  gapsBytes L.lead ++ valuesText L 0 s ++ trailBytes L.trail L.last

/-! ### denotation -/

def isNumTy (c : Cell) : Bool :=
  match c with
  | .int .c _ => true | .int .i _ => true | .huge _ => true | .flt _ => true | .dbl _ => true
  | _ => false

/-- numeric equality of two cells of one numeric type -/
def numEq (a b : Cell) : Bool := Rtosc.ArgVal.cmpScalar a b == 0

/-- `b - a` in the arithmetic of the type, for integer types only when it stays inside the type -/
def stepOf (b a : Cell) : Option Cell :=
  match b, a with
  | .int .i x, .int .i y => if -2147483648 ≤ x - y ∧ x - y ≤ 2147483647 then some (.int .i (x - y)) else none
  | .int .c x, .int .c y => if -2147483648 ≤ x - y ∧ x - y ≤ 2147483647 then some (.int .c (x - y)) else none
  | .huge x, .huge y =>
    if -9223372036854775808 ≤ x - y ∧ x - y ≤ 9223372036854775807 then some (.huge (x - y)) else none
  | .flt x, .flt y => match fsub AF32 x.toNat y.toNat with | .ok r => some (.flt r.toUInt32) | _ => none
  | .dbl x, .dbl y => match fsub AF64 x.toNat y.toNat with | .ok r => some (.dbl r.toUInt64) | _ => none
  | _, _ => none

/-- `sgn(c - b)` as a value of the type -/
def unitStep (b c : Cell) : Option Cell :=
  let up : Bool := decide (Rtosc.ArgVal.cmpScalar c b > 0)
  match b with
  | .int .i _ => some (.int .i (if up then 1 else -1))
  | .int .c _ => some (.int .c (if up then 1 else -1))
  | .huge _ => some (.huge (if up then 1 else -1))
  | .flt _ => some (.flt (AF32.ofInt (if up then 1 else -1)).toUInt32)
  | .dbl _ => some (.dbl (AF64.ofInt (if up then 1 else -1)).toUInt64)
  | _ => none

/-- the natural n ≥ 1 with `b + n d = c` (floats: the nearest n, if `|b + n d - c| <= 0.001`) -/
def stepsOf (b c d : Cell) : Option Nat :=
  match b, c, d with
  | .int .i x, .int .i y, .int .i s =>
    if s ≠ 0 ∧ (y - x) % s = 0 ∧ 1 ≤ (y - x) / s ∧ (y - x) / s < 2147483647 then some ((y - x) / s).toNat else none
  | .int .c x, .int .c y, .int .c s =>
    if s ≠ 0 ∧ (y - x) % s = 0 ∧ 1 ≤ (y - x) / s ∧ (y - x) / s < 2147483647 then some ((y - x) / s).toNat else none
  | .huge x, .huge y, .huge s =>
    if s ≠ 0 ∧ (y - x) % s = 0 ∧ 1 ≤ (y - x) / s ∧ (y - x) / s < 2147483647 then some ((y - x) / s).toNat else none
  | .flt x, .flt y, .flt s =>
    match (do let w ← fsub AF32 y.toNat x.toNat
              let q ← fdiv AF32 w s.toNat
              let q1 ← liftF (AF32.add q (cHalf AF32))
              let n ← ftoInt AF32 q1
              let w2 ← liftF (AF32.mul (AF32.ofInt n) s.toNat)
              let ok ← feqTol AF32 w w2
              pure (n, ok) : Res (Int × Bool)) with
    | .ok (n, true) => if 1 ≤ n then some n.toNat else none
    | _ => none
  | .dbl x, .dbl y, .dbl s =>
    match (do let w ← fsub AF64 y.toNat x.toNat
              let q ← fdiv AF64 w s.toNat
              let q1 ← liftF (AF64.add q (cHalf AF64))
              let n ← ftoInt AF64 q1
              let w2 ← liftF (AF64.mul (AF64.ofInt n) s.toNat)
              let ok ← feqTol AF64 w w2
              pure (n, ok) : Res (Int × Bool)) with
    | .ok (n, true) => if 1 ≤ n then some n.toNat else none
    | _ => none
  | _, _, _ => none

/-- the step of a range whose left-hand side is `b`, given the value `a` to its left (if any) and
    its end `c` (if it has one): `b - a` when `a` has the type of `b` and differs from it,
    else `sgn(c - b)`; `none` in the second component: the range repeats `b` (open end only) -/
def rangeStep (prev : Option Cell) (b : Cell) (c : Option Cell) : Option (Option Cell) :=
  let usable : Bool := match prev with
    | some a => decide (a.type = b.type) && isNumTy b && !numEq a b
    | none => false
  if usable then
    match prev with
    | some a => (stepOf b a).map some
    | none => none
  else
    match c with
    | some c => (unitStep b c).map some
    | none => some none

/-- the last value of a finite integer range (the left neighbour of what follows it) -/
def rangeLast (n : Nat) (d s : Cell) : Option Cell :=
  match d, s with
  | .int .i x, .int .i y => some (.int .i (y + ((n - 1 : Nat) : Int) * x))
  | .int .c x, .int .c y => some (.int .c (y + ((n - 1 : Nat) : Int) * x))
  | .huge x, .huge y => some (.huge (y + ((n - 1 : Nat) : Int) * x))
  | _, _ => none

/-- the element type an array cell records: the type of its last element -/
def itemType : Item → UInt8
  | .val c => c.type
  | .arr .. => Rtosc.ArgVal.tyA
  | .rep _ (.val c) => c.type
  | .rep _ _ => Rtosc.ArgVal.tyA
  | .range _ _ s => s.type

/-- The manual calls the last value of `a b ... c` "c"; the code keeps (start, step, count) and
    computes it.  For 'f' / 'd' the two differ within the tolerance, so the manual does not say
    which one is the left neighbour "a" of a range of the same type that follows directly: such a
    text denotes nothing here.  (`b`: left-hand side of the float range, `r`: what follows it) -/
def floatRangeBlocks (opn : Bool) (b : Cell) (r : List SVal) : Bool :=
  (match b with | .flt _ => true | .dbl _ => true | _ => false) &&
  (match r with
   | .range b' _ :: _ => b'.cell.type == b.type
   | [.val t] => opn && t.cell.type == b.type
   | _ => false)

/-- the element type of an array with these elements: the type of the last one, `' '` for none -/
def lastItemTy (its : List Item) : UInt8 :=
  match its.getLast? with
  | some x => itemType x
  | none => 32

mutual
/-- one value that is not a range: the item and the left neighbour it provides -/
def SVal.denote1 : SVal → Option (Item × Option Cell)
  | .val t => some (.val t.cell, some t.cell)
  | .rep n (.val t) => if 1 ≤ n ∧ n ≤ 2147483647 then some (.rep n (.val t.cell), some t.cell) else none
  | .rep n (.arr es opn) =>
    if 1 ≤ n ∧ n ≤ 2147483647 then
      match denoteElems opn none es with
      | some its => some (.rep n (.arr (lastItemTy its) its), none)
      | none => none
    else none
  | .rep _ _ => none                                  -- no ranges of ranges
  | .range _ _ => none                                -- handled by `denoteElems`
  | .arr es opn =>
    match denoteElems opn none es with
    | some its => some (.arr (lastItemTy its) its, none)
    | none => none
/-- the values of a sentence / the elements of an array, left to right; `prev`: the value to
    the left; `opn`: "..." follows the last one -/
def denoteElems (opn : Bool) (prev : Option Cell) : List SVal → Option (List Item)
  | [] => if opn then none else some []
  | x :: r =>
    match x with
    | .range b c =>
      if r.isEmpty ∧ opn then none
      else if floatRangeBlocks opn b.cell r then none
      else if isNumTy b.cell ∧ b.cell.type = c.cell.type ∧ !numEq b.cell c.cell then
        match rangeStep prev b.cell (some c.cell) with
        | some (some d) =>
          match stepsOf b.cell c.cell d with
          | some n =>
            match denoteElems opn (rangeLast (n + 1) d b.cell) r with
            | some its => some (.range (n + 1) d b.cell :: its)
            | none => none
          | none => none
        | _ => none
      else none
    | _ =>
      match SVal.denote1 x with
      | none => none
      | some (it, p) =>
        if r.isEmpty ∧ opn then
          -- x ... ] : counts from x with the step x - a, or repeats x
          match x with
          | .val t =>
            match rangeStep prev t.cell none with
            | some (some d) => some [.range 0 d t.cell]
            | some none => some [.rep 0 it]
            | none => none
          | .arr .. => some [.rep 0 it]
          | _ => none
        else
          match denoteElems opn p r with
          | some its => some (it :: its)
          | none => none
end

/-- the side conditions on all spellings of a sentence -/
def Sentence.wf (s : Sentence) : Bool := wfList s

/-- **what a sentence denotes** (structured) -/
def denote (s : Sentence) : Option (List Item) := denoteElems false none s

/-- **the cells the scanner has to write for a sentence** -/
def cells (s : Sentence) : Option (List Cell) := (denote s).map flatList

end Rtosc.Pretty.C11
