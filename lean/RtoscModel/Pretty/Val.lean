/-
  C10 — argument-value cells as the pretty printer / scanner use them.

  The cell type is C16's `Rtosc.ArgVal.Cell` (one `rtosc_arg_val_t`); a pointer into a cell
  array is the suffix it points to.  This file adds what src/cpp/pretty-format.c needs on top:
  `next_arg_offset`, `incsize`, and the integer/boolean part of src/cpp/arg-val-math.c
  (`null`, `from_int`, `negate`, `round`, `add`, `sub`, `mult`, `div`, `to_int`, `range_arg`)
  with the arithmetic of fix C10-10: `int32_t`/`int64_t` add, sub and mult wrap around.

  Float/double range arithmetic is not modelled (`Err.unmodelled`): the printer never turns
  floats into ranges with a delta (`numeric_range_convertible_types` = "cihTF"), so printed
  text never makes checker or scanner do float arithmetic.
  No Mathlib import: linked into the driver.
-/
import RtoscModel.ArgVal.Cmp
import RtoscModel.Pretty.Lex
namespace Rtosc.Pretty
open Rtosc Rtosc.Libc
open Rtosc.ArgVal (Cell IntTy StrTy FlagTy)

/-- lift a result of the arg-val comparison model -/
def liftAV {α} (r : ArgVal.Res α) : Res α :=
  match r with
  | .ok a => .ok a
  | .error .oob => .error .oob
  | .error .undef => .error .undef
  | .error .fuel => .error .fuel
  | .error _ => .error .argval

/-- `*p` -/
def deref (p : List Cell) : Res Cell :=
  match p with
  | [] => .error .oob
  | c :: _ => .ok c

/-- `incsize(av)`: an array counts with its elements -/
def incsize (p : List Cell) : Res Nat := do
  match ← deref p with
  | .arr _ len => if len < 0 then .error .undef else pure (len.toNat + 1)
  | _ => pure 1

/-- `next_arg_offset(cur)`: arrays seen as one arg, ranges with their delta and start args -/
def nextArgOffset : Nat → List Cell → Res Nat
  | 0, _ => .error .fuel
  | fuel + 1, p => do
    match ← deref p with
    | .arr _ len => if len < 0 then .error .undef else pure (len.toNat + 1)
    | .rep _ hd => do
      let n ← nextArgOffset fuel (p.drop 1)
      pure (1 + n + hd.toNat)
    | _ => pure 1

/-- `rtosc_arg_vals_eq_single(lhs, rhs, NULL)` on cell pointers -/
def eqSingle (l r : List Cell) : Res Bool := liftAV (ArgVal.eqSingle (l.length + r.length + 2) l r)

/-- `rtosc_arg_vals_eq_single` on two single non-array cells -/
def eqCell (l r : Cell) : Res Bool := liftAV (ArgVal.eqScalar l r)

/-- `rtosc_arg_vals_cmp(lhs, rhs, 1, 1, NULL)` and `rtosc_arg_vals_cmp_single` on two single
    scalar cells (both iterate exactly once); a range or array cell here would make the C code
    read the cells behind the local variable (`Err.undef`) -/
def cmpCell (l r : Cell) : Res Int :=
  if l.isScalar && r.isScalar then .ok (ArgVal.cmpScalar l r) else .error .undef

/-! ### arg-val-math.c (integers wrap: fix C10-10) -/

def isFloatCell : Cell → Bool
  | .flt _ => true
  | .dbl _ => true
  | _ => false

/-- `rtosc_arg_val_null(av, type)` for the type of `like`; `none` = returns false -/
def nullVal (like : Cell) : Option Cell :=
  match like with
  | .huge _ => some (.huge 0)
  | .time _ => some (.time 0)
  | .str ty _ => some (.str ty none)
  | .dbl _ => some (.dbl 0)
  | .flt _ => some (.flt 0)
  | .int ty _ => some (.int ty 0)
  | .flag .T => some (.flag .F)
  | .flag .F => some (.flag .F)
  | _ => none

/-- `rtosc_arg_val_from_int(av, type, number)` for integer and boolean types -/
def fromInt (like : Cell) (number : Int) : Res (Option Cell) :=
  match like with
  | .huge _ => .ok (some (.huge number))
  | .int .c _ => .ok (some (.int .c number))
  | .int .i _ => .ok (some (.int .i number))
  | .flag .T => .ok (some (.flag (if number ≠ 0 then .T else .F)))
  | .flag .F => .ok (some (.flag (if number ≠ 0 then .T else .F)))
  | .flt _ => .error .unmodelled
  | .dbl _ => .error .unmodelled
  | _ => .ok none

/-- `rtosc_arg_val_negate(av)` (`-INT_MIN` is undefined in C: `Err.undef`) -/
def negate (c : Cell) : Res (Option Cell) :=
  match c with
  | .huge v => if v = -9223372036854775808 then .error .undef else .ok (some (.huge (-v)))
  | .int .c v => if v = -2147483648 then .error .undef else .ok (some (.int .c (-v)))
  | .int .i v => if v = -2147483648 then .error .undef else .ok (some (.int .i (-v)))
  | .flag .T => .ok (some (.flag .F))
  | .flag .F => .ok (some (.flag .T))
  | .flt _ => .error .unmodelled
  | .dbl _ => .error .unmodelled
  | _ => .ok none

/-- `rtosc_arg_val_round(av)`: integers and booleans are left alone -/
def roundAV (c : Cell) : Res (Option Cell) :=
  match c with
  | .huge _ => .ok (some c)
  | .int .c _ => .ok (some c)
  | .int .i _ => .ok (some c)
  | .flag .T => .ok (some c)
  | .flag .F => .ok (some c)
  | .flt _ => .error .unmodelled
  | .dbl _ => .error .unmodelled
  | _ => .ok none

/-- `rtosc_arg_val_add(lhs, rhs, res)`; inner `none` = returns false (result indeterminate) -/
def addAV (l r : Cell) : Res (Option Cell) :=
  if l.type ≠ r.type then
    match l, r with
    | .flag .F, .flag .T => .ok (some (.flag .T))
    | .flag .T, .flag .F => .ok (some (.flag .T))
    | _, _ => .ok none
  else
    match l, r with
    | .huge a, .huge b => .ok (some (.huge (toI64 (a + b))))
    | .int .c a, .int .c b => .ok (some (.int .c (toI32 (a + b))))
    | .int .i a, .int .i b => .ok (some (.int .i (toI32 (a + b))))
    | .flag .T, .flag .T => .ok (some (.flag .F))
    | .flag .F, .flag .F => .ok (some (.flag .F))
    | .flt _, .flt _ => .error .unmodelled
    | .dbl _, .dbl _ => .error .unmodelled
    | _, _ => .ok none

/-- `rtosc_arg_val_sub(lhs, rhs, res)` -/
def subAV (l r : Cell) : Res (Option Cell) :=
  if l.type ≠ r.type then addAV l r
  else
    match l, r with
    | .huge a, .huge b => .ok (some (.huge (toI64 (a - b))))
    | .int .c a, .int .c b => .ok (some (.int .c (toI32 (a - b))))
    | .int .i a, .int .i b => .ok (some (.int .i (toI32 (a - b))))
    | .flag .T, .flag .T => .ok (some (.flag .F))
    | .flag .F, .flag .F => .ok (some (.flag .F))
    | .flt _, .flt _ => .error .unmodelled
    | .dbl _, .dbl _ => .error .unmodelled
    | _, _ => .ok none

/-- `rtosc_arg_val_mult(lhs, rhs, res)` -/
def multAV (l r : Cell) : Res (Option Cell) :=
  if l.type ≠ r.type then
    match l, r with
    | .flag .F, .flag .T => .ok (some (.flag .F))
    | .flag .T, .flag .F => .ok (some (.flag .F))
    | _, _ => .ok none
  else
    match l, r with
    | .huge a, .huge b => .ok (some (.huge (toI64 (a * b))))
    | .int .c a, .int .c b => .ok (some (.int .c (toI32 (a * b))))
    | .int .i a, .int .i b => .ok (some (.int .i (toI32 (a * b))))
    | .flag .T, .flag .T => .ok (some (.flag .T))
    | .flag .F, .flag .F => .ok (some (.flag .F))
    | .flt _, .flt _ => .error .unmodelled
    | .dbl _, .dbl _ => .error .unmodelled
    | _, _ => .ok none

/-- C integer division (truncating); division by zero and `MIN / -1` trap -/
def cdiv (a b min : Int) : Res Int :=
  if b = 0 then .error .trap
  else if a = min ∧ b = -1 then .error .trap
  else .ok (Int.tdiv a b)

/-- `rtosc_arg_val_div(lhs, rhs, res)` -/
def divAV (l r : Cell) : Res (Option Cell) :=
  if l.type ≠ r.type then .ok none
  else
    match l, r with
    | .huge a, .huge b => do let q ← cdiv a b (-9223372036854775808); pure (some (.huge q))
    | .int .c a, .int .c b => do let q ← cdiv a b (-2147483648); pure (some (.int .c q))
    | .int .i a, .int .i b => do let q ← cdiv a b (-2147483648); pure (some (.int .i q))
    | .flag .T, .flag .T => .ok (some (.flag .T))
    | .flag .F, .flag .F => .ok none           -- assert(false); return false
    | .flt _, .flt _ => .error .unmodelled
    | .dbl _, .dbl _ => .error .unmodelled
    | _, _ => .ok none

/-- `rtosc_arg_val_to_int(av, &res)` -/
def toIntAV (c : Cell) : Res (Option Int) :=
  match c with
  | .huge v => .ok (some (toI32 v))
  | .int .c v => .ok (some v)
  | .int .i v => .ok (some v)
  | .flag .T => .ok (some 1)
  | .flag .F => .ok (some 0)
  | .flt _ => .error .unmodelled
  | .dbl _ => .error .unmodelled
  | _ => .ok none

/-- a step of arg-val-math whose `false` result the caller ignores: the result cell is then
    indeterminate -/
def must {α} (r : Res (Option α)) : Res α := do
  match ← r with
  | some a => pure a
  | none => .error .undef

/-- `rtosc_arg_val_range_arg(range_arg, ith, result)`: `start + ith * delta`; `none` = NULL -/
def rangeArg (p : List Cell) (ith : Int) : Res (Option Cell) :=
  match p with
  | _ :: delta :: start :: _ => do
    match ← fromInt delta ith with
    | none => pure none
    | some n =>
      match ← multAV n delta with
      | none => pure none
      | some m => addAV start m
  | _ => .error .oob

end Rtosc.Pretty
