/-
  C12 / C13 — the abstract application the savefile code works on.

  The savefile functions (`save_to_file`, `load_from_file`, `dispatch_printed_messages`,
  src/cpp/savefile.cpp) are generic in the application: they see it through its port
  tree (names, metadata, callbacks).  The theorems of C12/C13 therefore quantify over an
  `App`: a finite list of parameter instances (one per concrete address; an `arr#N`
  port contributes N instances) with

  * a kind (what argument the port's callback accepts and how it stores it: the sugar
    macros `rParamI`, `rParam`, `rParamF`, `rToggle`, `rOption`, `rString` of
    include/rtosc/port-sugar.h),
  * a default: constant (`rDefault`) or selected by the value of another port
    (`rDefaultDepends` + `rPreset(s)` + `rDefault` as fall-back),
  * the ports that enable the sub-trees it lives in (toggles, or int/option ports: enabled = non-zero) (`rEnabledBy` on `rRecurp` —
    pointer sub-tree, a message into a disabled one matches nothing — or on `rRecur` —
    embedded sub-tree, skipped by the walk when disabled; the toggle is a port of the parent
    table, or a port of the sub-tree itself: `rRecur(sub, rEnabledBy(sub/t))`, or
    `rSelf(T, rEnabledBy(t))` in the sub-tree's own table — then it guards every parameter of
    the sub-tree except itself),
  * its transitive ancestors in the dependency order (ports whose change re-applies this
    parameter's default: preset port, `rDepends` ports, enabling toggles, and theirs).

  Behaviour of the application (the part that belongs to the *meaning* of the property,
  DESIGN.md C12 "precondition"): changing a port re-applies the defaults of everything
  that depends on it (`setParam` / `cascade`); a disabled sub-tree holds its defaults
  (doc/Guide.adoc: sub-trees are disabled "if you know that the subtree has not yet
  been changed").

  No Mathlib import: linked into the drivers.
-/
import RtoscModel.Basic
namespace Rtosc.Save

abbrev Path := List Char

/-- An argument value as it occurs in messages and savefile lines.
    `flt` is the IEEE binary32 bit pattern; `chr` the int32 payload of a `c` argument;
    `sym` an `S` argument (enumeration symbol); `str` an `s` argument (bytes). -/
inductive Val where
  | int (i : Int)
  | chr (c : Int)
  | flt (bits : UInt32)
  | bool (b : Bool)
  | sym (s : Path)
  | str (s : List UInt8)
deriving DecidableEq, Repr, Inhabited

/-- monotone key of a non-NaN binary32 pattern (`a < b` iff `key a < key b`) -/
def fltKey (b : UInt32) : Int :=
  let n := b.toNat
  if n ≥ 2147483648 then - ((n - 2147483648 : Nat) : Int) else (n : Int)

def fltIsNaN (b : UInt32) : Bool := b.toNat % 2147483648 > 2139095040

/-- C `a < b` on floats -/
def fltLt (a b : UInt32) : Bool := !fltIsNaN a && !fltIsNaN b && decide (fltKey a < fltKey b)

/-- The callback macro of a port, with the metadata it reads. -/
inductive Kind where
  | int (min max : Option Int)          -- rParamI  "::i", rLIMIT(var, atoi)
  | chr                                 -- rParam   "::c", char storage, min 0 max 127
  | ichar (min max : Option Int)        -- rArrayI  "#N::i", `char var = arg.i`, rLIMIT(var, atoi)
  | flt (min max : Option UInt32)       -- rParamF  "::f", rLIMIT(var, atof)
  | tog                                 -- rToggle  "::T:F"
  | opt (names : List Path)             -- rOption  "::i:c:S", rOptions(names…)
  | str (len : Nat)                     -- rString  "::s", strncpy(len-1)
deriving DecidableEq, Repr, Inhabited

/-- `rLIMIT` on ints -/
def clampInt (min max : Option Int) (v : Int) : Int :=
  let v := match min with | some m => if v < m then m else v | none => v
  match max with | some m => if v > m then m else v | none => v

/-- `rLIMIT` on floats (comparisons as in C; a NaN passes unchanged) -/
def clampFlt (min max : Option UInt32) (v : UInt32) : UInt32 :=
  let v := match min with | some m => if fltLt v m then m else v | none => v
  match max with | some m => if fltLt m v then m else v | none => v

/-- int32 → `char` (two's complement narrowing of the low byte) -/
def narrowChar (i : Int) : Int := (i + 128) % 256 - 128

/-- `enum_key(meta, symbol)`: the index whose `map N` entry equals the symbol -/
def enumKey (names : List Path) (s : Path) : Option Nat :=
  let i := names.idxOf s
  if i < names.length then some i else none

/-- What the port's callback stores for one argument; `none`: the argument type does not
    match the port's argument specification (the message matches nothing).  For an option,
    a symbol that is not one of the port's is stored as `INT_MIN` (`enum_key` returns it and
    `rOptionCb` applies it unchecked). -/
def store : Kind → Val → Option Val
  | .int mn mx, .int i => some (.int (clampInt mn mx i))
  | .chr, .chr c => some (.chr (clampInt (some 0) (some 127) (narrowChar c)))
  | .ichar mn mx, .int i => some (.int (clampInt mn mx (narrowChar i)))
  | .flt mn mx, .flt b => some (.flt (clampFlt mn mx b))
  | .tog, .bool b => some (.bool b)
  | .opt _, .int i => some (.int i)
  | .opt _, .chr c => some (.int c)
  | .opt names, .sym s => some (match enumKey names s with | some k => .int k | none => .int (-2147483648))
  | .str len, .str bs => some (.str (bs.take (len - 1)))
  | _, _ => none

/-- Default as written in the metadata. -/
inductive Dflt where
  | const (v : Val)
  /-- `rDefaultDepends(parent)`, `rPreset(n, v)…`, `rDefault(fb)` -/
  | preset (parent : Nat) (tbl : List (Int × Val)) (fb : Val)
deriving Repr, Inhabited

structure Param where
  addr : Path
  kind : Kind
  dflt : Dflt
  /-- enabling toggles of the sub-trees this parameter lives in, outermost first;
      `true`: pointer sub-tree (`rRecurp`), `false`: embedded (`rRecur`) -/
  guards : List (Nat × Bool)
  /-- transitive ancestors in the dependency order -/
  anc : List Nat
  /-- value in a freshly constructed instance -/
  canon : Val
deriving Repr, Inhabited

/-- The runtime object: the value of every parameter instance.  (A structure around the
    function, so that the compiled model builds states strictly instead of re-running
    the updates on every look-up.) -/
structure State where
  get : Nat → Val

instance : CoeFun State (fun _ => Nat → Val) := ⟨State.get⟩

@[ext] theorem State.ext {s t : State} (h : ∀ i, s i = t i) : s = t := by
  cases s; cases t; congr; funext i; exact h i

def upd (s : State) (i : Nat) (v : Val) : State := ⟨fun j => if j = i then v else s j⟩

/-- `canonicalize_arg_vals` on a default value: a symbol becomes the option's index;
    (with fixes/C12-canonicalize-char-default) an int literal becomes a char for a `c` port. -/
def canonicalize (k : Kind) (v : Val) : Val :=
  match k, v with
  | .opt names, .sym s => match enumKey names s with | some i => .int i | none => .sym s
  | .chr, .int i => .chr i
  | _, v => v

/-- value of the preset port as the key of `default N` -/
def presetKey : Val → Option Int
  | .int i => some i
  | .chr c => some c
  | _ => none

def lookupPreset (tbl : List (Int × Val)) (k : Int) : Option Val :=
  (tbl.find? (fun e => e.1 = k)).map (·.2)

/-- `get_default_value` with a runtime: `default <value of the depended port>`, else `default`;
    canonicalised for the port. -/
def evalDflt (p : Param) (s : State) : Val :=
  canonicalize p.kind <|
    match p.dflt with
    | .const v => v
    | .preset parent tbl fb =>
      match presetKey (s parent) with
      | some k => (lookupPreset tbl k).getD fb
      | none => fb

/-- `port_is_enabled` on the reply of the enabling port (src/cpp/ports.cpp):
    `rval.type == 'T' || (rval.type == 'i' && rval.val.i != 0)` — an rToggle that is on, or an int-replying
    port (rParamI, rOption, rParam) holding a non-zero value. -/
def enabledVal : Val → Bool
  | .bool b => b
  | .int i => i != 0
  | _ => false

def guardsOn (p : Param) (s : State) : Bool :=
  p.guards.all fun g => enabledVal (s g.1)

/-- The value a parameter has when nothing set it since its dependencies last changed. -/
def expected (p : Param) (s : State) : Val :=
  if guardsOn p s then evalDflt p s else p.canon

/-- abstract port-tree lookup result used by the dependency scan: the three metadata
    values of `Ports::apropos(path)` (raw strings; `none` = key absent) -/
structure DepMeta where
  enabledBy : Option Path
  depends : Option Path
  defaultDepends : Option Path
deriving Repr, Inhabited, DecidableEq

/-- one port of the walk: a scalar parameter or an `name#N` array port -/
inductive Item where
  | scalar (i : Nat)
  | array (base : Path) (first len : Nat)
deriving Repr, Inhabited

structure App where
  name : Path
  /-- parameter instances; the index order is a dependency order (ancestors first) -/
  params : List Param
  /-- `walk_ports` order of the ports that `get_changed_values` considers -/
  walk : List Item
  /-- the port lookup of `scan_deps` followed by `meta()[…]` for the three dependency keys; the
      argument is the path exactly as `scan_deps` passes it: `<parent>/` for a parent level
      (looked up with `Ports::apropos`), the path of a line or of a dependency otherwise
      (`port_of_path`, fixes/C13-scan-deps-exact-port); `<dir>self:` stands for the `self:` port of the
      table a level stands in (`(*table)["self:"]` with `table` = the root table for `dir = "/"`, else
      `apropos(dir)->ports`; fixes/C13-scan-deps-self-port) -/
  apropos : Path → Option DepMeta

namespace App
variable (app : App)

def param (i : Nat) : Param := app.params.getD i default
def size : Nat := app.params.length

/-- fresh instance -/
def init : State := ⟨fun i => (app.param i).canon⟩

def findAddr (a : Path) : Option Nat :=
  let i := app.params.findIdx (fun p => p.addr == a)
  if i < app.params.length then some i else none

/-- strict descendants of `q`, in index (= dependency) order -/
def desc (q : Nat) : List Nat :=
  (List.range app.size).filter fun p => (app.param p).anc.contains q

/-- re-apply the defaults of the listed parameters, in order -/
def cascade : List Nat → State → State
  | [], s => s
  | d :: ds, s => cascade ds (upd s d (expected (app.param d) s))

/-- the application's reaction to a stored value: the change hook (`rChangeCb`) re-applies
    the defaults of all dependants.  `rToggleCb` invokes the hook only when the value
    changes; the other callbacks always. -/
def setParam (i : Nat) (v : Val) (s : State) : State :=
  if (app.param i).kind = .tog ∧ s i = v then s
  else app.cascade (app.desc i) (upd s i v)

/-- some pointer sub-tree on the way is not allocated -/
def ptrOff (p : Param) (s : State) : Bool :=
  p.guards.any fun g => g.2 && !enabledVal (s g.1)

/-- the argument is of the LAST alternative of the port's argument specification (`::i`, `::c`, `::f`, `::T:F`,
    `::i:c:S`, `::s`).  `rtosc_match_args` (src/dispatch.c) demands of every alternative but the last that the
    message's type string ends where the alternative ends; the last one only has to be a prefix of it: a message
    with more arguments is accepted when its first argument is of that alternative, and the callback reads
    argument 0 only. -/
def lastAlt : Kind → Val → Bool
  | .int _ _, .int _ => true
  | .chr, .chr _ => true
  | .ichar _ _, .int _ => true
  | .flt _ _, .flt _ => true
  | .tog, .bool false => true
  | .opt _, .sym _ => true
  | .str _, .str _ => true
  | _, _ => false

/-- `Ports::dispatch` of one message `addr args` on the application: `none` = no port
    matched (`d.matches == 0`).  Arguments behind the first are ignored when the port accepts the message
    (`lastAlt`). -/
def dispatch (addr : Path) (args : List Val) (s : State) : Option State :=
  match app.findAddr addr with
  | none => none
  | some i =>
    let p := app.param i
    if ptrOff p s then none
    else match args with
      | [] => some s                                  -- query: matched, replies
      | v :: rest =>
        if !rest.isEmpty && !lastAlt p.kind v then none
        else match store p.kind v with
        | none => none
        | some v' => if guardsOn p s then some (app.setParam i v' s) else some s

/-- a sequence of parameter messages (history); unmatched messages have no effect -/
def run (msgs : List (Path × List Val)) (s : State) : State :=
  msgs.foldl (fun s m => (app.dispatch m.1 m.2 s).getD s) s

end App
end Rtosc.Save
