/-
  C12 / C13 — model of `dispatch_printed_messages` (after scanning) and `load_from_file`
  (src/cpp/savefile.cpp:522-901) at the level of abstract lines: a line is a port name
  plus its scanned argument values.  Scanning the text (C10/C11), rebuilding the OSC
  message (C01) and finding the port (C04) are the lower stages; here a message is
  handed to `App.dispatch`.
-/
import RtoscModel.Save.Deps
namespace Rtosc.Save

/-- the scanned arguments of one message: plain values, or one array `[…]`
    (ranges already expanded, as `rtosc_arg_val_itr` does while dispatching) -/
inductive Args where
  | plain (vs : List Val)
  | arr (vs : List Val)
deriving Repr, Inhabited, DecidableEq

structure Line where
  addr : Path
  args : Args
deriving Repr, Inhabited, DecidableEq

/-- `snprintf(portname_end, 8, "%d", arr_idx)` -/
def natDigits (n : Nat) : Path := (toString n).toList

namespace App
variable (app : App)

/-- "for bundles, send each element separately": element `i` goes to `<addr><i>` -/
def dispatchArr (addr : Path) : List Val → Nat → State → Option State
  | [], _, s => some s
  | v :: vs, i, s =>
    match app.dispatch (addr ++ natDigits i) [v] s with
    | none => none
    | some s' => dispatchArr addr vs (i + 1) s'

/-- the body of the final `for(order_id : order)` loop for one message with the default
    dispatcher: `false`/`none` = `ok` became false. -/
def applyLine (l : Line) (s : State) : Option State :=
  match l.args with
  | .plain vs => app.dispatch l.addr vs s
  | .arr [] => app.dispatch (l.addr ++ natDigits 0) [] s   -- max(nargs,1): one message without arguments
  | .arr vs => app.dispatchArr l.addr vs 0 s

/-- dispatch the messages in the given order, stopping at the first failure -/
def applyOrder (ls : List Line) : List Nat → State → Option State
  | [], s => some s
  | i :: r, s =>
    match ls[i]? with
    | none => none
    | some l => match app.applyLine l s with
      | none => none
      | some s' => applyOrder ls r s'

end App

inductive LoadRes where
  /-- `ok`: return value = number of messages read -/
  | ok (s : State) (count : Nat)
  /-- negative return value -/
  | fail
  /-- the model is undefined: the dependency scan does not terminate (cyclic metadata) -/
  | undefined

/-- recursion budget of the dependency scan; the code has none (it recurses until the
    stack is exhausted), the model reports `undefined` beyond it -/
def scanFuel : Nat := 64

/-- `dispatch_printed_messages` after the scan phase: dependency edges, Kahn's
    algorithm, dispatch in that order. -/
def App.load (app : App) (ls : List Line) (s : State) : LoadRes :=
  match dependees app.apropos scanFuel (ls.map (·.addr)) with
  | none => .undefined
  | some deps =>
    match kahn deps with
    | none => .undefined
    | some order =>
      match app.applyOrder ls order s with
      | none => .fail
      | some s' => .ok s' ls.length

/-- What `load_from_file` sees of a file, after the text stages:
    first line `% RT OSC v<a>.<b>.<c> savefile`, second line `% <app> v<a>.<b>.<c>`
    (`magic`: the two lines have this shape — the `sscanf` formats of `load_from_file` match them to
    the end; the numbers and the name they carry are the next three fields), then the messages;
    a message the scanner rejects is `none`. -/
structure File where
  magic : Bool
  rtoscVer : Nat × Nat × Nat
  appName : Path
  appVer : Nat × Nat × Nat
  body : List (Option Line)

def verOk (v : Nat × Nat × Nat) : Bool := v.1 ≤ 255 && v.2.1 ≤ 255 && v.2.2 ≤ 255

/-- the messages scanned before the first unparsable one, and whether all parsed
    (`while(*msg_ptr && ok)`) -/
def scanBody : List (Option Line) → List Line × Bool
  | [] => ([], true)
  | none :: _ => ([], false)
  | some l :: r => let (ls, ok) := scanBody r; (l :: ls, ok)

/-- `load_from_file` -/
def App.loadFile (app : App) (f : File) (s : State) : LoadRes :=
  if !f.magic || !verOk f.rtoscVer then .fail
  else if f.appName ≠ app.name || !verOk f.appVer then .fail
  else
    let (ls, ok) := scanBody f.body
    -- a scan error leaves `ok == false`: the dispatch loop sends nothing and breaks
    if !ok then .fail else app.load ls s

end Rtosc.Save
