/-
  C12 / C13 — Bool versions of the two clauses of `App.WF` the driver's `wf` report does not print yet
  (`kind_ok`, `walk_tiles`); soundness is proved in Proofs/SaveWfBool.lean.  No Mathlib import.
-/
import RtoscModel.Save.Spec
namespace Rtosc.Save

def nodupB : List Path → Bool
  | [] => true
  | a :: r => !r.contains a && nodupB r

def inCharB (o : Option Int) : Bool :=
  match o with
  | some a => decide (-128 ≤ a) && decide (a ≤ 127)
  | none => true

def notNaNB (o : Option UInt32) : Bool :=
  match o with
  | some a => !fltIsNaN a
  | none => true

/-- `KindOK` -/
def kindOkB : Kind → Bool
  | .opt names => nodupB names
  | .flt mn mx =>
    notNaNB mn && notNaNB mx &&
    (match mn, mx with
     | some a, some b => !fltLt b a
     | _, _ => true)
  | .ichar mn mx => inCharB mn && inCharB mx
  | _ => true

/-- `Tiling` -/
def tilingB : Nat → List Item → Nat → Bool
  | a, [], b => a == b
  | a, it :: r, b => it.lo == a && decide (it.lo < it.hi) && tilingB it.hi r b

/-- insertion of an item into a list ordered by `lo` -/
def insertLo (it : Item) : List Item → List Item
  | [] => [it]
  | x :: r => if it.lo ≤ x.lo then it :: x :: r else x :: insertLo it r

def sortLo : List Item → List Item
  | [] => []
  | it :: r => insertLo it (sortLo r)

namespace App

/-- `WF.kind_ok` -/
def kindOkB (app : App) : Bool := app.params.all fun p => Rtosc.Save.kindOkB p.kind

/-- `WF.walk_tiles`: the walk, ordered by first index, tiles `[0, size)` -/
def walkTilesB (app : App) : Bool := tilingB 0 (sortLo app.walk) app.size

end App
end Rtosc.Save
