/-
  C12 / C13 — specification-side definitions: which applications, states and files the
  theorems quantify over, and what "dependence" means independently of the scanning
  code.  No Mathlib import.
-/
import RtoscModel.Save.Save
namespace Rtosc.Save

/-- a value the port's callback can hold: sending it (as the savefile prints it) stores
    exactly it -/
def Storable (k : Kind) (v : Val) : Prop := store k (mapArgVal k v) = some v

/-- metadata of a kind is sensible: option names are distinct, float bounds are ordered
    numbers, the bounds of a `char`-stored array element fit a `char` -/
def KindOK : Kind → Prop
  | .opt names => names.Nodup
  | .flt mn mx =>
    (∀ a, mn = some a → fltIsNaN a = false) ∧ (∀ b, mx = some b → fltIsNaN b = false) ∧
    (∀ a b, mn = some a → mx = some b → fltLt b a = false)
  | .ichar mn mx => (∀ a, mn = some a → -128 ≤ a ∧ a ≤ 127) ∧ (∀ b, mx = some b → -128 ≤ b ∧ b ≤ 127)
  | _ => True

def Dflt.vals : Dflt → List Val
  | .const v => [v]
  | .preset _ tbl fb => fb :: tbl.map (·.2)

def Item.lo : Item → Nat
  | .scalar i => i
  | .array _ first _ => first

def Item.hi : Item → Nat
  | .scalar i => i + 1
  | .array _ first len => first + len

/-- the items tile the index range `[a, b)` in order -/
def Tiling : Nat → List Item → Nat → Prop
  | a, [], b => a = b
  | a, it :: r, b => it.lo = a ∧ it.lo < it.hi ∧ Tiling it.hi r b

/-- the paths `scan_deps` looks up for the start path `X`: each level of `X` paired with the
    argument handed to `apropos` (parents with a trailing '/') -/
def lvlArgs (X : Path) : List (Path × Path) :=
  match levels (X.length + 1) X with
  | [] => []
  | l :: r => (l, l) :: r.map fun p => (p, p ++ ['/'])

/-- the absolute paths one port's metadata refers to, seen from the level `lvl` -/
def metaRefs (m : DepMeta) (lvl : Path) : List Path :=
  (m.keys.filterMap id).flatMap fun v => (depItems v).map fun it => rel2abs it lvl

/-- the references found at one level: the port's own metadata, then that of the `self:` port of its table -/
def refsAt (ap : Path → Option DepMeta) (la : Path × Path) : List Path :=
  (match ap la.2 with
   | none => []
   | some m => metaRefs m la.1) ++
  (match selfMeta ap la.1 with
   | none => []
   | some m => metaRefs m la.1)

/-- everything the metadata found along `X` resolves to, in scan order -/
def rawRefs (ap : Path → Option DepMeta) (X : Path) : List Path :=
  (lvlArgs X).flatMap (refsAt ap)

/-- the absolute paths the metadata found along `X` refers to, in scan order: a path does not refer to itself
    (the toggle inside the sub-tree it enables: `rRecur(sub, rEnabledBy(sub/enabled))`) -/
def refsOf (ap : Path → Option DepMeta) (X : Path) : List Path :=
  (rawRefs ap X).filter fun Y => decide (Y ≠ X)

/-- the dependency metadata is acyclic, and not deeper than the model's recursion budget -/
def MetaRanked (ap : Path → Option DepMeta) : Prop :=
  ∃ rank : Path → Nat, (∀ X, ∀ Y ∈ refsOf ap X, rank Y < rank X) ∧ ∀ X, rank X < scanFuel

namespace App
variable (app : App)

/-- every ancestor of a parameter (and of an array port, under its base address) is either
    referred to directly by the metadata found along its address, or is an ancestor of one
    that is: what `rDefaultDepends` / `rDepends` / `rEnabledBy` are there to declare -/
def MetaCovers : Prop :=
  (∀ d, d < app.size → ∀ a ∈ (app.param d).anc,
      (app.param a).addr ∈ refsOf app.apropos (app.param d).addr ∨
      ∃ m ∈ (app.param d).anc, a ∈ (app.param m).anc ∧ (app.param m).addr ∈ refsOf app.apropos (app.param d).addr) ∧
  (∀ base first len, Item.array base first len ∈ app.walk → ∀ a ∈ (app.param first).anc,
      (app.param a).addr ∈ refsOf app.apropos base ∨
      ∃ m ∈ (app.param first).anc, a ∈ (app.param m).anc ∧ (app.param m).addr ∈ refsOf app.apropos base)

/-- the ancestors of every parameter form a chain: two ports of which neither depends on the other never
    share a dependant.  NOT a hypothesis of any theorem (it was one of `WF` until the commutation of
    independent writes was proved by confluence, `App.setParam_commute`); kept to state, in the non-vacuity
    examples, that applications violating it are covered. -/
def AncChain : Prop :=
  ∀ i, i < app.size → ∀ a ∈ (app.param i).anc, ∀ b ∈ (app.param i).anc,
      a = b ∨ a ∈ (app.param b).anc ∨ b ∈ (app.param a).anc

/-- well-formed application descriptions (all clauses except the two about `apropos`
    are decidable for a concrete `App`).  The dependency order may be any finite strict partial order
    (`anc_lt`, `anc_closed`): in particular two independent ports may share dependants. -/
structure WF : Prop where
  addr_nodup : (app.params.map (·.addr)).Nodup
  anc_lt : ∀ i, i < app.size → ∀ a ∈ (app.param i).anc, a < i
  anc_closed : ∀ i, i < app.size → ∀ a ∈ (app.param i).anc, ∀ b ∈ (app.param a).anc, b ∈ (app.param i).anc
  guards_anc : ∀ i, i < app.size → ∀ g ∈ (app.param i).guards, g.1 ∈ (app.param i).anc
  preset_anc : ∀ i, i < app.size → ∀ par tbl fb, (app.param i).dflt = .preset par tbl fb → par ∈ (app.param i).anc
  kind_ok : ∀ i, i < app.size → KindOK (app.param i).kind
  dflt_storable : ∀ i, i < app.size → ∀ v ∈ (app.param i).dflt.vals,
      Storable (app.param i).kind (canonicalize (app.param i).kind v)
  /-- a fresh instance holds the defaults -/
  canon_ok : ∀ i, i < app.size → (app.param i).canon = evalDflt (app.param i) app.init
  /-- the walk visits every parameter instance exactly once -/
  walk_tiles : ∃ rw : List Item, rw.Perm app.walk ∧ Tiling 0 rw app.size
  item_addr_nodup : (app.walk.map app.itemAddr).Nodup
  /-- an array port: element `k` has address `base<k>`, the elements share their guards and their
      ancestors (one port, one set of metadata) and nothing depends on them; the base address is not a
      parameter's.  The defaults of the elements are arbitrary: constant or selected by a preset port
      (`rDefaultDepends` on an `rArray…`), one value per element. -/
  array_ok : ∀ base first len, Item.array base first len ∈ app.walk →
      app.findAddr base = none ∧
      ∀ k, k < len →
        (app.param (first + k)).addr = base ++ natDigits k ∧
        (app.param (first + k)).guards = (app.param first).guards ∧
        (app.param (first + k)).anc = (app.param first).anc ∧
        ∀ j, j < app.size → first + k ∉ (app.param j).anc

/-- invariant of reachable states: every value is one the callback stores, and a
    disabled sub-tree holds its defaults -/
structure Inv (s : State) : Prop where
  storable : ∀ i, i < app.size → Storable (app.param i).kind (s i)
  hidden_canon : ∀ i, i < app.size → guardsOn (app.param i) s = false → s i = (app.param i).canon
  outside : ∀ i, app.size ≤ i → s i = app.init i

/-- states reachable through the parameter ports -/
def Reachable (s : State) : Prop := ∃ msgs, s = app.run msgs app.init

/-- the parameter instances a line addresses -/
def lineParams (l : Line) : List Nat :=
  match l.args with
  | .plain _ => (app.findAddr l.addr).toList
  | .arr vs => (List.range (max vs.length 1)).filterMap fun k => app.findAddr (l.addr ++ natDigits k)

/-- `a` must be applied before `b`: some parameter of `a` is an ancestor of one of `b` -/
def lineLt (a b : Line) : Prop :=
  ∃ pa ∈ app.lineParams a, ∃ pb ∈ app.lineParams b, pa ∈ (app.param pb).anc

/-- an array line stands under the base address of an array port and has at most its
    length elements (the shape `save_to_file` writes) -/
def LineOK (l : Line) : Prop :=
  match l.args with
  | .plain _ => True
  | .arr vs => ∃ first len, Item.array l.addr first len ∈ app.walk ∧ vs.length ≤ len

/-- files the order-independence theorem quantifies over -/
structure FileOK (ls : List Line) : Prop where
  addr_nodup : (ls.map (·.addr)).Nodup
  line_ok : ∀ l ∈ ls, app.LineOK l
  disjoint : ls.Pairwise fun a b => ∀ p ∈ app.lineParams a, p ∉ app.lineParams b

end App
end Rtosc.Save
