/-
  C12 — the text stage of the savefile code: what `save_to_file` writes and what
  `load_from_file` / `dispatch_printed_messages` read, composed from the C10 models of the pretty
  printer (`Pretty.printMessage`), the syntax checker (`Pretty.countPrintedArgValsOfMsg`) and the
  scanner (`Pretty.scanMessage`).

  save (src/cpp/savefile.cpp, `write_msg` in `get_changed_values`, `save_to_file`):
      *res += port_buffer;                                   -- the address
      char cur_value_pretty[buffersize] = " ";
      rtosc_print_arg_vals(args, n, cur_value_pretty + 1, buffersize - 1,
                           NULL /* default options */, strlen(port_buffer) + 1);
      *res += cur_value_pretty; *res += "\n";                 (the last "\n" is removed)
    i.e. one line = address, a blank, the printed argument list, the printer starting in column
    `strlen(address) + 1` with the blank as the character in front of its buffer: exactly
    `Pretty.printMessage defaultOpt address args 0`.  The options are `default_print_options`
    = { lossless, precision 2, " ", line length 80, compress ranges } (`Pretty.defaultOpt`).
    The file is "% RT OSC v<a>.<b>.<c> savefile\n% <app> v<a>.<b>.<c>\n" followed by the lines.

  load (`load_from_file`, the first loop of `dispatch_printed_messages`):
      sscanf(" %% RT OSC v%u.%u.%u savefile%n "), sscanf(" %% %127s v%u.%u.%u%n "),
      while(*msg_ptr && ok) { nargs = rtosc_count_printed_arg_vals_of_msg(msg_ptr);
                              if(nargs >= 0) { rd = rtosc_scan_message(msg_ptr, name, 8192, …, nargs, …);
                                               msg_ptr += rd; }
                              else if(nargs == INT_MIN) skip to the end  else ok = false; }

  The two header `sscanf`s are transcribed by hand below (`parseHeader`; C10's `sscanf` model has
  neither `%u` nor `%s`): white space in the format matches any amount of white space, `%u` skips
  white space and reads decimal digits (a sign in front of a version number is NOT modelled: the
  parse fails), `%127s` reads up to 127 non-blank characters.

  Nothing here is used by the compiled driver `drv_save` (its output is unchanged): the driver
  compares abstract lines; this file only defines the composition the theorems of
  Props/C12Text.lean are about.  No Mathlib import.
-/
import RtoscModel.Save.Save
import RtoscModel.Pretty.Check
import RtoscModel.ArgVal.Itr
namespace Rtosc.Save.Text
open Rtosc Rtosc.Libc Rtosc.Pretty
open Rtosc.ArgVal (Cell)

/-! ### values and addresses as the text stages see them -/

def byteOfChar (c : Char) : UInt8 := c.toNat.toUInt8
def charOfByte (b : UInt8) : Char := Char.ofNat b.toNat

/-- a port name / symbol as a C string -/
def pathBytes (p : Path) : Bytes := p.map byteOfChar
def bytesPath (b : Bytes) : Path := b.map charOfByte

/-- the `rtosc_arg_val_t` of a parameter value: `i`, `c`, `f`, `T`/`F`, `S`, `s` -/
def cellOfVal : Val → Cell
  | .int i => .int .i i
  | .chr c => .int .c c
  | .flt b => .flt b
  | .bool true => .flag .T
  | .bool false => .flag .F
  | .sym s => .str .S (some (pathBytes s))
  | .str bs => .str .s (some bs)

/-- a scanned cell as a parameter value; `none`: a type no parameter kind of the model carries -/
def valOfCell : Cell → Option Val
  | .int .i v => some (.int v)
  | .int .c v => some (.chr v)
  | .flt b => some (.flt b)
  | .flag .T => some (.bool true)
  | .flag .F => some (.bool false)
  | .str .S (some s) => some (.sym (bytesPath s))
  | .str .s (some s) => some (.str s)
  | _ => none

/-- the element type in an array header; it is not written to the text, the scanner reconstructs
    the type of the last element (' ' for an empty array) -/
def arrTy (cs : List Cell) : UInt8 :=
  match cs.getLast? with
  | some e => e.type
  | none => 32

/-- the argument values `write_msg` hands to `rtosc_print_arg_vals`: the value of a scalar port,
    or the `'a'` header and the (trimmed) elements of an array port -/
def cellsOfArgs : Args → List Cell
  | .plain vs => vs.map cellOfVal
  | .arr vs => Cell.arr (arrTy (vs.map cellOfVal)) (vs.length : Nat) :: vs.map cellOfVal

/-- bound on the iterations of `rtosc_arg_val_itr` over `cs`: one per cell plus the repetitions of
    every range header (an infinite range, `num = 0`, never ends in the code: `Err.fuel` here) -/
def iterFuel : List Cell → Nat
  | [] => 1
  | .rep n _ :: r => n.toNat + 1 + iterFuel r
  | _ :: r => 1 + iterFuel r

/-- `*cur` for a pointer the iterator returned -/
def headCell (p : List Cell) : Res Cell :=
  match p with
  | c :: _ => pure c
  | [] => throw .oob

/-- the values `dispatch_printed_messages` takes out of scanned argument values:
    `for(rtosc_arg_val_itr_init; itr.i < nargs; rtosc_arg_val_itr_next) cur = rtosc_arg_val_itr_get`
    (C16's model of the range-aware iterator): repetitions `5x7` and ranges `1 ... 6` are expanded -/
def expandCells (cs : List Cell) : Res (List Cell) := do
  let ps ← liftAV (ArgVal.iterate (iterFuel cs) (ArgVal.Itr.init cs) cs.length)
  ps.mapM headCell

/-- the scanned cells of one message as the arguments of an abstract line: plain values, or one
    array `[…]` of plain values, ranges and repetitions expanded the way the dispatch loop expands
    them.  `Err.unmodelled`: anything else (a nested array, a value of a type no parameter kind of
    the model carries, an array header whose length does not cover the rest of the message) — the
    abstract `Line` cannot express it -/
def argsOfCells (cells : List Cell) : Res Args :=
  match cells with
  | Cell.arr _ len :: es =>
    if len = (es.length : Nat) then do
      let xs ← expandCells es
      match xs.mapM valOfCell with
      | some vs => pure (.arr vs)
      | none => throw .unmodelled
    else throw .unmodelled
  | cs => do
    let xs ← expandCells cs
    match xs.mapM valOfCell with
    | some vs => pure (.plain vs)
    | none => throw .unmodelled

/-! ### save -/

/-- one line of `get_changed_values`: address, blank, `rtosc_print_arg_vals` with the default
    options and `cols_used = strlen(address) + 1` -/
def lineText (l : Line) : Res Bytes := do
  let (st, _) ← printMessage defaultOpt (pathBytes l.addr) (cellsOfArgs l.args) 0
  pure st.out

/-- `rtosc_version_print_to_12byte_str`: "%u.%u.%u" -/
def verText (v : Nat × Nat × Nat) : Bytes := fmtNat v.1 ++ 46 :: fmtNat v.2.1 ++ 46 :: fmtNat v.2.2

/-- the words of the first header line (as bytes: "RT", "OSC", "savefile") -/
def hdrRtosc : Bytes := [82, 84]
def hdrOsc : Bytes := [79, 83, 67]
def hdrSavefile : Bytes := [115, 97, 118, 101, 102, 105, 108, 101]

/-- "% RT OSC v<a>.<b>.<c> savefile" -/
def header1 (v : Nat × Nat × Nat) : Bytes :=
  37 :: 32 :: hdrRtosc ++ 32 :: hdrOsc ++ 32 :: 118 :: verText v ++ 32 :: hdrSavefile

/-- "% <app> v<a>.<b>.<c>" -/
def header2 (name : Path) (v : Nat × Nat × Nat) : Bytes :=
  37 :: 32 :: pathBytes name ++ 32 :: 118 :: verText v

/-- the messages, each ended by a newline, the last newline removed (`res.resize(length - 1)`) -/
def joinLines : List Bytes → Bytes
  | [] => []
  | [t] => t
  | t :: r => t ++ 10 :: joinLines r

/-- the text of a file given the text of its lines: `save_to_file` with an empty `file_str` -/
def fileTextOf (rtoscVer : Nat × Nat × Nat) (name : Path) (appVer : Nat × Nat × Nat) (lines : List Bytes) : Bytes :=
  header1 rtoscVer ++ 10 :: header2 name appVer ++ 10 :: joinLines lines

/-- `save_to_file` on the abstract lines of a file (all of them present) -/
def fileText (f : File) : Res Bytes := do
  let ts ← (f.body.filterMap id).mapM lineText
  pure (fileTextOf f.rtoscVer f.appName f.appVer ts)

/-- `save_to_file(ports, runtime, appname, appver)` as text -/
def _root_.Rtosc.Save.App.saveText (app : App) (rtoscVer appVer : Nat × Nat × Nat) (s : State) : Res Bytes :=
  fileText (app.saveFile rtoscVer appVer s)

/-! ### load: the two header lines -/

/-- a literal word of a `sscanf` format -/
def expect (w s : Bytes) : Option Bytes := if w.isPrefixOf s then some (s.drop w.length) else none

/-- what `%u` stores for a number with a minus sign: `strtoul` negates, the store keeps 32 bits (a non-zero
    value becomes a number far above 255) -/
def wrapU (neg : Bool) (v : Nat) : Nat :=
  if neg && v != 0 then 4294967296 - v % 4294967296 else v

/-- `%u`: white space, an optional sign (`+` or `-`, as `strtoul` takes it), then decimal digits (at least one).
    (A number of 2^32 or more wraps in the code; the model keeps it as it is: above 255 either way unless the
    wrapped value is small.) -/
def scanU (s : Bytes) : Option (Nat × Bytes) :=
  let s1 := skipSpace s
  let s2 := if (hd s1 == 43 || hd s1 == 45) then s1.drop 1 else s1
  let ds := s2.takeWhile isdigit
  if ds.isEmpty then none else some (wrapU (hd s1 == 45) (digitsVal 10 ds), s2.drop ds.length)

/-- `%u.%u.%u` -/
def scanVer (s : Bytes) : Option ((Nat × Nat × Nat) × Bytes) := do
  let (a, s) ← scanU s
  let s ← expect [46] s
  let (b, s) ← scanU s
  let s ← expect [46] s
  let (c, s) ← scanU s
  pure ((a, b, c), s)

/-- `sscanf(s, " %% RT OSC v%u.%u.%u savefile%n ")`: the version and the text behind `%n` -/
def parseHeader1 (s : Bytes) : Option ((Nat × Nat × Nat) × Bytes) := do
  let s ← expect [37] (skipSpace s)
  let s ← expect hdrRtosc (skipSpace s)
  let s ← expect hdrOsc (skipSpace s)
  let s ← expect [118] (skipSpace s)
  let (v, s) ← scanVer s
  let s ← expect hdrSavefile (skipSpace s)
  pure (v, s)

/-- `sscanf(s, " %% %127s v%u.%u.%u%n ")` -/
def parseHeader2 (s : Bytes) : Option (Bytes × (Nat × Nat × Nat) × Bytes) := do
  let s ← expect [37] (skipSpace s)
  let s1 := skipSpace s
  let name := (s1.takeWhile fun c => !isspace c && c ≠ 0).take 127
  if name.isEmpty then none
  let s ← expect [118] (skipSpace (s1.drop name.length))
  let (v, s) ← scanVer s
  pure (name, v, s)

/-! ### load: the messages -/

/-- `buffersize` of `dispatch_printed_messages`: the size of the port name buffer -/
def nameBufSize : Nat := 8192

/-- the first loop of `dispatch_printed_messages`: the scanned messages; `none` stands for a message
    the checker rejects (`ok = false`, nothing behind it is read).  Errors: `.unmodelled` — the
    scanned argument values are outside the abstract `Line` (see `argsOfCells`); `.hang` — the scanner
    consumed nothing. -/
def scanBodyText : Nat → Bytes → Res (List (Option Line))
  | 0, _ => .error .fuel
  | fuel + 1, src =>
    if src.isEmpty then .ok []                                   -- `*msg_ptr == 0`
    else do
      let nargs ← countPrintedArgValsOfMsg src
      if 0 ≤ nargs then do
        let (rd, addr, cells) ← scanMessage src nameBufSize nargs.toNat
        if rd = 0 then throw .hang
        let args ← argsOfCells cells
        let rest ← scanBodyText fuel (src.drop rd)
        pure (some ⟨bytesPath addr, args⟩ :: rest)
      else if nargs = intMin then pure []                        -- white space only: `while(*++msg_ptr);`
      else pure [none]

/-- the two header lines: versions, application name, and the text behind them -/
def parseHeader (text : Bytes) : Option ((Nat × Nat × Nat) × Bytes × (Nat × Nat × Nat) × Bytes) := do
  let (rv, s1) ← parseHeader1 text
  let (name, av, s2) ← parseHeader2 s1
  pure (rv, name, av, s2)

/-- `load_from_file(text, ports, runtime, appname, appver)`: the header checks (a header that does not
    match, a version component above 255 or another application's name give a negative result before
    any message is read), then `dispatch_printed_messages` on the rest of the text -/
def _root_.Rtosc.Save.App.loadText (app : App) (text : Bytes) (s : State) : Res LoadRes :=
  match parseHeader text with
  | none => pure .fail
  | some (rv, name, av, rest) =>
    if !verOk rv || bytesPath name ≠ app.name || !verOk av then pure .fail
    else do
      let body ← scanBodyText (rest.length + 1) rest
      pure (app.loadFile { magic := true, rtoscVer := rv, appName := bytesPath name, appVer := av, body := body } s)

end Rtosc.Save.Text
