/-
  C12 — model of `get_changed_values` / `save_to_file` (src/cpp/savefile.cpp:63-438,
  823-849) at the level of abstract lines.

  For every port the walk reaches (`walk_ports` with a runtime object skips sub-trees
  whose pointer is NULL or whose "enabled by" toggle is off):
    default   = get_default_value (preset-dependent, canonicalised)
    runtime   = the port's own reply to a query
    different → one line: address + runtime value(s) (`map_arg_vals`: option index →
                symbol; arrays: the common equal suffix is not printed).
  The filters of `on_reach_port` on the port's name and metadata (`::`/trailing `:`,
  "parameter", no "alias", not excluded) hold for every port the sugar macros
  rParam*/rToggle/rOption/rString/rArray* produce; they are not modelled.
-/
import RtoscModel.Save.Load
namespace Rtosc.Save

/-- `map_arg_vals`: an int that has a `map N` entry is printed as that symbol -/
def mapArgVal (k : Kind) (v : Val) : Val :=
  match k, v with
  | .opt names, .int i =>
    if 0 ≤ i ∧ i.toNat < names.length then .sym (names.getD i.toNat []) else .int i
  | _, v => v

/-- `first_equal_index`: number of leading runtime elements that are printed — up to
    and including the last one that differs from the default (the runtime elements as `map_arg_vals` left them). -/
def firstEqualIndex : List Val → List Val → Nat → Nat → Nat
  | d :: ds, r :: rs, i, acc => firstEqualIndex ds rs (i + 1) (if d = r then acc else i + 1)
  | _, _, _, acc => acc

namespace App
variable (app : App)

/-- the line `on_reach_port` writes for one port, if any -/
def saveItem (s : State) : Item → Option Line
  | .scalar i =>
    let p := app.param i
    if !guardsOn p s then none else
    let d := evalDflt p s
    let r := s i
    if d = r then none else some ⟨p.addr, .plain [mapArgVal p.kind r]⟩
  | .array base first len =>
    let idx := (List.range len).map (· + first)
    if !guardsOn (app.param first) s then none else
    let ds := idx.map fun i => evalDflt (app.param i) s
    let rs := idx.map fun i => s i
    if ds = rs then none else
    -- `map_arg_vals` runs BEFORE `first_equal_index` (write_msg in get_changed_values): the suffix that is cut off is
    -- compared with the option indices already replaced by their symbols — an rArrayOption element holding an option's
    -- index never equals its (canonicalised, int) default there and is always written
    let ms := idx.map fun i => mapArgVal (app.param i).kind (s i)
    let n := firstEqualIndex ds ms 0 0
    some ⟨base, .arr ((idx.take n).map fun i => mapArgVal (app.param i).kind (s i))⟩

/-- address under which the walk reports the port -/
def itemAddr : Item → Path
  | .scalar i => (app.param i).addr
  | .array base _ _ => base

/-- the walk reaches the port (its sub-tree is allocated and enabled) -/
def itemReached (s : State) : Item → Bool
  | .scalar i => guardsOn (app.param i) s
  | .array _ first _ => guardsOn (app.param first) s

/-- `get_changed_values`: the address of every reached port enters `written`; a second
    port with the same address is skipped -/
def saveFrom (s : State) : List Item → List Path → List Line
  | [], _ => []
  | it :: r, written =>
    if !app.itemReached s it then saveFrom s r written
    else if written.contains (app.itemAddr it) then saveFrom s r written
    else match app.saveItem s it with
      | none => saveFrom s r (app.itemAddr it :: written)
      | some l => l :: saveFrom s r (app.itemAddr it :: written)

def save (s : State) : List Line := app.saveFrom s app.walk []

/-- `save_to_file` with an empty `file_str` -/
def saveFile (rtoscVer appVer : Nat × Nat × Nat) (s : State) : File :=
  { magic := true, rtoscVer := rtoscVer, appName := app.name, appVer := appVer,
    body := (app.save s).map some }

end App
end Rtosc.Save
