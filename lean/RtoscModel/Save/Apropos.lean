/-
  C12 / C13 — the port tree as the dependency scan sees it: `Ports::apropos`
  (src/cpp/ports.cpp:755-774) with the part of `rtosc_match_path` (src/dispatch.c:72-109)
  that port names made of letters, `#N`, `/` and the `:args` suffix exercise.
  Used by the drivers to instantiate `App.apropos`; the theorems of C12/C13 take
  `App.apropos` abstractly (hypothesis `MetaCovers`), the lookup itself is C18's subject.
  A name containing `{` or `*` gives `none` for that port (never generated).
-/
import RtoscModel.Save.App
namespace Rtosc.Save

inductive PNode where
  | mk (name : Path) (deps : DepMeta) (children : List PNode)
deriving Repr, Inhabited

namespace PNode
def name : PNode → Path | mk n _ _ => n
def deps : PNode → DepMeta | mk _ m _ => m
def children : PNode → List PNode | mk _ _ c => c
/-- `port.ports != NULL`: the sub-tree ports of the sugar macros are named `name/` or `name#N/`;
    a port with the enumeration inside its name (`v#3/en::T:F`) has a '/' but no table -/
def hasPorts (p : PNode) : Bool := p.name.getLast? == some '/'
end PNode

def isDigit (c : Char) : Bool := '0' ≤ c && c ≤ '9'

def atoiPrefix (s : Path) : Nat :=
  (s.takeWhile isDigit).foldl (fun n c => n * 10 + (c.toNat - 48)) 0

/-- `rtosc_match_path(pattern, msg, &path_end)`: `some path_end` on a match.
    `fuel` bounds the loop by the pattern length. -/
def matchPath : Nat → Path → Path → Option Path
  | 0, _, _ => none
  | fuel + 1, pat, msg =>
    match pat, msg with
    | ':' :: _, [] => some []
    | '{' :: _, _ => none
    | '*' :: _, _ => none
    | '/' :: pr, '/' :: mr =>
      match pr with
      | [] => some mr
      | ':' :: _ => some mr
      | _ => matchPath fuel pr mr
    | '#' :: pr, _ =>
      -- rtosc_match_number
      match pr, msg with
      | p0 :: _, m0 :: _ =>
        if isDigit p0 && isDigit m0 then
          if atoiPrefix msg < atoiPrefix pr then
            matchPath fuel (pr.dropWhile isDigit) (msg.dropWhile isDigit)
          else none
        else none
      | _, _ => none
    | [], [] => some []
    | p :: pr, m :: mr => if p = m then matchPath fuel pr mr else none
    | _, _ => none

def matchP (pat msg : Path) : Option Path := matchPath (pat.length + 2) pat msg

/-- `Ports::apropos(path)` on a table; `fuel` bounds the tree depth. -/
def aproposIn : Nat → List PNode → Path → Option PNode
  | 0, _, _ => none
  | fuel + 1, ports, path0 =>
    let path := match path0 with | '/' :: r => r | p => p
    -- first loop: ports with a '/' in their name
    let first := ports.findSome? fun p =>
      if p.name.contains '/' then
        match matchP p.name path with
        | some pathEnd =>
          -- (port.ports && strchr(path,'/')[1]) ? port.ports->apropos(path_end) : &port
          match p.hasPorts, path.dropWhile (· ≠ '/') with
          | true, _ :: _ :: _ => some (aproposIn fuel p.children pathEnd)
          | _, _ => some (some p)
        | none => none
      else none
    match first with
    | some r => r
    | none =>
      -- "This is the lowest level, now find the best port"
      if path.isEmpty then none else
      ports.find? fun p => path.isPrefixOf p.name || (matchP p.name path).isSome

def aproposTree (root : List PNode) (path : Path) : Option DepMeta :=
  (aproposIn 16 root path).map (·.deps)

/-- `std::string::find_last_of('/')` (as in `Deps.lastSlash`, which imports nothing from here) -/
def lastSlashA : Path → Option Nat
  | [] => none
  | c :: r => match lastSlashA r with
    | some k => some (k + 1)
    | none => if c = '/' then some 0 else none

/-- the lambda `whole` of `port_of_path`: the port's name matches the whole last path component, or is
    the `name#N` array port whose base name the component is -/
def wholeMatch (leaf : Path) (p : PNode) : Bool :=
  (matchP p.name leaf).isSome || (leaf.isPrefixOf p.name && (p.name.drop leaf.length).head? == some '#')

/-- `port_of_path` (savefile.cpp, fixes/C13-scan-deps-exact-port): `apropos`' hit, replaced by the sibling
    that matches the whole last component when the hit only starts like it -/
def portOfPathIn (root : List PNode) (path : Path) : Option PNode :=
  match aproposIn 16 root path with
  | none => none
  | some port =>
    match lastSlashA path with
    | none => some port                  -- `scan_deps` only passes paths that contain a '/'
    | some ls =>
      let leaf := path.drop (ls + 1)
      if leaf.isEmpty || wholeMatch leaf port then some port else
      let table : Option (List PNode) :=
        if ls > 0 then
          match aproposIn 16 root (path.take (ls + 1)) with
          | some par => if par.hasPorts then some par.children else none
          | none => none
        else some root
      match table with
      | none => some port
      | some t => match t.find? (wholeMatch leaf) with
        | some q => some q
        | none => some port

/-- `(*table)["self:"]` for the table the directory `dir` (ending in '/') names: the root table for "/",
    else `apropos(dir)->ports` (fixes/C13-scan-deps-self-port) -/
def selfPortIn (root : List PNode) (dir : Path) : Option PNode :=
  let table : Option (List PNode) :=
    if dir = ['/'] then some root
    else match aproposIn 16 root dir with
      | some par => if par.hasPorts then some par.children else none
      | none => none
  match table with
  | none => none
  | some t => t.find? fun p => p.name = ['s', 'e', 'l', 'f', ':']

/-- what `scan_deps` reads for the path it passes: parent levels (`…/`) through `Ports::apropos`, the
    path of a line or of a dependency through `port_of_path`, `<dir>self:` = the `self:` port of a table -/
def scanLookup (root : List PNode) (path : Path) : Option DepMeta :=
  if path.getLast? == some '/' then aproposTree root path
  else if path.length ≥ 6 ∧ path.drop (path.length - 6) = ['/', 's', 'e', 'l', 'f', ':'] then
    (selfPortIn root (path.take (path.length - 5))).map (·.deps)
  else (portOfPathIn root path).map (·.deps)

end Rtosc.Save
