/-
  C12 / C13 — the port tree as the dependency scan sees it: `Ports::apropos`
  (src/cpp/ports.cpp:755-774) with the part of `rtosc_match_path` (src/dispatch.c:72-109)
  that port names made of letters, `#N`, `/` and the `:args` suffix exercise.
  Used by the drivers to instantiate `App.apropos`; the theorems of C12/C13 take
  `App.apropos` abstractly (hypothesis `MetaCovers`), the lookup itself is C18's subject.
  A name containing `{` or `*` gives `none` for that port (never generated).
-/
import RtoscModel.Save.App
namespace Rtosc.Save

inductive PNode where
  | mk (name : Path) (deps : DepMeta) (children : List PNode)
deriving Repr, Inhabited

namespace PNode
def name : PNode → Path | mk n _ _ => n
def deps : PNode → DepMeta | mk _ m _ => m
def children : PNode → List PNode | mk _ _ c => c
/-- `port.ports != NULL` -/
def hasPorts (p : PNode) : Bool := p.name.contains '/'
end PNode

def isDigit (c : Char) : Bool := '0' ≤ c && c ≤ '9'

def atoiPrefix (s : Path) : Nat :=
  (s.takeWhile isDigit).foldl (fun n c => n * 10 + (c.toNat - 48)) 0

/-- `rtosc_match_path(pattern, msg, &path_end)`: `some path_end` on a match.
    `fuel` bounds the loop by the pattern length. -/
def matchPath : Nat → Path → Path → Option Path
  | 0, _, _ => none
  | fuel + 1, pat, msg =>
    match pat, msg with
    | ':' :: _, [] => some []
    | '{' :: _, _ => none
    | '*' :: _, _ => none
    | '/' :: pr, '/' :: mr =>
      match pr with
      | [] => some mr
      | ':' :: _ => some mr
      | _ => matchPath fuel pr mr
    | '#' :: pr, _ =>
      -- rtosc_match_number
      match pr, msg with
      | p0 :: _, m0 :: _ =>
        if isDigit p0 && isDigit m0 then
          if atoiPrefix msg < atoiPrefix pr then
            matchPath fuel (pr.dropWhile isDigit) (msg.dropWhile isDigit)
          else none
        else none
      | _, _ => none
    | [], [] => some []
    | p :: pr, m :: mr => if p = m then matchPath fuel pr mr else none
    | _, _ => none

def matchP (pat msg : Path) : Option Path := matchPath (pat.length + 2) pat msg

/-- `Ports::apropos(path)` on a table; `fuel` bounds the tree depth. -/
def aproposIn : Nat → List PNode → Path → Option PNode
  | 0, _, _ => none
  | fuel + 1, ports, path0 =>
    let path := match path0 with | '/' :: r => r | p => p
    -- first loop: ports with a '/' in their name
    let first := ports.findSome? fun p =>
      if p.name.contains '/' then
        match matchP p.name path with
        | some pathEnd =>
          -- (port.ports && strchr(path,'/')[1]) ? port.ports->apropos(path_end) : &port
          match path.dropWhile (· ≠ '/') with
          | _ :: _ :: _ => some (aproposIn fuel p.children pathEnd)
          | _ => some (some p)
        | none => none
      else none
    match first with
    | some r => r
    | none =>
      -- "This is the lowest level, now find the best port"
      if path.isEmpty then none else
      ports.find? fun p => path.isPrefixOf p.name || (matchP p.name path).isSome

def aproposTree (root : List PNode) (path : Path) : Option DepMeta :=
  (aproposIn 16 root path).map (·.deps)

end Rtosc.Save
