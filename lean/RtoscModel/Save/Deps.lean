/-
  C13 — model of the dependency scan and the topological sort of
  `dispatch_printed_messages` (src/cpp/savefile.cpp:464-627).

  Mirrors the code's data structures:
    message_v      : the scanned messages, in file order               (`List Path` of port names)
    message_map    : std::map<std::string, message_t*>, filled with `emplace`
                     (a second message with the same port name is not entered)  (`MsgMap`)
    dependees      : per message, the indices of the messages that must come later
    n_input_edges  : per message, number of incoming edges
    no_incoming_edge : the FIFO queue of Kahn's algorithm
  and its loops: `scan_deps` walks the port and all its parents, reads the three
  metadata keys "enabled by" / "depends" / "default depends", splits them at commas,
  makes the paths absolute by string surgery (`rel2abs`) and recurses through ports
  that have no message.

  The model follows the code *with* fixes/C13-scan-deps-subtree-lookup applied (parent
  levels are looked up with a trailing '/', see that patch's message), with
  fixes/C13-scan-deps-self-edge (an entry that resolves to the scanned path itself is skipped) and
  fixes/C13-scan-deps-self-port (the `self:` port of every level's table is read as well).
  No Mathlib import.
-/
import RtoscModel.Save.App
namespace Rtosc.Save

/-- `std::string::find_last_of('/')` -/
def lastSlash : Path → Option Nat
  | [] => none
  | c :: r => match lastSlash r with
    | some k => some (k + 1)
    | none => if c = '/' then some 0 else none

/-- `abs.find(',')`, `abs.resize(…)` -/
def cutComma (p : Path) : Path := p.takeWhile (· ≠ ',')

/-- the lambda `rel2abs` of `scan_deps`: directory of `base` + the relative path, cut at
    the first comma.  (`find_last_of` returning npos makes `resize(npos+1)` = `resize(0)`.) -/
def rel2abs (rel : Path) (base : Path) : Path :=
  let dir := match lastSlash base with
    | some k => base.take (k + 1)
    | none => []
  cutComma (dir ++ rel)

/-- The entries of a metadata value: the pointers `enabled_by` takes in
    `for(enabled_by = meta[k]; enabled_by; enabled_by = strchr(enabled_by+1, ','))`
    after `if(*enabled_by==',') ++enabled_by;` — each as the rest of the string from there.
    When the pointer then stands on the terminator (the value ends in ',', as `rDepends`
    writes it) the loop ends (`if(!*enabled_by) break;`, fixes/C13-scan-deps-empty-entry). -/
def depPtrs : Nat → Path → List Path
  | 0, _ => []
  | fuel + 1, p =>
    let q := match p with | ',' :: r => r | _ => p          -- if(*enabled_by==',') ++enabled_by
    match q with
    | [] => []                                              -- if(!*enabled_by) break
    | _ :: r =>
      -- strchr(enabled_by+1, ',')
      let nxt := r.dropWhile (· ≠ ',')
      match nxt with
      | [] => [q]
      | _ => q :: depPtrs fuel nxt

def depItems (v : Path) : List Path := depPtrs (v.length + 1) v

/-- the values `cur_portname` takes in the `for` loop of `scan_deps` (non-empty and
    containing a '/'), each `resize(last_slash)` of the previous one -/
def levels : Nat → Path → List Path
  | 0, _ => []
  | fuel + 1, cur =>
    if cur.isEmpty then [] else
    match lastSlash cur with
    | none => []
    | some k => cur :: levels fuel (cur.take k)

/-- the three keys in the order of `dep_types` -/
def DepMeta.keys (m : DepMeta) : List (Option Path) := [m.enabledBy, m.depends, m.defaultDepends]

abbrev MsgMap := List (Path × Nat)

/-- `std::string::operator<` (bytes; the model's paths are ASCII) -/
def pathLt : Path → Path → Bool
  | [], [] => false
  | [], _ :: _ => true
  | _ :: _, [] => false
  | a :: as, b :: bs =>
    if a.toNat < b.toNat then true else if b.toNat < a.toNat then false else pathLt as bs

/-- `message_map.emplace(name, &msg)`: keeps an existing entry -/
def MsgMap.emplace : MsgMap → Path → Nat → MsgMap
  | [], k, v => [(k, v)]
  | (k', v') :: r, k, v =>
    if k' = k then (k', v') :: r
    else if pathLt k k' then (k, v) :: (k', v') :: r
    else (k', v') :: MsgMap.emplace r k v

def MsgMap.find (m : MsgMap) (k : Path) : Option Nat := (List.find? (fun e => e.1 = k) m).map (·.2)

def buildMap : List Path → Nat → MsgMap → MsgMap
  | [], _, m => m
  | n :: r, i, m => buildMap r (i + 1) (m.emplace n i)

/-- `cur_portname.substr(0, last_slash+1)`: the directory of a level -/
def dirOf (p : Path) : Path :=
  match lastSlash p with
  | some k => p.take (k + 1)
  | none => []

/-- `cur_portname.c_str() + last_slash + 1`: the last component of a level -/
def leafOf (p : Path) : Path :=
  match lastSlash p with
  | some k => p.drop (k + 1)
  | none => p

def selfName : Path := ['s', 'e', 'l', 'f', ':']

/-- fixes/C13-scan-deps-self-port: the `self:` port of the table the level `lvl` stands in
    (`(*table)["self:"]`, `table` = the root table or `apropos(dir)->ports`; asked from `App.apropos` as
    `<dir>self:`), when it carries "enabled by" (`rSelf(T, rEnabledBy(x))`) and `lvl` is not that
    enabling port `x` itself. -/
def selfMeta (ap : Path → Option DepMeta) (lvl : Path) : Option DepMeta :=
  match ap (dirOf lvl ++ selfName) with
  | none => none
  | some m =>
    match m.enabledBy with
    | none => none
    | some en => if leafOf lvl = en then none else some m

/-- both parts defined: their concatenation -/
def optCat : Option (List Nat) → Option (List Nat) → Option (List Nat)
  | some a, some b => some (a ++ b)
  | _, _ => none

mutual
/-- `scan_deps(orig, cur, …)`: the messages (indices) that get `orig` appended to their
    `dependees`, in the order of the `push_back`s.  `none`: the recursion through ports
    without message does not end within `fuel` (cyclic metadata: the code recurses
    until the stack is exhausted). -/
def scanDeps (ap : Path → Option DepMeta) (mp : MsgMap) (fuel : Nat) (cur : Path) : Option (List Nat) :=
  match fuel with
  | 0 => none
  | fuel + 1 => scanLevels ap mp fuel cur (levels (cur.length + 1) cur) false
termination_by (fuel, 0, 0)

/-- the `for` loop over `cur_portname`; `parent` = not the first iteration; `start` = `scanned_portname`,
    the path the call was entered with.  At every level first the port's own metadata, then that of the
    `self:` port of its table (`for(meta_port : {port, self})`). -/
def scanLevels (ap : Path → Option DepMeta) (mp : MsgMap) (fuel : Nat) (start : Path)
    (lvls : List Path) (parent : Bool) : Option (List Nat) :=
  match lvls with
  | [] => some []
  | lvl :: rest =>
    let own :=
      match ap (if parent then lvl ++ ['/'] else lvl) with
      | none => some []
      | some m => scanKeys ap mp fuel start lvl m.keys
    let slf :=
      match selfMeta ap lvl with
      | none => some []
      | some m => scanKeys ap mp fuel start lvl m.keys
    optCat (optCat own slf) (scanLevels ap mp fuel start rest true)
termination_by (fuel, 4, lvls.length)

/-- `for(const char* dep_type : dep_types)` -/
def scanKeys (ap : Path → Option DepMeta) (mp : MsgMap) (fuel : Nat) (start lvl : Path)
    (keys : List (Option Path)) : Option (List Nat) :=
  match keys with
  | [] => some []
  | none :: ks => scanKeys ap mp fuel start lvl ks
  | some v :: ks =>
    match scanItems ap mp fuel start lvl (depItems v), scanKeys ap mp fuel start lvl ks with
    | some a, some b => some (a ++ b)
    | _, _ => none
termination_by (fuel, 3, keys.length)

/-- the inner `for` over the comma separated entries -/
def scanItems (ap : Path → Option DepMeta) (mp : MsgMap) (fuel : Nat) (start lvl : Path)
    (items : List Path) : Option (List Nat) :=
  match items with
  | [] => some []
  | it :: its =>
    let abs := rel2abs it lvl
    let here :=
      -- fixes/C13-scan-deps-self-edge: `if(abs == scanned_portname) continue;` — a sub-tree enabled by a
      -- port of its own (`rRecur(sub, rEnabledBy(sub/enabled))`): that port does not wait for itself
      if abs = start then some []
      else match mp.find abs with
      | some src => some [src]                       -- port is in the savefile
      | none => scanDeps ap mp fuel abs              -- transitive dependencies
    match here, scanItems ap mp fuel start lvl its with
    | some a, some b => some (a ++ b)
    | _, _ => none
termination_by (fuel, 2, items.length)
end

/-- `dependees[src].push_back(tgt)` -/
def pushDep (deps : List (List Nat)) (src tgt : Nat) : List (List Nat) :=
  deps.modify src (· ++ [tgt])

/-- the loop `for(pr : message_map) scan_deps(pr.first, pr.first, …)` -/
def addEdges (ap : Path → Option DepMeta) (mp : MsgMap) (fuel : Nat) :
    List (Path × Nat) → List (List Nat) → Option (List (List Nat))
  | [], deps => some deps
  | (name, idx) :: r, deps =>
    match scanDeps ap mp fuel name with
    | none => none
    | some srcs => addEdges ap mp fuel r (srcs.foldl (fun d s => pushDep d s idx) deps)

/-- all `dependees` vectors for a file with the given port names -/
def dependees (ap : Path → Option DepMeta) (fuel : Nat) (names : List Path) : Option (List (List Nat)) :=
  let mp := buildMap names 0 []
  addEdges ap mp fuel mp (List.replicate names.length [])

/-! ### Kahn's algorithm, as written -/

/-- `++n_input_edges[dep]` for every entry of every `dependees` vector -/
def countInputs (deps : List (List Nat)) : List Nat :=
  deps.foldl (fun cnt l => l.foldl (fun cnt d => cnt.modify d (· + 1)) cnt)
    (List.replicate deps.length 0)

/-- `--x` on `std::size_t` -/
def decSize (c : Nat) : Nat := if c = 0 then 18446744073709551615 else c - 1

/-- the indices with no incoming edge, ascending -/
def initialQueue (cnt : List Nat) : List Nat :=
  (List.range cnt.length).filter fun i => cnt.getD i 1 = 0

/-- `for(dependee : message_v[m_id].dependees) if(--n_input_edges[dependee] == 0) push` -/
def relax : List Nat → List Nat × List Nat → List Nat × List Nat
  | [], st => st
  | d :: ds, (cnt, q) =>
    let c := decSize (cnt.getD d 0)
    relax ds (cnt.set d c, if c = 0 then q ++ [d] else q)

/-- `while(!no_incoming_edge.empty())`; returns `order` and the final counters.
    `none`: the loop does not end within the fuel (never happens with fuel > number of
    messages, see `kahn_fuel_suffices`). -/
def kahnLoop (deps : List (List Nat)) : Nat → List Nat → List Nat → List Nat → Option (List Nat × List Nat)
  | _, [], cnt, order => some (order, cnt)
  | 0, _ :: _, _, _ => none
  | fuel + 1, m :: q, cnt, order =>
    let (cnt', q') := relax (deps.getD m []) (cnt, q)
    kahnLoop deps fuel q' cnt' (order ++ [m])

def kahn (deps : List (List Nat)) : Option (List Nat) :=
  let cnt := countInputs deps
  (kahnLoop deps (deps.length + 1) (initialQueue cnt) cnt []).map (·.1)

end Rtosc.Save
