/-
  C09 — specification side of the dispatch clause ("every reported address, sent as a
  message, is dispatched to the very port it was reported with"), stated against the model
  of `Ports::dispatch` that the correspondence driver runs (`dispatchSim`, Walk/Dispatch.lean).

  * `tagsAdmitted ty tags`: the type rule of C05 (`types_exact`) for one port — no type part,
    or the type string is one of the alternatives, or it extends the last alternative (which
    is not empty).
  * `typesAlong ix ts`: the type parts of the ports on the index path `ix`, root first —
    the sub-tree ports on the way (`rtosc_match` checks *their* type part against the same
    message) and the reported leaf.
  * `admittedAlong tags ix ts`: every one of them admits `tags`.
  * `LeavesNamed ts`: no leaf name is empty in front of a type part (`:i` as a whole name).
    Such a leaf below a sub-tree is reported under the sub-tree's own address ("/a/"), and
    `rtosc_argument_string` applied to the empty rest of that address skips its first byte
    unseen: it takes the type string for the address (`dispatch_empty_leaf_counterexample`
    in Props/C09.lean).
  No Mathlib import.
-/
import RtoscModel.Walk.Spec
import RtoscModel.Walk.Dispatch
namespace Rtosc.Walk
open Rtosc Rtosc.Path Rtosc.Match

/-- C05's type rule for one port (`types_exact`) -/
def tagsAdmitted (ty : Option (List Bytes)) (tags : Bytes) : Bool :=
  match ty with
  | none => true
  | some ts =>
    ts.contains tags ||
    match ts.getLast? with
    | some l => !l.isEmpty && l.isPrefixOf tags
    | none => false

/-- the type parts of the ports on an index path, root first -/
def typesAlong : List Nat → List STree → List (Option (List Bytes))
  | [], _ => []
  | i :: ix, ts =>
    match ts[i]? with
    | none => []
    | some (.leaf w _) => [w.types]
    | some (.sub w _ kids) => w.types :: typesAlong ix kids

/-- every port on the index path — sub-tree ports included — admits the type string -/
def admittedAlong (tags : Bytes) (ix : List Nat) (ts : List STree) : Bool :=
  (typesAlong ix ts).all (tagsAdmitted · tags)

/-- a leaf name that is not just a type part -/
def WName.named (w : WName) : Bool := !(w.head.isEmpty && w.parts.isEmpty && !w.slash && w.types.isSome)

mutual
def STree.named : STree → Bool
  | .leaf w _ => w.named
  | .sub _ _ kids => namedList kids
def namedList : List STree → Bool
  | [] => true
  | t :: r => t.named && namedList r
end

/-- no leaf name is empty in front of a type part -/
def LeavesNamed (ts : List STree) : Prop := namedList ts = true

instance (ts : List STree) : Decidable (LeavesNamed ts) := by unfold LeavesNamed; infer_instance

mutual
def STree.subsUntyped : STree → Bool
  | .leaf _ _ => true
  | .sub w _ kids => w.types.isNone && subsUntypedList kids
def subsUntypedList : List STree → Bool
  | [] => true
  | t :: r => t.subsUntyped && subsUntypedList r
end

/-- no sub-tree port declares argument types (what `rRecur*` generate) -/
def SubsUntyped (ts : List STree) : Prop := subsUntypedList ts = true

instance (ts : List STree) : Decidable (SubsUntyped ts) := by unfold SubsUntyped; infer_instance

/-- the leaf name at the end of an index path -/
def leafAt : List Nat → List STree → Option WName
  | [], _ => none
  | i :: ix, ts =>
    match ts[i]? with
    | none => none
    | some (.leaf w _) => if ix.isEmpty then some w else none
    | some (.sub _ _ kids) => leafAt ix kids

/-- rows with pairwise prefix-unrelated heads (`headsApart`) -/
def pairwiseHeads : List STree → Bool
  | [] => true
  | t :: r => r.all (fun u => headsApart t.name u.name) && pairwiseHeads r

mutual
def headsOkList : List STree → Bool
  | [] => true
  | t :: r => t.headsOk && headsOkList r
def STree.headsOk : STree → Bool
  | .leaf _ _ => true
  | .sub _ _ kids => pairwiseHeads kids && headsOkList kids
end

/-- decidable sufficient condition for `SiblingsApart`: in every table the texts in front of the
    first '#' are pairwise not prefixes of one another -/
def HeadsApart (ts : List STree) : Prop := (pairwiseHeads ts && headsOkList ts) = true

instance (ts : List STree) : Decidable (HeadsApart ts) := by unfold HeadsApart; infer_instance

/-- what follows the (rest of the) address in a message buffer: `k` further padding NULs, the
    type string behind its ',', its terminator, the rest of the buffer -/
def tailOf (k : Nat) (tags rest : Bytes) : Bytes := List.replicate k 0 ++ 44 :: (tags ++ 0 :: rest)

end Rtosc.Walk
