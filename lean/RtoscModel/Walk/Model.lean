/-
  C09 — model of the port-tree walker:
    rtosc::walk_ports, walk_ports_recurse0, walk_ports_recurse, port_is_enabled
    (src/cpp/ports.cpp) and bundle_foreach (include/rtosc/bundle-foreach.h),
  with the repairs fixes/C09-recurse0-strchr.patch (the search for '#' does not start
  behind the name's terminator) and fixes/C09-recurse0-index-text.patch (the text behind
  a `#N` of a sub-tree name is appended as it is; the unrepaired code wrote "N/" and
  swallowed a following '/', so `a#2b/` was reported as "a0/b/") and
  fixes/C09-enabled-subport-runtime.patch (see `portIsEnabled`) and
  fixes/C09-enabled-loc-copy-size.patch (the scratch copy of the enabling port's address is as
  large as what it holds: `buffer_size` is not looked at anywhere) applied.  The library is
  modelled as built with NDEBUG (the asserts on `buffer_size` and on `old_end - name_buffer`
  are not part of the model).

  * A port table is a `List PortT` (C18's tree type: name, metadata block, `ports != NULL`,
    sub-table).  A `const Port*` handed to the walker callback is the *index path* of the
    port (row in the root table, row in that port's sub-table, …).
  * All functions work on the one shared name buffer (`Buf`, Walk/Buf.lean): `oldEnd`,
    `wh` (write_head) are offsets into it; `rh` (read_head) is a suffix of the port name.
  * The walker callback is "record `(port, the C string in name_buffer)`"; the result of a
    walk is the list of these calls in order together with the buffer afterwards.
  * The runtime object is abstract (`Obj`): what a sub-tree port's callback stores in
    `RtData::obj` when it is sent `<relative address>pointer` (NULL or the child object),
    and what a toggle port replies.  The query path (`get_value_from_runtime`, `Capture`,
    the message that is built) is not modelled: the answer is looked up in the object.
    What is modelled of `port_is_enabled`: the metadata lookup of "enabled by" (C17's
    reader), the decision "sub-port or sibling", the lookups `Ports::operator[]` (C18),
    the construction and collapsing (C18) of the enabling port's address, and the extra
    walker call for an enabling port that lives inside what it disables.
  No Mathlib import: linked into drv_walk.
-/
import RtoscModel.Walk.Buf
import RtoscModel.Path.Apropos
import RtoscModel.Meta
namespace Rtosc.Walk
open Rtosc Rtosc.Path

/-- one invocation of the walker callback: the port (index path) and the address -/
abbrev Call := List Nat × Bytes

/-- what an enabling port replies when it is queried: `T`, `F` (a toggle) or an integer
    (`rParamI`, zynaddsubfx' `Penabled`) -/
inductive Ans where
  | T
  | F
  | i (v : Int)
deriving DecidableEq, Repr

/-- `rval.type == 'T' || (rval.type == 'i' && rval.val.i != 0)` -/
def Ans.enabled : Ans → Bool
  | .T => true
  | .F => false
  | .i v => v != 0

/-- abstract runtime object -/
inductive Obj where
  | mk (toggles : List (Bytes × Ans)) (kids : List (Bytes × Option Obj))

namespace Obj
def toggles : Obj → List (Bytes × Ans) | mk t _ => t
def kids : Obj → List (Bytes × Option Obj) | mk _ k => k
/-- what `port_is_enabled` makes of the reply of the enabling port with this name (up to ':');
    `none`: not defined -/
def toggle (o : Obj) (key : Bytes) : Option Bool := (o.toggles.lookup key).map Ans.enabled
/-- `RtData::obj` after the callback of a sub-tree port was sent `<rel>pointer`;
    `none`: not defined, `some none`: NULL -/
def kid (o : Obj) (rel : Bytes) : Option (Option Obj) := o.kids.lookup rel
end Obj

structure Opts where
  expand : Bool := true      -- expand_bundles
  ranges : Bool := false

/-- `walker(&p, name_buffer, …)` -/
def report (ix : List Nat) (b : Buf) : M Call :=
  match cstrAt b 0 with
  | .error e => .error e
  | .ok s => .ok (ix, s)

/-! ### bundle_foreach (leaf names with '#') -/

/-- `while(*name != '#') *pos++ = *name++;` — reaching the terminator means copying it
    and reading on behind the name -/
def bfCopyToHash : Bytes → Buf → Nat → M (Bytes × Buf × Nat)
  | [], _, _ => .error .oob
  | c :: r, b, pos =>
    if c = 35 then .ok (c :: r, b, pos)
    else match wr b pos c with
      | .error e => .error e
      | .ok b' => bfCopyToHash r b' (pos + 1)

/-- the `for(unsigned i=0; i<iterations; ++i)` loop of `bundle_foreach`; `pos2` is carried
    from one iteration to the next as in the code -/
def bfLoop (o : Opts) (ix : List Nat) (rest : Bytes) (max pos : Nat) :
    Nat → Nat → Nat → Buf → M (List Call × Buf × Nat)
  | 0, _, pos2, b => .ok ([], b, pos2)
  | n + 1, i, pos2, b => do
    let (b1, start) ←
      if o.ranges then do
        let (b', k) ← snprintfAt b pos 16 ([91, 48, 44] ++ fmtD ((max + 2 ^ 32 - 1) % 2 ^ 32) ++ [93])
        pure (b', pos2 + k)
      else if o.expand then do
        let (b', k) ← snprintfAt b pos 16 (fmtD i)
        pure (b', pos + k)
      else pure (b, pos2)
    let (b2, p2) ← copyName rest b1 start          -- everything behind the '#N'
    let b3 ← wr b2 p2 0
    let c ← report ix b3
    let (cs, b4, p4) ← bfLoop o ix rest max pos n (i + 1) p2 b3
    pure (c :: cs, b4, p4)

/-- `bundle_foreach(p, p.name, old_end, name_buffer, …, walker, expand_bundles, true, ranges)` -/
def bundleForeach (o : Opts) (ix : List Nat) (name : Bytes) (oldEnd : Nat) (b : Buf) :
    M (List Call × Buf) := do
  let (nm, b1, pos) ← bfCopyToHash name b oldEnd
  let max := atoiC (nm.drop 1)
  let iterations := if o.expand && !o.ranges then max else 1
  let rest := (nm.drop 1).dropWhile isDigit            -- while(isdigit(*++name)) ;
  let (cs, b2, _) ← bfLoop o ix rest max pos iterations 0 pos b1
  let b3 ← wr b2 oldEnd 0                               -- cut_afterwards
  pure (cs, b3)

/-! ### walk_ports_recurse0 (sub-tree names) -/

/-- `strchr(s, '#') - s` -/
def findHash : Bytes → Option Nat
  | [] => none
  | c :: r => if c = 35 then some 0 else (findHash r).map (· + 1)

/-- `*read_head ? strchr(read_head + 1,'#') : NULL`, as an offset from `read_head` -/
def nextHash : Bytes → Option Nat
  | [] => none
  | _ :: t => (findHash t).map (· + 1)

/-- `while(to_copy-->0 && *read_head != ':') *write_head++ = *read_head++;` -/
def copyN : Nat → Bytes → Buf → Nat → M (Bytes × Buf × Nat)
  | 0, rh, b, wh => .ok (rh, b, wh)
  | n + 1, rh, b, wh =>
    match rh with
    | [] => .error .oob                       -- would copy the terminator and read on
    | c :: r =>
      if c = 58 then .ok (c :: r, b, wh)
      else match wr b wh c with
        | .error e => .error e
        | .ok b' => copyN n r b' (wh + 1)

/-- `for(unsigned i=0; i<max; ++i) body(i)` threading the buffer -/
def loopN (body : Nat → Buf → M (List Call × Buf)) : Nat → Nat → Buf → M (List Call × Buf)
  | 0, _, b => .ok ([], b)
  | n + 1, i, b => do
    let (c1, b1) ← body i b
    let (c2, b2) ← loopN body n (i + 1) b1
    pure (c1 ++ c2, b2)

/-- `walk_ports_recurse0`; `k` is the call of `walk_ports_recurse` at the end.  Every
    recursive call has consumed at least the '#', so `name.length + 1` is enough fuel. -/
def recurse0 (k : Buf → M (List Call × Buf)) (o : Opts) :
    Nat → Bytes → Nat → Buf → M (List Call × Buf)
  | 0, _, _, _ => .error .undef
  | f + 1, rh, wh, b =>
    -- hash_ptr = *read_head ? strchr(read_head + 1,'#') : NULL;  to_copy = hash_ptr ? … : strlen(read_head)
    match copyN ((nextHash rh).getD rh.length) rh b wh with
    | .error e => .error e
    | .ok (rh1, b1, wh1) =>
      match nextHash rh with
      | some _ =>
        match rh1 with
        | [] => .error .oob                    -- ++read_head behind the terminator
        | _ :: t =>
          let max := atoiC t
          let rh2 := t.dropWhile isDigit
          if o.ranges then
            match snprintfAt b1 wh1 32 ([91, 48, 44] ++ fmtD ((max + 2 ^ 32 - 1) % 2 ^ 32) ++ [93]) with
            | .error e => .error e
            | .ok (b2, n) => recurse0 k o f rh2 (wh1 + n) b2
          else
            loopN (fun i bb =>
              match snprintfAt bb wh1 32 (fmtD i) with
              | .error e => .error e
              | .ok (b2, n) => recurse0 k o f rh2 (wh1 + n) b2) max 0 b1
      | none =>
        -- if(write_head[-1] != '/') *write_head++ = '/';  *write_head = 0;
        if wh1 = 0 then .error .oob
        else match rd b1 (wh1 - 1) with
          | .error e => .error e
          | .ok c =>
            if c ≠ 47 then
              match wr b1 wh1 47 with
              | .error e => .error e
              | .ok b2 =>
                match wr b2 (wh1 + 1) 0 with
                | .error e => .error e
                | .ok b3 => k b3
            else
              match wr b1 wh1 0 with
              | .error e => .error e
              | .ok b3 => k b3

/-! ### port_is_enabled -/

def ENABLED_BY : Bytes := [101, 110, 97, 98, 108, 101, 100, 32, 98, 121]   -- "enabled by"
def SELF : Bytes := [115, 101, 108, 102, 58]                                -- "self:"
def DOTDOTSLASH : Bytes := [46, 46, 47]                                     -- "../"

/-- `for( ; *n && (*n == *e) && *n != '/' && *e != '/'; ++n, ++e) ;` then
    `subport = (*e == '/' && *n == '/')`; returns `(subport, e)` -/
def subportScan : Bytes → Bytes → Bool × Bytes
  | n, e =>
    match n, e with
    | c :: nr, d :: er =>
      if c = d ∧ c ≠ 47 then subportScan nr er else (c = 47 ∧ d = 47, d :: er)
    | _, e => (false, e)

/-- `port_is_enabled(port, loc, loc_size, base, runtime, relative_to_parent, walker, data)`.
    `port` is `(row in base, the port)` or NULL; `path` is the index path of the table
    `base`; `portRt` is the port's own object (`port_runtime`, with the repair
    fixes/C09-enabled-subport-runtime.patch: a toggle *inside* the sub-tree is asked on the
    sub-tree's object, not on its parent's).  Result: the return value and the walker calls made. -/
def portIsEnabled (port : Option (Nat × PortT)) (b : Buf) (base : List PortT) (path : List Nat)
    (rt : Option Obj) (rel : Bool) (portRt : Option Obj := none) : M (Bool × List Call) :=
  match port, rt with
  | some (_, p), some obj =>
    match Meta.portMeta p.metadata with
    | none => .error .oob
    | some mptr =>
      match Meta.lookup mptr ENABLED_BY with
      | none => .error .oob
      | some none => .ok (true, [])
      | some (some ep) =>
        let (subport, e) := subportScan p.name ep
        let askStr := if subport then e.drop 1 else ep
        -- ask_ports = subport ? *base[port->name]->ports : base
        let askPorts : M (List PortT × List Nat) :=
          if subport then
            match index base p.name with
            | none => .error .oob
            | some j =>
              match base[j]? with
              | none => .error .oob
              | some q => if q.hasPorts then .ok (q.children, path ++ [j]) else .error .oob
          else .ok (base, path)
        match askPorts with
        | .error er => .error er
        | .ok (aps, apath) =>
          match index aps askStr with
          | none => .error .oob                 -- ask_port == NULL is dereferenced
          | some k =>
            match aps[k]? with
            | none => .error .oob
            | some ask =>
              match cstrAt b 0 with
              | .error er => .error er
              | .ok loc =>
                let locCopy := loc ++ (if rel then DOTDOTSLASH else []) ++ ep
                match collapseStr (locCopy ++ [0]) with
                | none => .error .oob
                | some (_, collapsed) =>
                  -- ask_runtime = (subport && port_runtime) ? port_runtime : runtime
                  let askObj := if subport then portRt.getD obj else obj
                  match askObj.toggle (lit ask.name) with
                  | none => .error .undef
                  | some res =>
                    if !res && (subport || !rel) then .ok (res, [(apath ++ [k], collapsed)])
                    else .ok (res, [])
  | _, _ => .ok (true, [])

/-! ### walk_ports, walk_ports_recurse -/

/-- the part of `walk_ports` in front of the loop: the root '/', `old_end`, the test of the
    table's own `self:` port; then `loop old_end buffer` -/
def walkTable (loop : Nat → Buf → M (List Call × Buf)) (base : List PortT) (path : List Nat)
    (rt : Option Obj) (b : Buf) : M (List Call × Buf) := do
  let c0 ← rd b 0
  let b1 ← if c0 = 0 then wr b 0 47 else pure b
  let oldEnd ← strlenAt b1 0
  let self := (index base SELF).bind fun j => (base[j]?).map fun p => (j, p)
  let (en, cs) ← portIsEnabled self b1 base path rt false
  if en then do
    let (cs2, b2) ← loop oldEnd b1
    pure (cs ++ cs2, b2)
  else pure (cs, b1)

/-- `char buf[1024]`, `char locbuf[1024]` of `walk_ports_recurse` -/
def SCRATCH : Nat := 1024

/-- `walk_ports_recurse` up to the call of `walk_ports`: the child runtime object and the
    "enabled by" test of the sub-tree port.  `none`: the sub-tree is skipped.  With a runtime
    object the address is copied into a scratch buffer of `SCRATCH` bytes and "pointer", a NUL,
    "," and a NUL are appended: an address of more than 1014 characters runs off that buffer
    (the asserts `old_end - name_buffer <= 255` and `1024 - strlen(buf) >= 8` are compiled out
    under NDEBUG, which is what is modelled). -/
def recurseGate (p : PortT) (i : Nat) (b : Buf) (base : List PortT) (path : List Nat)
    (rt : Option Obj) (oldEnd : Nat) : M (Option (Option Obj) × List Call) :=
  match rt with
  | none => .ok (some none, [])
  | some obj =>
    match cstrAt b 0 with
    | .error e => .error e
    | .ok loc =>
      -- char buf[1024] takes the address, "pointer", a NUL, "," and a NUL
      if loc.length + 10 > SCRATCH then .error .oob else
      match cstrAt b oldEnd with
      | .error e => .error e
      | .ok relAddr =>
        match obj.kid relAddr with
        | none => .error .undef
        | some none => .ok (none, [])                       -- r.obj == NULL
        | some (some child) =>
          match portIsEnabled (some (i, p)) b base path rt true (some child) with
          | .error e => .error e
          | .ok (en, cs) => .ok (if en then some (some child) else none, cs)

mutual
/-- the loop `for(const Port &p: *base)` of `walk_ports`, from row `i` on -/
def walkList (o : Opts) (base : List PortT) (path : List Nat) (rt : Option Obj) (oldEnd : Nat) :
    List PortT → Nat → Buf → M (List Call × Buf)
  | [], _, b => .ok ([], b)
  | p :: rest, i, b =>
    match walkPort o base path rt oldEnd i p b with
    | .error e => .error e
    | .ok (c1, b1) =>
      match erase b1 oldEnd with                   -- "remove the rest of the path"
      | .error e => .error e
      | .ok b2 =>
        match walkList o base path rt oldEnd rest (i + 1) b2 with
        | .error e => .error e
        | .ok (c2, b3) => .ok (c1 ++ c2, b3)
/-- one iteration of that loop (without the final erasing) -/
def walkPort (o : Opts) (base : List PortT) (path : List Nat) (rt : Option Obj) (oldEnd i : Nat) :
    PortT → Buf → M (List Call × Buf)
  | .mk name md hasPorts cs, b =>
    if hasPorts then
      recurse0 (fun b' =>
          -- walk_ports_recurse
          match recurseGate (.mk name md hasPorts cs) i b' base path rt oldEnd with
          | .error e => .error e
          | .ok (none, calls) => .ok (calls, b')
          | .ok (some rt', calls) =>
            match walkTable (fun oe bb => walkList o cs (path ++ [i]) rt' oe cs 0 bb) cs (path ++ [i]) rt' b' with
            | .error e => .error e
            | .ok (c2, b2) => .ok (calls ++ c2, b2))
        o (name.length + 1) name oldEnd b
    else if name.contains 35 then
      bundleForeach o (path ++ [i]) name oldEnd b
    else
      match scat b name with
      | .error e => .error e
      | .ok b1 =>
        match report (path ++ [i]) b1 with
        | .error e => .error e
        | .ok c => .ok ([c], b1)
end

/-- `rtosc::walk_ports(&base, name_buffer, buffer_size, data, walker, expand_bundles, runtime, ranges)` -/
def walkPorts (o : Opts) (base : List PortT) (rt : Option Obj) (b : Buf) : M (List Call × Buf) :=
  walkTable (fun oe bb => walkList o base [] rt oe base 0 bb) base [] rt b

end Rtosc.Walk
