/-
  C09 — a condition on the *names* of a tree under which every digit run of every reported
  address is below 2^31 (C05's `IdxBounded`, the hypothesis of the dispatch theorems).
  `IdxBounded` does not follow from `TreeWF` (literal text may hold digit runs of any length:
  `dispatch_needs_idxBounded`); it does follow when in every name no digit run of the literal text,
  together with the number that may follow it, is longer than nine characters.
  No Mathlib import.
-/
import RtoscModel.Walk.Spec
namespace Rtosc.Walk
open Rtosc Rtosc.Path Rtosc.Match

/-- no digit run longer than `k`, when `acc` digits stand in front of the string -/
def runsLe (k : Nat) : Nat → Bytes → Bool
  | _, [] => true
  | acc, c :: r => if Match.isDigit c then decide (acc + 1 ≤ k) && runsLe k (acc + 1) r else runsLe k 0 r

/-- length of the digit run the string ends in, when `acc` digits stand in front of it -/
def trail : Nat → Bytes → Nat
  | acc, [] => acc
  | acc, c :: r => if Match.isDigit c then trail (acc + 1) r else trail 0 r

/-- the pieces `#N text`: the index written for `#N` has at most as many digits as `N` -/
def partsRuns (k : Nat) : Nat → List (Bytes × Bytes) → Bool
  | _, [] => true
  | acc, (ds, t) :: r => decide (acc + ds.length ≤ k) && runsLe k 0 t && partsRuns k (trail 0 t) r

/-- in the name, a digit run of literal text plus the digits of a following `#N` never exceeds
    nine characters -/
def WName.digitsShort (w : WName) : Bool := runsLe 9 0 w.head && partsRuns 9 (trail 0 w.head) w.parts

mutual
def STree.digitsShort : STree → Bool
  | .leaf w _ => w.digitsShort
  | .sub w _ kids => w.digitsShort && digitsShortList kids
def digitsShortList : List STree → Bool
  | [] => true
  | t :: r => t.digitsShort && digitsShortList r
end

/-- every name of the tree keeps its digit runs short (decidable; implies `IdxBounded` for every
    reported address: `reported_idxBounded`) -/
def DigitsShort (ts : List STree) : Prop := digitsShortList ts = true

instance (ts : List STree) : Decidable (DigitsShort ts) := by unfold DigitsShort; infer_instance

end Rtosc.Walk
