/-
  C09 — what the correspondence harness observes when it sends a reported address back as
  a message: `Ports::dispatch` without a location buffer ("simple case": the callback of
  every row whose pattern `rtosc_match` accepts is called, src/cpp/ports.cpp) over C05's
  model of `rtosc_match`, together with the harness' own callbacks: a leaf callback
  records its port, the callback of a sub-tree port skips as many '/'-terminated
  components of the message as its name has and dispatches the rest to its sub-table.
  (The theorems of Props/C09.lean talk about `rtosc_match_path` directly; this file only
  serves the line protocol.)  No Mathlib import: linked into drv_walk.
-/
import RtoscModel.Walk.Model
namespace Rtosc.Walk
open Rtosc Rtosc.Path

/-- `while(*msg && *msg!='/') ++msg; msg = *msg ? msg+1 : msg;`, k times -/
def snip : Nat → Bytes → Bytes
  | 0, m => m
  | k + 1, m =>
    let m1 := m.dropWhile (fun c => c != 0 && c != 47)
    snip k (match m1 with
      | 47 :: r => r
      | _ => m1)

/-- number of '/' in the name in front of ':' -/
def slashCount (name : Bytes) : Nat := ((lit name).filter (· == 47)).length

mutual
def dispList (path : List Nat) : List PortT → Nat → Bytes → Option (List (List Nat))
  | [], _, _ => some []
  | p :: r, i, m =>
    match dispPort path i p m with
    | none => none
    | some a =>
      match dispList path r (i + 1) m with
      | none => none
      | some b => some (a ++ b)
def dispPort (path : List Nat) (i : Nat) : PortT → Bytes → Option (List (List Nat))
  | .mk name _ hasPorts cs, m =>
    match Match.full (name ++ [0]) m with
    | none => none                                      -- the matcher leaves the message
    | some (false, _) => some []
    | some (true, _) =>
      if hasPorts then dispList (path ++ [i]) cs 0 (snip (slashCount name) m)
      else some [path ++ [i]]
end

/-- the message the harness builds for an address: `tags` with all-zero arguments -/
def zeroMsg (addr tags : Bytes) : Bytes :=
  Match.mkMsg addr tags (List.replicate ((tags.map Match.zeroArgSize).sum) 0)

/-- `ports.dispatch(msg, d, true)`: the leading '/' is skipped -/
def dispatchSim (tab : List PortT) (addr tags : Bytes) : Option (List (List Nat)) :=
  let m := zeroMsg addr tags
  dispList [] tab 0 (match m with
    | 47 :: r => r
    | _ => m)

end Rtosc.Walk
