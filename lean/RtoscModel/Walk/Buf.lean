/-
  C09 — the caller's name buffer and the libc fragments the port-tree walker uses
  (src/cpp/ports.cpp: scat, the "remove the rest of the path" loop of walk_ports;
  glibc: strlen, atoi, snprintf with "%d").

  Conventions
  * The name buffer is a `Buf = List UInt8` whose length is the *real* size of the
    block the caller handed in.  A pointer into it is an offset.  Every access goes
    through `rd` / `wr`; an access at an offset `≥ length` is an out-of-bounds access and
    makes the whole computation end in `Err.oob` — it is never defaulted.
  * A port name (`const char*` into read-only memory) is the list of its bytes in front
    of the terminator; a pointer into it is a suffix, `[]` is the pointer *at* the
    terminator.  Moving past `[]` and reading there is `Err.oob`.
  No Mathlib import: linked into drv_walk.
-/
import RtoscModel.Match.Path
namespace Rtosc.Walk
open Rtosc

inductive Err where
  | oob      -- an access outside a buffer / through a NULL pointer
  | undef    -- the abstract runtime does not define what the real callback would answer
deriving DecidableEq, Repr

abbrev M := Except Err

abbrev Buf := List UInt8

/-- did the computation end in an out-of-bounds access? -/
def isOob {α : Type} : M α → Bool
  | .error .oob => true
  | _ => false

def rd (b : Buf) (i : Nat) : M UInt8 :=
  match b[i]? with
  | some c => .ok c
  | none => .error .oob

def wr (b : Buf) (i : Nat) (c : UInt8) : M Buf :=
  if i < b.length then .ok (b.set i c) else .error .oob

/-- `strlen` on a suffix of the buffer (`oob`: no terminator inside the block) -/
def strlenGo : Bytes → M Nat
  | [] => .error .oob
  | c :: r => if c = 0 then .ok 0 else (strlenGo r).map (· + 1)

/-- `strlen(buf + i)` -/
def strlenAt (b : Buf) (i : Nat) : M Nat := strlenGo (b.drop i)

/-- the C string at offset `i` (what a callback that is handed `buf + i` sees) -/
def cstrGo : Bytes → M Bytes
  | [] => .error .oob
  | c :: r => if c = 0 then .ok [] else (cstrGo r).map (c :: ·)

def cstrAt (b : Buf) (i : Nat) : M Bytes := cstrGo (b.drop i)

/-- `while(*src && *src != ':') *dst++ = *src++;` — returns the buffer and `dst` -/
def copyName : Bytes → Buf → Nat → M (Buf × Nat)
  | [], b, pos => .ok (b, pos)
  | c :: r, b, pos =>
    if c = 58 then .ok (b, pos)
    else match wr b pos c with
      | .error e => .error e
      | .ok b' => copyName r b' (pos + 1)

/-- plain sequential store of a byte string (the body of `snprintf`) -/
def writeBytes : Bytes → Buf → Nat → M Buf
  | [], b, _ => .ok b
  | c :: r, b, pos =>
    match wr b pos c with
    | .error e => .error e
    | .ok b' => writeBytes r b' (pos + 1)

/-- `scat(dest, src)`: `while(*dest) dest++; while(*src && *src!=':') *dest++ = *src++; *dest = 0;` -/
def scat (b : Buf) (src : Bytes) : M Buf := do
  let n ← strlenAt b 0
  let (b', pos) ← copyName src b n
  wr b' pos 0

/-- `char *tmp = old_end; while(*tmp) *tmp++=0;` (every iteration moves `tmp` forward, so
    `length + 1` iterations suffice: `rd` fails before the fuel runs out) -/
def eraseGo : Nat → Buf → Nat → M Buf
  | 0, _, _ => .error .oob
  | f + 1, b, pos =>
    match rd b pos with
    | .error e => .error e
    | .ok c =>
      if c = 0 then .ok b
      else match wr b pos 0 with
        | .error e => .error e
        | .ok b' => eraseGo f b' (pos + 1)

def erase (b : Buf) (oldEnd : Nat) : M Buf := eraseGo (b.length + 1) b oldEnd

/-! ### libc -/

def isDigit (c : UInt8) : Bool := Match.isDigit c

/-- `isspace` in the C locale -/
def isSpace (c : UInt8) : Bool := c = 32 || (9 ≤ c && c ≤ 13)

/-- is the first character a '-' ? -/
def signNeg : Bytes → Bool
  | 45 :: _ => true
  | _ => false

/-- skip one optional sign -/
def skipSign : Bytes → Bytes
  | 45 :: r => r
  | 43 :: r => r
  | s => s

/-- `(unsigned) atoi(s)`: glibc's `atoi` is `(int) strtol(s, NULL, 10)` — white space,
    an optional sign, the digit run, saturation at `LONG_MAX`/`LONG_MIN`, then the low 32
    bits. -/
def atoiC (s : Bytes) : Nat :=
  let s1 := s.dropWhile isSpace
  let v := Match.decVal ((skipSign s1).takeWhile isDigit)
  if signNeg s1 then (2 ^ 32 - (min v (2 ^ 63)) % 2 ^ 32) % 2 ^ 32
  else (min v (2 ^ 63 - 1)) % 2 ^ 32

/-- decimal digits of `n`, most significant first (`fuel ≥` number of digits - 1) -/
def natDigitsF : Nat → Nat → Bytes
  | 0, n => [UInt8.ofNat (48 + n % 10)]
  | f + 1, n => if n < 10 then [UInt8.ofNat (48 + n)] else natDigitsF f (n / 10) ++ [UInt8.ofNat (48 + n % 10)]

def natDigits (n : Nat) : Bytes := natDigitsF n n

/-- `"%d"` applied to an `unsigned` value `u < 2^32` (read as `int`) -/
def fmtD (u : Nat) : Bytes :=
  if u < 2 ^ 31 then natDigits u else 45 :: natDigits (2 ^ 32 - u)

/-- `snprintf(buf + pos, size, …)` producing the text `s`: stores at most `size - 1`
    characters and a NUL, returns the full length of `s`. -/
def snprintfAt (b : Buf) (pos size : Nat) (s : Bytes) : M (Buf × Nat) :=
  if size = 0 then .ok (b, s.length)
  else
    let t := s.take (size - 1)
    match writeBytes t b pos with
    | .error e => .error e
    | .ok b' =>
      match wr b' (pos + t.length) 0 with
      | .error e => .error e
      | .ok b'' => .ok (b'', s.length)

end Rtosc.Walk
