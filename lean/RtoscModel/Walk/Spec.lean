/-
  C09 — specification side: the port names the walk is specified for, the tree built
  from them, and `enumerate`, the list of `(leaf, concrete address)` the statement fixes.

  A port name is (Guide.adoc "Path Specifiers", generalised to several components as in
  test/walk-ports.cpp):

      head  #N1 text1  #N2 text2 …  #Nk textk  [ '/' ]  [ ':' types … ]

  `head` and the `text`s are literal text (any characters but NUL `# { * :`; they may
  contain '/'), the `N`s are decimal numbers.  `WName` keeps these pieces; `WName.toPat`
  is the same name as a pattern of C05, so that C05's `PathSpec` says what dispatch accepts.

  `enumerate` expands every `#N` to `0 … N-1`, leftmost enumeration outermost, ports in
  table order, a sub-tree before the next row.
-/
import RtoscModel.Walk.Model
import RtoscModel.Match.Spec
namespace Rtosc.Walk
open Rtosc Rtosc.Path Rtosc.Match

structure WName where
  head : Bytes                       -- text in front of the first '#'
  parts : List (Bytes × Bytes)       -- (digits of N, text behind it)
  slash : Bool                       -- trailing '/'
  types : Option (List Bytes)        -- `:t1:t2…`
deriving Repr, DecidableEq

def renderParts : List (Bytes × Bytes) → Bytes
  | [] => []
  | (ds, t) :: r => 35 :: ds ++ t ++ renderParts r

def slashIf (b : Bool) : Bytes := if b then [47] else []

/-- the name up to the type part -/
def WName.body (w : WName) : Bytes := w.head ++ renderParts w.parts ++ slashIf w.slash

/-- the port name as it stands in the table -/
def WName.render (w : WName) : Bytes := w.body ++ renderTypes w.types

def litSeg (t : Bytes) : List Seg := if t.isEmpty then [] else [.lit t]

def partSegs : List (Bytes × Bytes) → List Seg
  | [] => []
  | (ds, t) :: r => .enum ds :: litSeg t ++ partSegs r

/-- the same name as a pattern of C05 -/
def WName.toPat (w : WName) : Pat :=
  { segs := litSeg w.head ++ partSegs w.parts, sub := w.slash, types := w.types }

/-- all concrete spellings of `#N1 text1 … #Nk textk`, leftmost index most significant -/
def expandParts : List (Bytes × Bytes) → List Bytes
  | [] => [[]]
  | (ds, t) :: r =>
    (List.range (decVal ds)).flatMap fun i => (expandParts r).map fun a => natDigits i ++ t ++ a

/-- what `bundle_foreach` produces: only the first enumeration is expanded, the rest of the
    name is appended as it is (known finding C09-K1, acknowledged in test/walk-ports.cpp) -/
def expandFirst : List (Bytes × Bytes) → List Bytes
  | [] => [[]]
  | (ds, t) :: r => (List.range (decVal ds)).map fun i => natDigits i ++ t ++ renderParts r

/-- the port tree of the specification -/
inductive STree where
  | leaf (w : WName) (md : Option Bytes)
  | sub (w : WName) (md : Option Bytes) (kids : List STree)

mutual
def STree.toPort : STree → PortT
  | .leaf w md => .mk w.render md false []
  | .sub w md kids => .mk w.render md true (toPorts kids)
/-- the `rtosc::Ports` table -/
def toPorts : List STree → List PortT
  | [] => []
  | t :: r => t.toPort :: toPorts r
end

mutual
/-- rows `i, i+1, …` of a table whose address is `pre` and whose index path is `path` -/
def enumList (pre : Bytes) (path : List Nat) : List STree → Nat → List Call
  | [], _ => []
  | t :: r, i => enumTree pre (path ++ [i]) t ++ enumList pre path r (i + 1)
def enumTree (pre : Bytes) (ix : List Nat) : STree → List Call
  | .leaf w _ => (expandParts w.parts).map fun a => (ix, pre ++ w.head ++ a ++ slashIf w.slash)
  | .sub w _ kids =>
    (expandParts w.parts).flatMap fun a => enumList (pre ++ w.head ++ a ++ [47]) ix kids 0
end

/-- **the specification**: every leaf under every concrete address, in the order the
    property fixes; `pre` is the address of the table (ending in '/') -/
def enumerate (ts : List STree) (pre : Bytes) : List Call := enumList pre [] ts 0

mutual
/-- the same with `expandFirst` for leaves: what the code does (differs from `enumList` only
    on leaves with more than one '#') -/
def codeList (pre : Bytes) (path : List Nat) : List STree → Nat → List Call
  | [], _ => []
  | t :: r, i => codeTree pre (path ++ [i]) t ++ codeList pre path r (i + 1)
def codeTree (pre : Bytes) (ix : List Nat) : STree → List Call
  | .leaf w _ => (expandFirst w.parts).map fun a => (ix, pre ++ w.head ++ a ++ slashIf w.slash)
  | .sub w _ kids =>
    (expandParts w.parts).flatMap fun a => codeList (pre ++ w.head ++ a ++ [47]) ix kids 0
end

/-- number of concrete spellings of the enumerations of a name -/
def partsCount : List (Bytes × Bytes) → Nat
  | [] => 1
  | (ds, _) :: r => decVal ds * partsCount r

mutual
/-- number of (leaf, concrete address) pairs of a tree -/
def countList : List STree → Nat
  | [] => 0
  | t :: r => countTree t + countList r
def countTree : STree → Nat
  | .leaf w _ => partsCount w.parts
  | .sub w _ kids => partsCount w.parts * countList kids
end

/-! ### Well-formedness (decidable) -/

def textOk (t : Bytes) : Bool := t.all litChar

def startsWithDigit : Bytes → Bool
  | c :: _ => Match.isDigit c
  | [] => false

/-- `N`: non-empty, decimal, below 2^31 -/
def numOk (ds : Bytes) : Bool := !ds.isEmpty && ds.all Match.isDigit && decide (decVal ds < 2 ^ 31)

/-- the `(N, text)` pieces: numbers well formed, text literal and not beginning with a
    digit (it would read as part of N), and non-empty unless it is the last one (two
    adjacent enumerations cannot be told apart in an address) -/
def partsOk : List (Bytes × Bytes) → Bool
  | [] => true
  | [(ds, t)] => numOk ds && textOk t && !startsWithDigit t
  | (ds, t) :: p :: r => numOk ds && textOk t && !startsWithDigit t && !t.isEmpty && partsOk (p :: r)

/-- the last piece of literal text of the name -/
def WName.lastText (w : WName) : Bytes :=
  match w.parts.getLast? with
  | some (_, t) => t
  | none => w.head

/-- the type part: non-empty list of alternatives without NUL, ':' and '#' -/
def typesOk : Option (List Bytes) → Bool
  | none => true
  | some ts => !ts.isEmpty && ts.all fun t => t.all fun c => tagChar c && c != 35

/-- a name of the form described above; without the trailing '/' the last text does not
    end in '/' (that '/' *is* the trailing '/') -/
def WName.ok (w : WName) : Bool :=
  textOk w.head && partsOk w.parts && typesOk w.types &&
  (w.slash || w.lastText.getLast? != some 47)

/-- a leaf name: additionally not empty in front of the type part, or a plain name -/
def WName.leafOk (w : WName) : Bool := w.ok

/-- a sub-tree name: begins with text, ends in '/', every N is at least 1 -/
def WName.subOk (w : WName) : Bool :=
  w.ok && !w.head.isEmpty && w.slash && w.parts.all fun p => decide (1 ≤ decVal p.1)

mutual
def STree.wf : STree → Bool
  | .leaf w _ => w.leafOk
  | .sub w _ kids => w.subOk && wfList kids
def wfList : List STree → Bool
  | [] => true
  | t :: r => t.wf && wfList r
end

/-- "all generated port trees": every name of the documented form -/
def TreeWF (ts : List STree) : Prop := wfList ts = true

instance (ts : List STree) : Decidable (TreeWF ts) := by unfold TreeWF; infer_instance

mutual
/-- trigger predicate of known finding C09-K1: some leaf name has more than one '#' -/
def STree.multiHashLeaf : STree → Bool
  | .leaf w _ => decide (2 ≤ w.parts.length)
  | .sub _ _ kids => multiHashLeafList kids
def multiHashLeafList : List STree → Bool
  | [] => false
  | t :: r => t.multiHashLeaf || multiHashLeafList r
end

/-! ### Dispatch of a reported address (stated with C05's model of `rtosc_match_path`) -/

/-- `rtosc_match_path(name, msg, …) != NULL` where `msg` holds the C string `a` followed by
    whatever else the message contains (`ex`) -/
def Accepts (name a ex : Bytes) : Prop := ∃ r, Match.path (name ++ [0]) (a ++ 0 :: ex) = .ok r

/-- Level by level: the row of the index path accepts what is left of the address, no other
    row of the same table does, and for a sub-tree port `*path_end` is where the sub-table's
    part of the address starts.  (`Ports::dispatch` calls the callback of every row whose
    pattern accepts the message; the callback of a sub-tree port dispatches the rest to its
    sub-table.) -/
def Delivers (only : Bool) (ex : Bytes) : List Nat → List PortT → Bytes → Prop
  | [], _, _ => False
  | [i], ps, a =>
    ∃ p, ps[i]? = some p ∧ p.hasPorts = false ∧ Accepts p.name a ex ∧
      (only = true → ∀ j q, j ≠ i → ps[j]? = some q → ¬ Accepts q.name a ex)
  | i :: j :: ix, ps, a =>
    ∃ p tp rest, ps[i]? = some p ∧ p.hasPorts = true ∧
      Match.path (p.name ++ [0]) (a ++ 0 :: ex) = .ok (tp, rest ++ 0 :: ex) ∧
      (only = true → ∀ j' q, j' ≠ i → ps[j']? = some q → ¬ Accepts q.name a ex) ∧
      Delivers only ex (j :: ix) p.children rest

def STree.name : STree → WName
  | .leaf w _ => w
  | .sub w _ _ => w

/-- no address is spelled by both names -/
def Apart (w v : WName) : Prop := ∀ a, ¬ (PathSpec w.toPat a ∧ PathSpec v.toPat a)

mutual
/-- in every table of the tree, no two rows answer to a common address -/
def SiblingsApart : List STree → Prop
  | ts => (∀ (i j : Nat) (t u : STree), i ≠ j → ts[i]? = some t → ts[j]? = some u → Apart t.name u.name) ∧ kidsApart ts
def kidsApart : List STree → Prop
  | [] => True
  | .leaf _ _ :: r => kidsApart r
  | .sub _ _ kids :: r => SiblingsApart kids ∧ kidsApart r
end

/-- decidable sufficient condition for `Apart`: the texts in front of the first '#' are not
    prefixes of one another -/
def headsApart (w v : WName) : Bool := !(w.head.isPrefixOf v.head) && !(v.head.isPrefixOf w.head)

/-! ### Runtime pruning -/

/-- the value of the port's "enabled by" property (C17's reader); `none`: no such property -/
def guardOf (md : Option Bytes) : Option Bytes :=
  match Meta.portMeta md with
  | none => none
  | some m =>
    match Meta.lookup m ENABLED_BY with
    | some (some ep) => some ep
    | _ => none

/-- the metadata block is readable and has no "enabled by" entry -/
def unguarded (md : Option Bytes) : Bool :=
  match Meta.portMeta md with
  | none => false
  | some m =>
    match Meta.lookup m ENABLED_BY with
    | some none => true
    | _ => false

mutual
def STree.noGuards : STree → Bool
  | .leaf _ md => unguarded md
  | .sub _ md kids => unguarded md && NoGuards kids
/-- no port of the tree carries an "enabled by" property -/
def NoGuards : List STree → Bool
  | [] => true
  | t :: r => t.noGuards && NoGuards r
end

mutual
def definedList (rt : Option Obj) : List STree → Bool
  | [] => true
  | t :: r => definedTree rt t && definedList rt r
def definedTree (rt : Option Obj) : STree → Bool
  | .leaf _ _ => true
  | .sub w _ kids =>
    match rt with
    | none => true
    | some obj =>
      (expandParts w.parts).all fun a =>
        match obj.kid (w.head ++ a ++ [47]) with
        | none => false
        | some none => true
        | some (some c) => definedList (some c) kids
end

/-- the runtime object says, for every sub-tree port the walk asks about, whether its child
    object is NULL or which object it is -/
def RuntimeDefined (ts : List STree) (rt : Option Obj) : Prop := definedList rt ts = true

instance (ts : List STree) (rt : Option Obj) : Decidable (RuntimeDefined ts rt) := by
  unfold RuntimeDefined; infer_instance

mutual
/-- `codeList` without the sub-trees whose object pointer is NULL; below a visited sub-tree
    port the walk goes on with that port's child object -/
def prunedList (pre : Bytes) (path : List Nat) (rt : Option Obj) : List STree → Nat → List Call
  | [], _ => []
  | t :: r, i => prunedTree pre (path ++ [i]) rt t ++ prunedList pre path rt r (i + 1)
def prunedTree (pre : Bytes) (ix : List Nat) (rt : Option Obj) : STree → List Call
  | .leaf w _ => (expandFirst w.parts).map fun a => (ix, pre ++ w.head ++ a ++ slashIf w.slash)
  | .sub w _ kids =>
    (expandParts w.parts).flatMap fun a =>
      match rt with
      | none => prunedList (pre ++ w.head ++ a ++ [47]) ix none kids 0
      | some obj =>
        match obj.kid (w.head ++ a ++ [47]) with
        | some (some c) => prunedList (pre ++ w.head ++ a ++ [47]) ix (some c) kids 0
        | _ => []
end

/-- the test of a table's own `self:` port in front of its rows: if it is switched off, only
    the enabling toggle itself is reported (ports.cpp: "an enabling port must always be
    traversed") -/
def tableGate (tab : List PortT) (path : List Nat) (pre : Bytes) (rt : Option Obj) (body : List Call) : List Call :=
  match rt with
  | none => body
  | some obj =>
    match (index tab SELF).bind (tab[·]?) with
    | none => body
    | some sp =>
      match guardOf sp.metadata with
      | none => body
      | some ep =>
        if obj.toggle ep == some true then body
        else match index tab ep with
          | some k => [(path ++ [k], pre ++ ep)]
          | none => []

mutual
/-- the full pruning clause: NULL pointers and "enabled by" toggles (a sub-tree port's toggle
    is a row of the same table; a table's own toggle is named by its `self:` port) -/
def fullList (pre : Bytes) (path : List Nat) (rt : Option Obj) : List STree → Nat → List Call
  | [], _ => []
  | t :: r, i => fullTree pre (path ++ [i]) rt t ++ fullList pre path rt r (i + 1)
def fullTree (pre : Bytes) (ix : List Nat) (rt : Option Obj) : STree → List Call
  | .leaf w _ => (expandParts w.parts).map fun a => (ix, pre ++ w.head ++ a ++ slashIf w.slash)
  | .sub w md kids =>
    (expandParts w.parts).flatMap fun a =>
      match rt with
      | none => fullList (pre ++ w.head ++ a ++ [47]) ix none kids 0
      | some obj =>
        match obj.kid (w.head ++ a ++ [47]) with
        | some (some c) =>
          let below := tableGate (toPorts kids) ix (pre ++ w.head ++ a ++ [47]) (some c)
            (fullList (pre ++ w.head ++ a ++ [47]) ix (some c) kids 0)
          match guardOf md with
          | none => below
          | some ep =>
            -- the toggle is a row of the sub-tree's own table ("name/toggle") or of this one
            let (sub, e) := subportScan w.render ep
            if sub then
              if c.toggle (e.drop 1) == some true then below
              else match index (toPorts kids) (e.drop 1) with
                | some k => [(ix ++ [k], pre ++ w.head ++ a ++ [47] ++ e.drop 1)]
                | none => []
            else if obj.toggle ep == some true then below else []
        | _ => []
end

def prunedFull (pre : Bytes) (path : List Nat) (tab : List PortT) (ts : List STree) (rt : Option Obj) : List Call :=
  tableGate tab path pre rt (fullList pre path rt ts 0)

/-! ### When `port_is_enabled` is defined (side conditions of the pruning clause, decidable) -/

/-- an ordinary path component: no NUL, no '/', not ".." -/
def compOkB (c : Bytes) : Bool := c.all (fun x => x != 0 && x != 47) && c != DOTDOT

/-- the metadata block is readable (with or without an "enabled by" entry) -/
def metaOk (md : Option Bytes) : Bool := unguarded md || (guardOf md).isSome

/-- `ep` is one path component and names a row of `tab` (up to the row's ':'); the runtime
    object defines what that port answers -/
def toggleOk (tab : List PortT) (obj : Obj) (ep : Bytes) : Bool :=
  compOkB ep &&
  match index tab ep with
  | none => false
  | some k =>
    match tab[k]? with
    | none => false
    | some ask => lit ask.name == ep && (obj.toggle ep).isSome

/-- the table's own `self:` port, if it has one, is readable and its guard names a row of the table -/
def selfOk (tab : List PortT) (obj : Obj) : Bool :=
  match (index tab SELF).bind (tab[·]?) with
  | none => true
  | some sp =>
    metaOk sp.metadata &&
    match guardOf sp.metadata with
    | none => true
    | some ep => toggleOk tab obj ep

/-- a sub-tree name of one path component (`"../"` in `port_is_enabled` removes one component;
    what the `rRecur*` macros generate) -/
def flatName (w : WName) : Bool :=
  w.head.all (· != 47) && w.parts.all (fun p => p.2.all (· != 47)) && w.head != DOTDOT

/-- the guard of the sub-tree port in row `i` of `base`: a row of `base` (asked on `obj`), or —
    `name/port`, for a name without '#' that is found in its own row — a row of the sub-table
    (asked on the sub-tree's object `child`) -/
def subGuardOk (base : List PortT) (obj : Obj) (i : Nat) (w : WName) (md : Option Bytes) (sub : List PortT)
    (child : Obj) : Bool :=
  match guardOf md with
  | none => true
  | some ep =>
    if ep.contains 47 then
      w.parts.isEmpty && index base w.render == some i &&
      ep.take (w.head.length + 1) == w.head ++ [47] && toggleOk sub child (ep.drop (w.head.length + 1))
    else toggleOk base obj ep

mutual
def guardsList (base : List PortT) (obj : Obj) : List STree → Nat → Bool
  | [], _ => true
  | t :: r, i => guardsTree base obj i t && guardsList base obj r (i + 1)
/-- row `i` of the table `base` walked with the object `obj` -/
def guardsTree (base : List PortT) (obj : Obj) (i : Nat) : STree → Bool
  | .leaf _ _ => true
  | .sub w md kids =>
    flatName w && metaOk md &&
    (expandParts w.parts).all fun a =>
      match obj.kid (w.head ++ a ++ [47]) with
      | none => false
      | some none => true
      | some (some c) =>
        subGuardOk base obj i w md (toPorts kids) c && selfOk (toPorts kids) c && guardsList (toPorts kids) c kids 0
end

/-- the runtime object defines the child object (or NULL) of every sub-tree port and the answer
    of every enabling port; every "enabled by" names a port where `port_is_enabled` looks for it -/
def GuardsOK (ts : List STree) (obj : Obj) : Prop :=
  selfOk (toPorts ts) obj = true ∧ guardsList (toPorts ts) obj ts 0 = true

instance (ts : List STree) (obj : Obj) : Decidable (GuardsOK ts obj) := by unfold GuardsOK; infer_instance

/-! ### Buffer size -/

def maxLen : List Bytes → Nat
  | [] => 0
  | a :: r => max a.length (maxLen r)

mutual
/-- length of the longest string the walk writes behind the table's address -/
def STree.need : STree → Nat
  | .leaf w _ => w.head.length + maxLen (expandFirst w.parts) + (slashIf w.slash).length
  | .sub w _ kids => w.head.length + maxLen (expandParts w.parts) + 1 + needList kids
def needList : List STree → Nat
  | [] => 0
  | t :: r => max t.need (needList r)
end

/-- an address prefix: non-empty and without NUL -/
def PrefixOk (pre : Bytes) : Prop := pre ≠ [] ∧ ∀ c ∈ pre, c ≠ 0

end Rtosc.Walk
