/-
  C01 — specification side of the OSC 1.0 wire format.

  This file does not mirror any code.  It says what an OSC message *is*:
  abstract messages (`Msg`), their well-formedness (`Msg.WF`), the byte string the
  OSC 1.0 specification assigns to them (`Spec.encode`) and the list of typed values
  a reader has to get back (`Spec.values`).  The models of the C code are in
  `Encode.lean`, `Read.lean`, `Length.lean`.

  Type tags (ASCII):  i 105  f 102  s 115  b 98   h 104  t 116  d 100  S 83
                      c 99   r 114  m 109  T 84   F 70   N 78   I 73   [ 91  ] 93
  Floats and doubles are bit patterns (`UInt32` / `UInt64`).
  No Mathlib import: linked into the driver executables.
-/
import RtoscModel.Basic
namespace Rtosc.Osc
open Rtosc

/-- `k`-byte big-endian representation of `v` (most significant byte first). -/
def beN : Nat → Nat → Bytes
  | 0, _ => []
  | k + 1, v => UInt8.ofNat (v / 256 ^ k % 256) :: beN k v

def be32 (v : UInt32) : Bytes := beN 4 v.toNat
def be64 (v : UInt64) : Bytes := beN 8 v.toNat

def zeros (n : Nat) : Bytes := List.replicate n 0

/-- OSC-string: the bytes, a terminating NUL, NUL-padded to a multiple of 4
    (1 to 4 NUL bytes). -/
def padStr (s : Bytes) : Bytes := s ++ zeros (4 - s.length % 4)

/-- number of NUL bytes that bring a length to the next multiple of 4 (0 to 3) -/
def pad4 (n : Nat) : Nat := (4 - n % 4) % 4

/-- Payload kinds of the value tags. -/
inductive Kind where
  | w32 | w64 | midi | str | blob
deriving DecidableEq, Repr

/-- Payload kind of a type tag; `none` for the tags without payload (`T F N I [ ]`)
    and for bytes that are not tags at all. -/
def kind (t : UInt8) : Option Kind :=
  if t = 105 ∨ t = 102 ∨ t = 99 ∨ t = 114 then some .w32
  else if t = 104 ∨ t = 116 ∨ t = 100 then some .w64
  else if t = 109 then some .midi
  else if t = 115 ∨ t = 83 then some .str
  else if t = 98 then some .blob
  else none

def isBracket (t : UInt8) : Bool := t = 91 || t = 93

/-- the 15 value tags plus the two array brackets -/
def isTag (t : UInt8) : Bool :=
  (kind t).isSome || t = 84 || t = 70 || t = 78 || t = 73 || isBracket t

/-- An argument that carries a payload. -/
inductive Arg where
  | w32 (v : UInt32)            -- i c r, and f as its bit pattern
  | w64 (v : UInt64)            -- h t, and d as its bit pattern
  | midi (a b c d : UInt8)      -- m
  | str (s : Bytes)             -- s S   (contents without the terminator)
  | blob (d : Bytes)            -- b
deriving DecidableEq, Repr

def Arg.kind : Arg → Kind
  | .w32 _ => .w32
  | .w64 _ => .w64
  | .midi .. => .midi
  | .str _ => .str
  | .blob _ => .blob

/-- OSC 1.0 encoding of one argument. -/
def encArg : Arg → Bytes
  | .w32 v => be32 v
  | .w64 v => be64 v
  | .midi a b c d => [a, b, c, d]
  | .str s => padStr s
  | .blob d => be32 (UInt32.ofNat d.length) ++ d ++ zeros (pad4 d.length)

structure Msg where
  addr : Bytes
  tags : Bytes
  args : List Arg
deriving DecidableEq, Repr

/-- The OSC 1.0 encoding: address, ','-prefixed type tag string, arguments. -/
def Spec.encode (m : Msg) : Bytes :=
  padStr m.addr ++ padStr (44 :: m.tags) ++ m.args.flatMap encArg

def NoNul (b : Bytes) : Prop := ∀ x ∈ b, x ≠ 0

instance (b : Bytes) : Decidable (NoNul b) := by unfold NoNul; exact inferInstance

/-- One argument per payload tag, of the kind the tag asks for, in order. -/
def matchesB : Bytes → List Arg → Bool
  | [], [] => true
  | [], _ :: _ => false
  | t :: ts, as =>
    match kind t with
    | none => matchesB ts as
    | some k =>
      match as with
      | [] => false
      | a :: as' => a.kind = k && matchesB ts as'

def Matches (tags : Bytes) (args : List Arg) : Prop := matchesB tags args = true

instance (tags : Bytes) (args : List Arg) : Decidable (Matches tags args) := by
  unfold Matches; exact inferInstance

def Arg.WF : Arg → Prop
  | .str s => NoNul s
  | .blob d => d.length < 2 ^ 31
  | _ => True

instance (a : Arg) : Decidable a.WF := by
  cases a <;> unfold Arg.WF <;> exact inferInstance

/-- The messages the property quantifies over. -/
structure Msg.WF (m : Msg) : Prop where
  addr_ne : m.addr ≠ []
  addr_nonul : NoNul m.addr
  tags_ok : ∀ t ∈ m.tags, isTag t = true
  matches_ : Matches m.tags m.args
  args_ok : ∀ a ∈ m.args, a.WF
  size : (Spec.encode m).length < 2 ^ 32

instance (m : Msg) : Decidable m.WF :=
  if h : m.addr ≠ [] ∧ NoNul m.addr ∧ (∀ t ∈ m.tags, isTag t = true) ∧ Matches m.tags m.args ∧
      (∀ a ∈ m.args, a.WF) ∧ (Spec.encode m).length < 2 ^ 32 then
    isTrue ⟨h.1, h.2.1, h.2.2.1, h.2.2.2.1, h.2.2.2.2.1, h.2.2.2.2.2⟩
  else isFalse (fun w => h ⟨w.addr_ne, w.addr_nonul, w.tags_ok, w.matches_, w.args_ok, w.size⟩)

/-- What a reader observes for one argument. -/
inductive Val where
  | nil                 -- N, I : no value
  | bool (b : Bool)     -- T, F
  | arg (a : Arg)
deriving DecidableEq, Repr

/-- value of a payload-free value tag -/
def flagVal (t : UInt8) : Val :=
  if t = 84 then .bool true else if t = 70 then .bool false else .nil

/-- The typed values of a message, in order: one entry per tag that is not a bracket. -/
def Spec.valuesOf : Bytes → List Arg → List (UInt8 × Val)
  | [], _ => []
  | t :: ts, as =>
    if isBracket t then Spec.valuesOf ts as
    else match kind t with
      | none => (t, flagVal t) :: Spec.valuesOf ts as
      | some _ =>
        match as with
        | [] => []
        | a :: as' => (t, .arg a) :: Spec.valuesOf ts as'

def Spec.values (m : Msg) : List (UInt8 × Val) := Spec.valuesOf m.tags m.args

/-- Number of arguments of a message: every tag except the array brackets. -/
def Spec.nargs (m : Msg) : Nat := (m.tags.filter (fun t => !isBracket t)).length

end Rtosc.Osc
