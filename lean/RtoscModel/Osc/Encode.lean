/-
  C01 / C02 — model of the message constructors of src/rtosc.c and src/cpp/arg-val.c:
    has_reserved, nreserved, vsosc_null, rtosc_amessage, rtosc_v2args, rtosc_vmessage,
    rtosc_message, rtosc_avmessage.

  Conventions
  * The destination buffer is a `Bytes` of exactly `len` bytes (`len` is not a separate
    parameter: `len = buffer.length`); the NULL buffer is `none`.
  * Every store goes through `W.put`, which records in `oob` whether an index `≥ len`
    was ever written (the store is then dropped).  "Never writes outside" is a theorem
    about this flag (C02), not a convention.
  * `unsigned pos` wraps modulo 2^32 (`u32`).
  * A `const char*` argument (address, type string, string arguments) is the contents
    of the C string, terminator excluded.
  * `rtosc_arg_t` is a union; `CArg` says which member the caller filled.  Reading another
    member than the one the type tag selects, reading the `args` array past its end, or
    reading blob data past its block is an out-of-bounds/undefined read of the *inputs*:
    the model returns `none` for the whole call, it never invents a value.
-/
import RtoscModel.Osc.Spec
namespace Rtosc.Osc
open Rtosc

def u32 (n : Nat) : Nat := n % 4294967296

/-- `has_reserved` (rtosc.c:35): the switch, case by case. -/
def hasReserved (t : UInt8) : Bool :=
  if t = 105 then true        -- 'i'
  else if t = 115 then true   -- 's'
  else if t = 98 then true    -- 'b'
  else if t = 102 then true   -- 'f'
  else if t = 104 then true   -- 'h'
  else if t = 116 then true   -- 't'
  else if t = 100 then true   -- 'd'
  else if t = 83 then true    -- 'S'
  else if t = 114 then true   -- 'r'
  else if t = 109 then true   -- 'm'
  else if t = 99 then true    -- 'c'
  else false                  -- 'T' 'F' 'N' 'I' '[' ']' and "should not happen"

/-- `nreserved` (rtosc.c:65) -/
def nreserved : Bytes → Nat
  | [] => 0
  | t :: ts => (if hasReserved t then 1 else 0) + nreserved ts

/-- The caller-filled `rtosc_arg_t`. -/
inductive CArg where
  | w32 (v : UInt32)                              -- .i (i c r) / .f (bit pattern)
  | w64 (v : UInt64)                              -- .h / .t / .d (bit pattern)
  | midi (a b c d : UInt8)                        -- .m
  | str (s : Bytes)                               -- .s : C string contents
  | blob (len : UInt32) (data : Option Bytes)     -- .b : int32 `len` as its bit pattern,
                                                  --      `data` = none for the NULL pointer
deriving DecidableEq, Repr

/-- big-endian emit of a 32-bit value, as the writer does it:
    `(i>>24)&0xff, (i>>16)&0xff, (i>>8)&0xff, i&0xff` -/
def put32 (v : UInt32) : Bytes :=
  [(v >>> 24).toUInt8, (v >>> 16).toUInt8, (v >>> 8).toUInt8, v.toUInt8]

def put64 (v : UInt64) : Bytes :=
  [(v >>> 56).toUInt8, (v >>> 48).toUInt8, (v >>> 40).toUInt8, (v >>> 32).toUInt8,
   (v >>> 24).toUInt8, (v >>> 16).toUInt8, (v >>> 8).toUInt8, v.toUInt8]

/-! ### `vsosc_null` (rtosc.c:182) -/

/-- `pos += 4 - pos % 4` on `unsigned` -/
def alignUp (pos : Nat) : Nat := u32 (pos + (4 - pos % 4))

/-- The `while(toparse)` loop of `vsosc_null`.  `args` is the not yet consumed part of
    the argument array (`args[arg_pos..]`); the numeric cases only do `++arg_pos`. -/
def sizeLoop : Nat → Bytes → List CArg → Nat → Option Nat
  | 0, _, _, pos => some pos
  | _ + 1, [], _, _ => none                       -- `assert(arg)`: past the terminator
  | tp + 1, t :: ts, args, pos =>
    if t = 104 ∨ t = 116 ∨ t = 100 then           -- h t d
      sizeLoop tp ts args.tail (u32 (pos + 8))
    else if t = 109 ∨ t = 114 ∨ t = 99 ∨ t = 102 ∨ t = 105 then   -- m r c f i
      sizeLoop tp ts args.tail (u32 (pos + 4))
    else if t = 115 ∨ t = 83 then                  -- s S
      match args with
      | .str s :: as => sizeLoop tp ts as (alignUp (u32 (pos + s.length)))
      | _ => none
    else if t = 98 then                            -- b
      match args with
      | .blob len _ :: as =>
        let pos := u32 (pos + u32 (4 + len.toNat))   -- `pos += 4 + i`, int → unsigned
        let pos := if pos % 4 ≠ 0 then alignUp pos else pos
        sizeLoop tp ts as pos
      | _ => none
    else sizeLoop (tp + 1) ts args pos

/-- `vsosc_null`: the size of the message, computed without writing. -/
def sizeNull (addr tags : Bytes) (args : List CArg) : Option Nat :=
  let pos := u32 (0 + addr.length)
  let pos := alignUp pos
  let pos := u32 (pos + (1 + tags.length))
  let pos := alignUp pos
  sizeLoop (nreserved tags) tags args pos

/-! ### the writer -/

/-- Writer state: the destination memory (`len` bytes), `unsigned pos`, and whether a
    store outside the `len` bytes was attempted. -/
structure W where
  buf : Bytes
  pos : Nat
  oob : Bool
deriving DecidableEq, Repr

/-- `buffer[pos++] = b` -/
def W.put (w : W) (b : UInt8) : W :=
  if w.pos < w.buf.length then
    { buf := w.buf.set w.pos b, pos := u32 (w.pos + 1), oob := w.oob }
  else
    { buf := w.buf, pos := u32 (w.pos + 1), oob := true }

/-- `while(*s) buffer[pos++] = *s++;` and the unrolled byte stores -/
def W.puts (w : W) : Bytes → W
  | [] => w
  | b :: r => (w.put b).puts r

/-- `pos += 4 - pos % 4` -/
def W.align (w : W) : W := { w with pos := alignUp w.pos }

/-- `pos += n` (nothing is stored: the bytes keep what `memset` put there) -/
def W.skip (w : W) (n : Nat) : W := { w with pos := u32 (w.pos + n) }

/-- the body of a blob: `u = b.data; if(u) { while(i--) buffer[pos++] = *u++; } else pos += i;`
    (`none`: the copy loop reads past the data block, or `i` is negative) -/
def W.blobData (w : W) (len : UInt32) (data : Option Bytes) : Option W :=
  match data with
  | some d =>
    if len.toNat < 2147483648 ∧ len.toNat ≤ d.length then some (w.puts (d.take len.toNat))
    else none
  | none => some (w.skip len.toNat)

/-- The `while(toparse)` loop of `rtosc_amessage`. -/
def writeLoop : Nat → Bytes → List CArg → W → Option W
  | 0, _, _, w => some w
  | _ + 1, [], _, _ => none
  | tp + 1, t :: ts, args, w =>
    if t = 104 ∨ t = 116 ∨ t = 100 then           -- h t d : args[arg_pos++].t
      match args with
      | .w64 v :: as => writeLoop tp ts as (w.puts (put64 v))
      | _ => none
    else if t = 114 ∨ t = 102 ∨ t = 99 ∨ t = 105 then   -- r f c i : args[arg_pos++].i
      match args with
      | .w32 v :: as => writeLoop tp ts as (w.puts (put32 v))
      | _ => none
    else if t = 109 then                           -- m
      match args with
      | .midi a b c d :: as => writeLoop tp ts as (w.puts [a, b, c, d])
      | _ => none
    else if t = 83 ∨ t = 115 then                  -- S s
      match args with
      | .str s :: as => writeLoop tp ts as (w.puts s).align
      | _ => none
    else if t = 98 then                            -- b
      match args with
      | .blob len data :: as =>
        match (w.puts (put32 len)).blobData len data with
        | none => none
        | some w =>
          let w := if w.pos % 4 ≠ 0 then w.align else w
          writeLoop tp ts as w
      | _ => none
    else writeLoop (tp + 1) ts args w

/-- Result of a constructor call: the destination memory afterwards (`none` for the
    NULL buffer), the return value, the out-of-bounds-store flag. -/
structure AResult where
  buf : Option Bytes
  ret : Nat
  oob : Bool
deriving DecidableEq, Repr

/-- `rtosc_amessage(buffer, len, address, arguments, args)` with `len = buffer.length`. -/
def amessage (buffer : Option Bytes) (addr tags : Bytes) (args : List CArg) : Option AResult :=
  match sizeNull addr tags args with
  | none => none
  | some total =>
    match buffer with
    | none => some ⟨none, total, false⟩                       -- if(!buffer) return total_len;
    | some buf =>
      if total > buf.length then                              -- cannot fit
        some ⟨some (zeros buf.length), 0, false⟩              -- memset(buffer,0,len); return 0;
      else
        let w : W := ⟨zeros total ++ buf.drop total, 0, false⟩ -- memset(buffer,0,total_len)
        let w := w.puts addr
        let w := w.align
        let w := w.put 44
        let w := w.puts tags
        let w := w.align
        match writeLoop (nreserved tags) tags args w with
        | none => none
        | some w => some ⟨some w.buf, w.pos, w.oob⟩

/-! ### varargs: `rtosc_v2args`, `rtosc_vmessage`, `rtosc_message` -/

/-- One promoted C value fetched by `va_arg`. -/
inductive VaArg where
  | int (v : UInt32)                 -- int
  | i64 (v : UInt64)                 -- int64_t / uint64_t
  | dbl (bits : UInt64)              -- double (bit pattern)
  | cstr (s : Bytes)                 -- const char *
  | midi (a b c d : UInt8)           -- uint8_t * to 4 bytes
  | ptr (data : Option Bytes)        -- unsigned char * (blob data), none = NULL
deriving DecidableEq, Repr

/-- `rtosc_v2args` (rtosc.c:242).  `narrow` is the double → float conversion of the
    target (`args[..].f = va_arg(ap, double)`), on bit patterns. -/
def v2args (narrow : UInt64 → UInt32) : Nat → Bytes → List VaArg → Option (List CArg)
  | 0, _, _ => some []
  | _ + 1, [], _ => none
  | n + 1, t :: ts, va =>
    if t = 104 ∨ t = 116 then
      match va with
      | .i64 v :: va' => (v2args narrow n ts va').map (.w64 v :: ·)
      | _ => none
    else if t = 100 then
      match va with
      | .dbl v :: va' => (v2args narrow n ts va').map (.w64 v :: ·)
      | _ => none
    else if t = 99 ∨ t = 105 ∨ t = 114 then
      match va with
      | .int v :: va' => (v2args narrow n ts va').map (.w32 v :: ·)
      | _ => none
    else if t = 109 then
      match va with
      | .midi a b c d :: va' => (v2args narrow n ts va').map (.midi a b c d :: ·)
      | _ => none
    else if t = 83 ∨ t = 115 then
      match va with
      | .cstr s :: va' => (v2args narrow n ts va').map (.str s :: ·)
      | _ => none
    else if t = 98 then
      match va with
      | .int len :: .ptr data :: va' => (v2args narrow n ts va').map (.blob len data :: ·)
      | _ => none
    else if t = 102 then
      match va with
      | .dbl v :: va' => (v2args narrow n ts va').map (.w32 (narrow v) :: ·)
      | _ => none
    else v2args narrow (n + 1) ts va

/-- `rtosc_vmessage` (= `rtosc_message` after `va_start`). -/
def vmessage (narrow : UInt64 → UInt32) (buffer : Option Bytes) (addr tags : Bytes)
    (va : List VaArg) : Option AResult :=
  let nargs := nreserved tags
  if nargs = 0 then amessage buffer addr tags []
  else
    match v2args narrow nargs tags va with
    | none => none
    | some args => amessage buffer addr tags args

/-- IEEE-754 binary64 → binary32, round to nearest even, NaNs quieted with the top
    payload bits kept (what `cvtsd2ss` does); on bit patterns. -/
def narrowF64 (b : UInt64) : UInt32 :=
  let n := b.toNat
  let s := n / 2 ^ 63
  let e := n / 2 ^ 52 % 2048
  let m := n % 2 ^ 52
  let sign := s * 2 ^ 31
  if e = 2047 then
    if m = 0 then UInt32.ofNat (sign + 0x7f800000)
    else UInt32.ofNat (sign + 0x7f800000 + 0x400000 + m / 2 ^ 29 % 2 ^ 22)
  else if e = 0 then UInt32.ofNat sign
  else
    let sig := 2 ^ 52 + m
    let shift := if e ≥ 897 then 29 else 926 - e
    let base := if e ≥ 897 then (e - 897) * 2 ^ 23 else 0
    let q := sig / 2 ^ shift
    let rem := sig % 2 ^ shift
    let half := 2 ^ (shift - 1)
    let q := if rem > half ∨ (rem = half ∧ q % 2 = 1) then q + 1 else q
    let bits := base + q
    if bits ≥ 0x7f800000 then UInt32.ofNat (sign + 0x7f800000) else UInt32.ofNat (sign + bits)

/-- IEEE-754 binary32 → binary64 (exact), the default argument promotion of a `float` at a
    call site of `rtosc_message`; on bit patterns, NaN payload kept in the top bits. -/
def widenF32 (b : UInt32) : UInt64 :=
  let n := b.toNat
  let s := n / 2 ^ 31
  let e := n / 2 ^ 23 % 256
  let m := n % 2 ^ 23
  let sign := s * 2 ^ 63
  if e = 255 then UInt64.ofNat (sign + 2047 * 2 ^ 52 + m * 2 ^ 29)
  else if e = 0 then
    if m = 0 then UInt64.ofNat sign
    else
      let k := Nat.log2 m                                   -- m = 2^k + rest, value = m * 2^-149
      UInt64.ofNat (sign + (k + 874) * 2 ^ 52 + (m - 2 ^ k) * 2 ^ (52 - k))
  else UInt64.ofNat (sign + (e + 896) * 2 ^ 52 + m * 2 ^ 29)

/-! ### `rtosc_avmessage` (arg-val.c:5), for lists without ranges and arrays -/

/-- `rtosc_arg_val_t`: a type character and the union (only looked at for payload types). -/
structure ArgVal where
  type : UInt8
  val : Option CArg
deriving DecidableEq, Repr

/-- The two passes of `rtosc_avmessage` over the arg-val iterator, for lists that
    contain neither ranges (`'-'`, 45) nor arrays (`'a'`, 97) — for those the iterator
    visits every element once (range expansion is C16's model).  Returns the type string
    and the compacted value array handed to `rtosc_amessage`. -/
def avCollect : List ArgVal → Option (Bytes × List CArg)
  | [] => some ([], [])
  | av :: rest =>
    if av.type = 45 ∨ av.type = 97 then none
    else
      match avCollect rest with
      | none => none
      | some (ts, vs) =>
        if hasReserved av.type then
          match av.val with
          | some v => some (av.type :: ts, v :: vs)
          | none => none
        else some (av.type :: ts, vs)

def avmessage (buffer : Option Bytes) (addr : Bytes) (avs : List ArgVal) : Option AResult :=
  match avCollect avs with
  | none => none
  | some (tags, vals) => amessage buffer addr tags vals

/-! ### between abstract arguments and what a caller passes -/

def Arg.toC : Arg → CArg
  | .w32 v => .w32 v
  | .w64 v => .w64 v
  | .midi a b c d => .midi a b c d
  | .str s => .str s
  | .blob d => .blob (UInt32.ofNat d.length) (some d)

/-- The abstract argument a caller-filled union stands for.  A blob with the NULL data
    pointer stands for `len` zero bytes (the writer skips them in the zeroed buffer); a
    data block may be longer than `len` (only `len` bytes are read), not shorter. -/
def CArg.abs : CArg → Option Arg
  | .w32 v => some (.w32 v)
  | .w64 v => some (.w64 v)
  | .midi a b c d => some (.midi a b c d)
  | .str s => some (.str s)
  | .blob len none => some (.blob (zeros len.toNat))
  | .blob len (some blk) => if len.toNat ≤ blk.length then some (.blob (blk.take len.toNat)) else none

/-- `cargs` stand for `args`, element by element -/
def Denote : List CArg → List Arg → Prop
  | [], [] => True
  | c :: cs, a :: as => c.abs = some a ∧ Denote cs as
  | _, _ => False

/-- The promoted values a `rtosc_message(…)` call site passes for the type string `tags`
    and the values `args`; `widen` is the float → double promotion on bit patterns. -/
def promote (widen : UInt32 → UInt64) : Bytes → List CArg → List VaArg
  | [], _ => []
  | t :: ts, args =>
    if !hasReserved t then promote widen ts args
    else
      match args with
      | [] => []
      | a :: as =>
        (match a with
          | .w32 v => if t = 102 then [VaArg.dbl (widen v)] else [VaArg.int v]
          | .w64 v => if t = 100 then [VaArg.dbl v] else [VaArg.i64 v]
          | .midi a b c d => [VaArg.midi a b c d]
          | .str s => [VaArg.cstr s]
          | .blob len data => [VaArg.int len, VaArg.ptr data]) ++ promote widen ts as

/-- The arg-val list a caller of `rtosc_avmessage` builds for `tags` and `args`
    (the union of a payload-free element is not looked at). -/
def ArgVal.listOf : Bytes → List CArg → List ArgVal
  | [], _ => []
  | t :: ts, args =>
    if hasReserved t then
      match args with
      | [] => ⟨t, none⟩ :: ArgVal.listOf ts []
      | a :: as => ⟨t, some a⟩ :: ArgVal.listOf ts as
    else ⟨t, none⟩ :: ArgVal.listOf ts args

end Rtosc.Osc
