/-
  C02 / C08 — model of the bundle functions of src/rtosc.c and of `append_bundle`
  (src/cpp/subtree-serialize.cpp):
    rtosc_message_length(msg, -1)  (the way rtosc_bundle finds the size of an element),
    rtosc_bundle  (after fixes/C02-bundle-len.patch; the unrepaired body is kept as
                   `bundleUnfixed` for the record of defect F2),
    rtosc_bundle_elements, rtosc_bundle_fetch, rtosc_bundle_size, rtosc_bundle_p,
    rtosc_bundle_timetag, append_bundle.
  The specification side (`Elem`, `Spec.encodeElem`) is at the end of the file.

  Conventions
  * A `const char*` handed to the library is modelled by the memory block it points into:
    the bytes from the pointer to the end of the allocation.  Every read goes through
    `m[p]?`; a read outside the block is the explicit result `Rd.oob` / `none`, never a
    default value.  `Rd.hang`: a loop of the real code does not terminate (fuel exhausted).
  * `rtosc_message_length(msg, -1)` builds the ring `{{msg, SIZE_MAX},{NULL,0}}`: `deref`
    is then `msg[pos]` for every `unsigned pos`, there is no bound the code itself checks.
    `messageLengthU` is `ringLength` of Length.lean with that `deref`, i.e. with every read
    checked against the block.  It mirrors the code after fixes C07-bundle-len / C07-blob-len /
    C07-empty-string-size: with `total = SIZE_MAX` the new guards `pos > total`,
    `advance > total-pos`, `i > total-pos` can never fire (all operands are 32-bit values), so
    they do not appear; the string case scans from the first byte of the string.  The guard of
    fix C06-bundle-length-wrap (`advance && (uint64_t)pos+4+advance > UINT32_MAX`: the end of
    the element is no `unsigned` position) does not depend on `total` and is modelled: it is
    what makes the bundle walk terminate (`bundleLoopU_terminates`, Proofs/BundleLength.lean).
  * A destination buffer is a `Bytes` of exactly `len` bytes; stores go through `BW.store`,
    which records in `oob` whether an index `≥ len` was written (the store is dropped).
  * `unsigned pos` / `uint32_t` arithmetic wraps (`u32`); pointers and `size_t` do not
    (LP64; sums of sizes stay far below 2^64).
-/
import RtoscModel.Osc.Length
import RtoscModel.Osc.BufFast
namespace Rtosc.Osc
open Rtosc

/-- Outcome of code that reads through a pointer it was given without a length. -/
inductive Rd (α : Type) where
  | ok (a : α)
  | oob                      -- a byte outside the block would be read
  | hang                     -- the loop does not terminate
deriving DecidableEq, Repr

/-! ### `rtosc_message_length(msg, -1)` -/

/-- fuel of the loops below: every round either moves forward inside the block or leaves it -/
def fuelU (m : Bytes) : Nat := m.length + 2

/-- `while(deref(pos,ring)) ++pos;` -/
def scanNulU (m : Bytes) : Nat → Nat → Rd Nat
  | 0, _ => .hang
  | f + 1, pos =>
    match m[pos]? with
    | none => .oob
    | some c => if c = 0 then .ok pos else scanNulU m f (u32 (pos + 1))

/-- `for(int i=0; i<4; ++i) if(deref(++pos, ring)) break;` -/
def nullWordU (m : Bytes) : Nat → Nat → Rd Nat
  | 0, pos => .ok pos
  | k + 1, pos =>
    match m[u32 (pos + 1)]? with
    | none => .oob
    | some c => if c ≠ 0 then .ok (u32 (pos + 1)) else nullWordU m k (u32 (pos + 1))

/-- the type tags: `deref(p), deref(p+1), …` up to the first 0 -/
def tagsFromU (m : Bytes) : Nat → Nat → Rd Bytes
  | 0, _ => .hang
  | f + 1, p =>
    match m[p]? with
    | none => .oob
    | some c =>
      if c = 0 then .ok []
      else
        match tagsFromU m f (u32 (p + 1)) with
        | .ok ts => .ok (c :: ts)
        | .oob => .oob
        | .hang => .hang

/-- four `deref`s at `pos, pos+1, pos+2, pos+3` (on `unsigned`), big-endian -/
def rd32U (m : Bytes) (pos : Nat) : Option UInt32 :=
  match m[pos]?, m[u32 (pos + 1)]?, m[u32 (pos + 2)]?, m[u32 (pos + 3)]? with
  | some b0, some b1, some b2, some b3 => some (get32 b0 b1 b2 b3)
  | _, _, _, _ => none

/-- the `while(toparse)` loop of `rtosc_message_ring_length` -/
def lenLoopU (m : Bytes) (aligned : Nat) : Nat → Bytes → Nat → Rd Nat
  | 0, _, pos => .ok pos
  | _ + 1, [], _ => .hang          -- not reachable: `toparse` counts tags of this very list
  | tp + 1, t :: ts, pos =>
    if t = 104 ∨ t = 116 ∨ t = 100 then lenLoopU m aligned tp ts (u32 (pos + 8))
    else if t = 109 ∨ t = 114 ∨ t = 99 ∨ t = 102 ∨ t = 105 then
      lenLoopU m aligned tp ts (u32 (pos + 4))
    else if t = 83 ∨ t = 115 then
      match scanNulU m (fuelU m) pos with                    -- while(deref(pos,ring)) ++pos;
      | .ok p => lenLoopU m aligned tp ts (u32 (p + (4 - usub p aligned % 4)))
      | .oob => .oob
      | .hang => .hang
    else if t = 98 then
      match rd32U m pos with
      | none => .oob
      | some v =>
        let pos := u32 (pos + 4)
        let pos := u32 (pos + v.toNat)
        let pos := if usub pos aligned % 4 ≠ 0 then u32 (pos + (4 - usub pos aligned % 4)) else pos
        lenLoopU m aligned tp ts pos
    else lenLoopU m aligned (tp + 1) ts pos

/-- the `do … while(advance)` loop of `bundle_ring_length` (rtosc.c:551); `return 0` when the
    end of an element is no `unsigned` position (fix C06-bundle-length-wrap) -/
def bundleLoopU (m : Bytes) : Nat → Nat → Rd Nat
  | 0, _ => .hang
  | f + 1, pos =>
    match rd32U m pos with
    | none => .oob
    | some v =>
      if v.toNat ≠ 0 ∧ pos + 4 + v.toNat > 4294967295 then .ok 0
      else if v.toNat ≠ 0 then bundleLoopU m f (u32 (pos + u32 (4 + v.toNat))) else .ok pos

/-- `deref(0)=='#' && deref(1)=='b' && …` with C's short-circuit evaluation -/
def magicU (m : Bytes) : Bytes → Nat → Option Bool
  | [], _ => some true
  | e :: es, p =>
    match m[p]? with
    | none => none
    | some c => if c = e then magicU m es (p + 1) else some false

/-- `rtosc_message_length(msg, (size_t)-1)`; `m` is the block `msg` points into.
    The final `pos <= ring[0].len+ring[1].len ? pos : 0` always yields `pos`. -/
def messageLengthU (m : Bytes) : Rd Nat :=
  match magicU m bundleMagic 0 with
  | none => .oob
  | some true => bundleLoopU m (fuelU m) 16
  | some false =>
    match scanNulU m (fuelU m) 0 with                -- while(deref(pos++,ring)); pos--;
    | .oob => .oob
    | .hang => .hang
    | .ok pos =>
      match nullWordU m 4 pos with
      | .oob => .oob
      | .hang => .hang
      | .ok pos =>
        match m[pos]? with
        | none => .oob
        | some c =>
          if c ≠ 44 then .ok 0
          else
            let aligned := pos
            let arguments := u32 (pos + 1)
            match scanNulU m (fuelU m) (u32 (pos + 1)) with    -- while(deref(++pos,ring));
            | .oob => .oob
            | .hang => .hang
            | .ok pos =>
              let pos := u32 (pos + (4 - usub pos aligned % 4))
              match tagsFromU m (fuelU m) arguments with
              | .oob => .oob
              | .hang => .hang
              | .ok tags => lenLoopU m aligned (nreserved tags) tags pos

/-! ### `rtosc_bundle` -/

/-- destination memory and the out-of-bounds-store flag -/
structure BW where
  buf : Bytes
  oob : Bool
deriving DecidableEq, Repr

/-- `buffer[i] = b` -/
def BW.store (w : BW) (i : Nat) (b : UInt8) : BW :=
  if i < w.buf.length then { w with buf := w.buf.set i b } else { w with oob := true }

/-- consecutive stores from index `i` on (`strcpy`, `emplace_uint32/64`, `memcpy`) -/
def BW.stores (w : BW) : Nat → Bytes → BW
  | _, [] => w
  | i, b :: r => (w.store i b).stores (i + 1) r

/-- inside the buffer, `stores` is a splice -/
theorem stores_eq : ∀ (l : Bytes) (w : BW) (i : Nat), i + l.length ≤ w.buf.length →
    w.stores i l = ⟨w.buf.take i ++ l ++ w.buf.drop (i + l.length), w.oob⟩ := by
  intro l
  induction l with
  | nil => intro w i _; simp [BW.stores]
  | cons b r ih =>
    intro w i h
    simp only [List.length_cons] at h
    have hi : i < w.buf.length := by omega
    simp only [BW.stores, BW.store, if_pos hi]
    rw [ih _ (i + 1) (by simp; omega)]
    simp only [List.length_cons]
    have h1 : (w.buf.set i b).take (i + 1) = w.buf.take i ++ [b] := by
      apply List.ext_getElem?
      intro j
      grind
    have h2 : (w.buf.set i b).drop (i + 1 + r.length) = w.buf.drop (i + (r.length + 1)) := by
      rw [List.drop_set_of_lt (by omega)]; congr 1; omega
    rw [h1, h2]; simp

/-- what the compiled driver runs for `BW.stores`: the splice when the stores stay inside the
    buffer (linear instead of quadratic on a `List`), the byte-by-byte definition otherwise.
    Proved equal below; the theorems are all about `BW.stores`. -/
def BW.storesFast (w : BW) (i : Nat) (l : Bytes) : BW :=
  if i + l.length ≤ w.buf.length then ⟨w.buf.take i ++ l ++ w.buf.drop (i + l.length), w.oob⟩
  else w.stores i l

@[csimp] theorem BW.stores_eq_storesFast : @BW.stores = @BW.storesFast := by
  funext w i l
  unfold BW.storesFast
  split
  · next h => exact stores_eq l w i h
  · rfl

/-- the first pass of the repaired `rtosc_bundle`:
    `total_len += 4+rtosc_message_length(va_arg(va, const char*), -1)` -/
def bundleTotal : Nat → List Bytes → Rd Nat
  | acc, [] => .ok acc
  | acc, blk :: rest =>
    match messageLengthU blk with
    | .ok size => bundleTotal (acc + (4 + size)) rest
    | .oob => .oob
    | .hang => .hang

/-- the element loop: `size = rtosc_message_length(msg,-1); emplace_uint32(buffer,size);
    buffer += 4; memcpy(buffer,msg,size); buffer += size;`  (`memcpy` reads `size` bytes of
    the element's block) -/
def bundleWrite : BW → Nat → List Bytes → Rd (BW × Nat)
  | w, pos, [] => .ok (w, pos)
  | w, pos, blk :: rest =>
    match messageLengthU blk with
    | .ok size =>
      if size ≤ blk.length then
        let w := w.stores pos (put32 (UInt32.ofNat size))
        let w := w.stores (pos + 4) (blk.take size)
        bundleWrite w (pos + 4 + size) rest
      else .oob
    | .oob => .oob
    | .hang => .hang

/-- destination afterwards, return value, out-of-bounds-store flag -/
structure BResult where
  buf : Bytes
  ret : Nat
  oob : Bool
deriving DecidableEq, Repr

/-- `strcpy(buffer,"#bundle"); emplace_uint64(buffer+8, tt);` then the element loop -/
def bundleBody (w : BW) (tt : UInt64) (elems : List Bytes) : Rd BResult :=
  let w := w.stores 0 bundleMagic
  let w := w.stores 8 (put64 tt)
  match bundleWrite w 16 elems with
  | .ok (w, pos) => .ok ⟨w.buf, pos, w.oob⟩
  | .oob => .oob
  | .hang => .hang

/-- `rtosc_bundle(buffer, len, tt, elms, e_1, …, e_elms)` with `len = buffer.length`,
    `elems` = the blocks the element pointers point into (after fixes/C02-bundle-len.patch). -/
def bundle (buffer : Bytes) (tt : UInt64) (elems : List Bytes) : Rd BResult :=
  match bundleTotal 16 elems with
  | .oob => .oob
  | .hang => .hang
  | .ok total =>
    if total > buffer.length then .ok ⟨zeros buffer.length, 0, false⟩   -- memset; return 0
    else bundleBody ⟨zeros buffer.length, false⟩ tt elems

/-- the body of `rtosc_bundle` before the repair: `len` is only used by the `memset` -/
def bundleUnfixed (buffer : Bytes) (tt : UInt64) (elems : List Bytes) : Rd BResult :=
  bundleBody ⟨zeros buffer.length, false⟩ tt elems

/-! ### the readers.  `m` is the block `buffer` points into -/

/-- `lengths += extract_uint32(lengths)/4+1` on a `const uint32_t *`, in bytes -/
def wordsAdvance (v : UInt32) : Nat := (v.toNat / 4 + 1) * 4

/-- the loop of `rtosc_bundle_elements` (rtosc.c:763); `p` = POS, `n` = elms -/
def elementsLoop (m : Bytes) (len : Nat) : Nat → Nat → Nat → Rd Nat
  | 0, _, _ => .hang
  | f + 1, p, n =>
    if p < len then
      match rd32 m p with
      | none => .oob
      | some v =>
        if v = 0 then .ok n
        else if p + wordsAdvance v > len then .ok n
        else elementsLoop m len f (p + wordsAdvance v) (n + 1)
    else .ok n

/-- `rtosc_bundle_elements(buffer, len)`; every round moves POS forward by at least 4 and
    needs POS < len, so `len + 1` rounds of fuel are never used up. -/
def bundleElements (m : Bytes) (len : Nat) : Rd Nat := elementsLoop m len (len + 1) 16 0

/-- the loop of `rtosc_bundle_fetch`: `k = elm - elm_pos` rounds to go, `p` = offset of `lengths` -/
def fetchLoop (m : Bytes) : Nat → Nat → Option (Option Nat)
  | 0, p => some (some (p + 4))                       -- elm == elm_pos : lengths+1
  | k + 1, p =>
    match rd32 m p with
    | none => none
    | some v => if v = 0 then some none else fetchLoop m k (p + wordsAdvance v)

/-- `rtosc_bundle_fetch(buffer, elm)`: offset of the element (`some none` = NULL;
    `none` = a size field outside the block is read) -/
def bundleFetch (m : Bytes) (elm : Nat) : Option (Option Nat) := fetchLoop m elm 16

/-- the loop of `rtosc_bundle_size`; `k = (elm+1) - elm_pos` -/
def bsizeLoop (m : Bytes) : Nat → Nat → Nat → Option Nat
  | 0, _, last => some last
  | k + 1, p, last =>
    match rd32 m p with
    | none => none
    | some v => if v = 0 then some last else bsizeLoop m k (p + wordsAdvance v) v.toNat

/-- `rtosc_bundle_size(buffer, elm)`; `elm+1` is computed on `unsigned` -/
def bundleSize (m : Bytes) (elm : Nat) : Option Nat := bsizeLoop m (u32 (elm + 1)) 16 0

/-- `rtosc_bundle_p(msg)` = `!strcmp(msg,"#bundle")`: bytes are compared up to the first
    difference or the common terminator -/
def bundleP (m : Bytes) : Option Bool := magicU m bundleMagic 0

/-- `rtosc_bundle_timetag(msg)` -/
def bundleTimetag (m : Bytes) : Option UInt64 := rd64 m 8

/-! ### `append_bundle` (subtree-serialize.cpp:25) -/

/-- `append_bundle(dst, src, max_len, dst_len, src_len)`; `dst`, `src` are the blocks. -/
def appendBundle (dst src : Bytes) (maxLen dstLen srcLen : Nat) : Rd BResult :=
  if maxLen < dstLen + srcLen + 4 ∨ dstLen = 0 ∨ srcLen = 0 then .ok ⟨dst, 0, false⟩
  else if srcLen ≤ src.length then
    let w : BW := ⟨dst, false⟩
    let w := w.stores dstLen (put32 (UInt32.ofNat srcLen))
    let w := w.stores (dstLen + 4) (src.take srcLen)
    .ok ⟨w.buf, dstLen + srcLen + 4, w.oob⟩
  else .oob

/-! ### callers that own a block and *claim* a capacity (C02)

  In `amessage` / `vmessage` the capacity is the length of the buffer (`len = buffer.length`), so a
  caller that passes a wrong `len` cannot be expressed.  `callAt` separates the two: the caller
  owns the block `blk` and tells the constructor `len`.  The constructor behaves as on a buffer of
  `len` bytes; a store at an index `≥ blk.length` is outside the caller's block (flag `oob`).
  With the NULL pointer the constructors return the size before they look at `len`. -/

/-- `call` is a constructor with `len = buffer.length`; the bytes it may touch are
    `[0, len)` when it fails closed (`memset(buffer,0,len)`) and `[0, size)` when it fits. -/
def callAt (call : Option Bytes → Option AResult) (blk : Option Bytes) (len : Nat) : Option AResult :=
  match blk with
  | none => call none                                   -- `if(!buffer) return total_len;`
  | some b =>
    match call (some (b.take len ++ zeros (len - b.length))), call none with
    | some r, some z =>
      let touched := if z.ret > len then len else z.ret
      some ⟨r.buf.map (fun x => x.take b.length ++ b.drop len), r.ret,
            r.oob || decide (b.length < touched)⟩
    | _, _ => none

/-- `rtosc_amessage(buffer, len, address, arguments, args)` as a C caller sees it: the block the
    pointer points into and the `len` it passes are independent. -/
def amessageAt (blk : Option Bytes) (len : Nat) (addr tags : Bytes) (args : List CArg) : Option AResult :=
  callAt (fun buf => amessage buf addr tags args) blk len

/-- `rtosc_vmessage(buffer, len, address, arguments, va)` likewise -/
def vmessageAt (narrow : UInt64 → UInt32) (blk : Option Bytes) (len : Nat) (addr tags : Bytes)
    (va : List VaArg) : Option AResult :=
  callAt (fun buf => vmessage narrow buf addr tags va) blk len

/-- `rtosc_message(buffer, len, address, arguments, ...)` (rtosc.c:168):
    `va_start; result = rtosc_vmessage(buffer,len,address,arguments,va); va_end; return result;`
    — nothing is stored by `rtosc_message` itself.  `va` = the promoted values of the call site. -/
def rtoscMessage (narrow : UInt64 → UInt32) (blk : Option Bytes) (len : Nat) (addr tags : Bytes)
    (va : List VaArg) : Option AResult :=
  vmessageAt narrow blk len addr tags va

/-! ### the C++ wrappers that build into fixed buffers (C02) -/

/-- `ThreadLink::writeArray` up to the hand-off to the ring:
    `rtosc_amessage(write_buffer, MaxMsg, dest, args, aargs)`; `wbuf` is the block behind
    `write_buffer` (`new char[MaxMsg]` in the constructor), `maxMsg` the member `MaxMsg`. -/
def tlinkWriteArray (wbuf : Bytes) (maxMsg : Nat) (addr tags : Bytes) (args : List CArg) : Option AResult :=
  amessageAt (some wbuf) maxMsg addr tags args

/-- `ThreadLink::write(dest, args, ...)`: `rtosc_vmessage(write_buffer, MaxMsg, dest, args, va)`;
    `va` are the promoted values of the call site. -/
def tlinkWrite (narrow : UInt64 → UInt32) (wbuf : Bytes) (maxMsg : Nat) (addr tags : Bytes)
    (va : List VaArg) : Option AResult :=
  vmessageAt narrow (some wbuf) maxMsg addr tags va

/-- `RtData::reply(path,args,...)` / `RtData::broadcast(path,args,...)`:
    `char buffer[N]; rtosc_vmessage(buffer,C,path,args,va);` — `stack` is what the `N` bytes hold
    before the call, `cap` is the `C` the wrapper passes (N = C = 8192 in the unchanged source;
    the check reads both numbers from src/cpp/ports.cpp of the tree it runs on). -/
def rtdataReply (narrow : UInt64 → UInt32) (stack : Bytes) (cap : Nat) (addr tags : Bytes)
    (va : List VaArg) : Option AResult :=
  vmessageAt narrow (some stack) cap addr tags va

/-! ### taking a packet apart completely (what a receiver does with the readers) -/

/-- a packet taken apart: the bytes of a message, or the time tag and the packets of a bundle -/
inductive Packet where
  | msg (b : Bytes)
  | bundle (tt : UInt64) (es : List Packet)

/-- `for i in idx: decomp(rtosc_bundle_fetch(p,i), rtosc_bundle_size(p,i))` -/
def elemsVia (f : Bytes → Nat → Rd Packet) (p : Bytes) : List Nat → Rd (List Packet)
  | [] => .ok []
  | i :: is =>
    match bundleFetch p i, bundleSize p i with
    | some (some off), some sz =>
      match f (p.drop off) sz with
      | .ok x =>
        match elemsVia f p is with
        | .ok xs => .ok (x :: xs)
        | .oob => .oob
        | .hang => .hang
      | .oob => .oob
      | .hang => .hang
    | _, _ => .oob

/-- The recursive decomposition of the packet of `size` bytes at the head of block `p`, the way
    `harness/bundle.cpp` (and any receiver) does it: `rtosc_bundle_p`; for a bundle the time tag,
    `rtosc_bundle_elements(p,size)` and for every index `rtosc_bundle_fetch/size`, recursively.
    The first argument bounds the nesting depth followed. -/
def decompose : Nat → Bytes → Nat → Rd Packet
  | 0, _, _ => .hang
  | d + 1, p, size =>
    match bundleP p with
    | none => .oob
    | some false => if size ≤ p.length then .ok (.msg (p.take size)) else .oob
    | some true =>
      match bundleTimetag p with
      | none => .oob
      | some tt =>
        match bundleElements p size with
        | .oob => .oob
        | .hang => .hang
        | .ok n =>
          match elemsVia (decompose d) p (List.range' 0 n) with
          | .ok xs => .ok (.bundle tt xs)
          | .oob => .oob
          | .hang => .hang

/-! ### Specification: what a bundle *is* -/

/-- An OSC packet: a message, or a bundle of packets with a time tag. -/
inductive Elem where
  | msg (m : Msg)
  | bundle (tt : UInt64) (es : List Elem)

mutual
/-- OSC 1.0: `"#bundle\0"`, the 64-bit time tag, then every element preceded by its size. -/
def Spec.encodeElem : Elem → Bytes
  | .msg m => Spec.encode m
  | .bundle tt es => bundleMagic ++ be64 tt ++ Spec.encodeElems es
def Spec.encodeElems : List Elem → Bytes
  | [] => []
  | e :: es => be32 (UInt32.ofNat (Spec.encodeElem e).length) ++ Spec.encodeElem e ++ Spec.encodeElems es
end

mutual
/-- The packets the property quantifies over: every message well-formed with an address that
    does not start with '#' (OSC addresses start with '/'), every bundle shorter than 2^32. -/
def Elem.WF : Elem → Prop
  | .msg m => m.WF ∧ m.addr.head? ≠ some 35
  | .bundle tt es => Elems.WF es ∧ (Spec.encodeElem (.bundle tt es)).length < 4294967296
def Elems.WF : List Elem → Prop
  | [] => True
  | e :: es => Elem.WF e ∧ Elems.WF es
end

mutual
/-- what a packet has to decompose into: its own structure, every message as its encoding -/
def Elem.packet : Elem → Packet
  | .msg m => .msg (Spec.encode m)
  | .bundle tt es => .bundle tt (Elems.packets es)
def Elems.packets : List Elem → List Packet
  | [] => []
  | e :: es => Elem.packet e :: Elems.packets es
end

mutual
/-- nesting depth: 0 for a message, 1 for a bundle of messages, … -/
def Elem.depth : Elem → Nat
  | .msg _ => 0
  | .bundle _ es => Elems.depth es + 1
def Elems.depth : List Elem → Nat
  | [] => 0
  | e :: es => max (Elem.depth e) (Elems.depth es)
end

def Elem.isBundle : Elem → Bool
  | .msg _ => false
  | .bundle _ _ => true

/-- distance of the size field of element `i` from the first size field -/
def Spec.elemRel : List Elem → Nat → Nat
  | [], _ => 0
  | _ :: _, 0 => 0
  | e :: es, i + 1 => 4 + (Spec.encodeElem e).length + Spec.elemRel es i

/-- offset of element `i` inside `Spec.encodeElem (.bundle tt es)` -/
def Spec.elemOffset (es : List Elem) (i : Nat) : Nat := 20 + Spec.elemRel es i

/-- the block `blk` an element pointer points into starts with the encoding of `e` -/
def Elem.Holds (blk : Bytes) (e : Elem) : Prop := Spec.encodeElem e <+: blk

/-- behind a bundle the block goes on with a zero word (a message needs nothing behind it) -/
def Elem.Terminated (blk : Bytes) (e : Elem) : Prop :=
  e.isBundle = true → (blk.drop (Spec.encodeElem e).length).take 4 = [0, 0, 0, 0]

instance (blk : Bytes) (e : Elem) : Decidable (Elem.Terminated blk e) := by
  unfold Elem.Terminated; exact inferInstance

/-- **Trigger of known finding C08-K4**: some element is a bundle whose block does not go on
    with a zero word — `rtosc_bundle` asks `rtosc_message_length(msg,-1)` for its size, and
    `bundle_ring_length` reads the word behind the last element (rtosc.c:750 / 551). -/
def NestedUnterminated : List Elem → List Bytes → Prop
  | e :: es, blk :: blks => ¬ Elem.Terminated blk e ∨ NestedUnterminated es blks
  | _, _ => False

instance : ∀ (es : List Elem) (blks : List Bytes), Decidable (NestedUnterminated es blks)
  | [], _ => isFalse (by simp [NestedUnterminated])
  | _ :: _, [] => isFalse (by simp [NestedUnterminated])
  | e :: es, blk :: blks =>
    have := instDecidableNestedUnterminated es blks
    decidable_of_iff (¬ Elem.Terminated blk e ∨ NestedUnterminated es blks) (by simp [NestedUnterminated])

/-- element by element, the blocks start with the encodings -/
def BlocksHold : List Elem → List Bytes → Prop
  | [], [] => True
  | e :: es, blk :: blks => Elem.Holds blk e ∧ BlocksHold es blks
  | _, _ => False

end Rtosc.Osc
