/-
  C01 / C07 — model of the message readers of src/rtosc.c:
    rtosc_argument_string, rtosc_narguments, rtosc_type, arg_start, arg_size, arg_off,
    extract_arg, rtosc_argument, advance_past_dummy_args, rtosc_itr_begin/next/end.

  Conventions
  * The message is the memory block `m : Bytes` (exactly the bytes the caller owns); a
    pointer into it is an offset.  Every byte is read with `m[p]?`; running off the end of
    `m` makes the whole function return `none` ("out-of-bounds read") — a read is never
    defaulted.  `none` is therefore the model's prediction that the real code reads
    outside the block.
  * Values that the C code returns as `unsigned` are reduced modulo 2^32 (`u32`); pointer
    arithmetic is on 64-bit pointers and is not reduced.
  * `rtosc_narguments` is modelled after fix `fixes/C01-narguments.patch`; `arg_start`,
    `arg_off` and the string case of `arg_size` after `fixes/C07-argstart-empty-typestring.patch`
    and `fixes/C07-empty-string-size.patch` (sizes are measured from the first byte).
-/
import RtoscModel.Osc.Encode
namespace Rtosc.Osc
open Rtosc

/-- index of the first NUL byte (`none`: there is none, the scan leaves the block) -/
def nulIdx : Bytes → Option Nat
  | [] => none
  | b :: r => if b = 0 then some 0 else (nulIdx r).map (· + 1)

/-- index of the first non-NUL byte -/
def nonNulIdx : Bytes → Option Nat
  | [] => none
  | b :: r => if b ≠ 0 then some 0 else (nonNulIdx r).map (· + 1)

/-- `while(*++p);` — from offset `p` to the first NUL at an offset `> p` -/
def skipToNul (m : Bytes) (p : Nat) : Option Nat :=
  (nulIdx (m.drop (p + 1))).map (· + (p + 1))

/-- `while(!*++p);` — from offset `p` to the first non-NUL at an offset `> p` -/
def skipNuls (m : Bytes) (p : Nat) : Option Nat :=
  (nonNulIdx (m.drop (p + 1))).map (· + (p + 1))

/-- `while(*p) ++p;` — from offset `p` to the first NUL at an offset `≥ p` -/
def scanToNul (m : Bytes) (p : Nat) : Option Nat :=
  (nulIdx (m.drop p)).map (· + p)

/-- `rtosc_argument_string` (rtosc.c:18): offset of the first type tag. -/
def argString (m : Bytes) : Option Nat :=
  match skipToNul m 0 with                -- while(*++msg);   skip pattern
  | none => none
  | some p =>
    match skipNuls m p with               -- while(!*++msg);  skip null
    | none => none
    | some q => some (q + 1)              -- skip comma

/-- the counting loop of `rtosc_narguments` (repaired: tests the *current* character) -/
def countArgs : Bytes → Option Nat
  | [] => none
  | c :: r =>
    if c = 0 then some 0
    else (countArgs r).map (· + (if c = 93 ∨ c = 91 then 0 else 1))

/-- `rtosc_narguments` (rtosc.c:26) -/
def narguments (m : Bytes) : Option Nat :=
  match argString m with
  | none => none
  | some a => (countArgs (m.drop a)).map u32

/-- the loop of `rtosc_type`, on the memory from `arg` on -/
def typeLoop : Bytes → Nat → Option UInt8
  | [], _ => none
  | c :: r, n =>
    if c = 91 ∨ c = 93 then typeLoop r n
    else if n = 0 ∨ c = 0 then some c
    else typeLoop r (n - 1)

/-- `rtosc_type` (rtosc.c:74) -/
def typeAt (m : Bytes) (n : Nat) : Option UInt8 :=
  match argString m with
  | none => none
  | some a => typeLoop (m.drop a) n

/-- the pointer computed by `arg_start` / the first lines of `arg_off`
    (after fix C07-argstart-empty-typestring):
    `arg_pos = args; while(*arg_pos) ++arg_pos; arg_pos += 4-(arg_pos-aligned_ptr)%4;` -/
def argBase (m : Bytes) (args : Nat) : Option Nat :=
  match scanToNul m args with
  | none => none
  | some p => some (p + (4 - (p - (args - 1)) % 4))

/-- `arg_start` (rtosc.c:88) -/
def argStart (m : Bytes) : Option Nat :=
  match argString m with
  | none => none
  | some a => (argBase m a).map u32

/-- `(b0<<24) | (b1<<16) | (b2<<8) | b3` -/
def get32 (b0 b1 b2 b3 : UInt8) : UInt32 :=
  (b0.toUInt32 <<< 24) ||| (b1.toUInt32 <<< 16) ||| (b2.toUInt32 <<< 8) ||| b3.toUInt32

def get64 (b0 b1 b2 b3 b4 b5 b6 b7 : UInt8) : UInt64 :=
  (b0.toUInt64 <<< 56) ||| (b1.toUInt64 <<< 48) ||| (b2.toUInt64 <<< 40) ||| (b3.toUInt64 <<< 32) |||
  (b4.toUInt64 <<< 24) ||| (b5.toUInt64 <<< 16) ||| (b6.toUInt64 <<< 8) ||| b7.toUInt64

/-- four bytes at offset `p`, big-endian -/
def rd32 (m : Bytes) (p : Nat) : Option UInt32 :=
  match m[p]?, m[p + 1]?, m[p + 2]?, m[p + 3]? with
  | some b0, some b1, some b2, some b3 => some (get32 b0 b1 b2 b3)
  | _, _, _, _ => none

def rd64 (m : Bytes) (p : Nat) : Option UInt64 :=
  match m[p]?, m[p + 1]?, m[p + 2]?, m[p + 3]?, m[p + 4]?, m[p + 5]?, m[p + 6]?, m[p + 7]? with
  | some b0, some b1, some b2, some b3, some b4, some b5, some b6, some b7 =>
    some (get64 b0 b1 b2 b3 b4 b5 b6 b7)
  | _, _, _, _, _, _, _, _ => none

/-- `arg_size(arg_mem, type)` (rtosc.c:102), `arg_mem = m + p`; result as `unsigned`. -/
def argSize (m : Bytes) (p : Nat) (t : UInt8) : Option Nat :=
  if !hasReserved t then some 0
  else if t = 104 ∨ t = 116 ∨ t = 100 then some 8
  else if t = 109 ∨ t = 114 ∨ t = 102 ∨ t = 99 ∨ t = 105 then some 4
  else if t = 83 ∨ t = 115 then
    match scanToNul m p with                       -- while(*arg_pos) ++arg_pos;
    | none => none
    | some q => some (u32 (q - p + (4 - (q - p) % 4)))
  else if t = 98 then
    match rd32 m p with
    | none => none
    | some len =>
      let bl := len.toNat
      let bl := if bl % 4 ≠ 0 then u32 (bl + (4 - bl % 4)) else bl   -- uint32_t blob_length
      some (u32 (4 + bl))
  else some 4294967295                             -- `return -1` (not reachable)

/-- number of leading `[`/`]` bytes (`advance_past_dummy_args`) -/
def bracketRun : Bytes → Option Nat
  | [] => none
  | c :: r => if c = 91 ∨ c = 93 then (bracketRun r).map (· + 1) else some 0

/-- `advance_past_dummy_args(m + p)` as an offset -/
def advancePast (m : Bytes) (p : Nat) : Option Nat :=
  (bracketRun (m.drop p)).map (· + p)

/-- the `while(idx--)` loop of `arg_off`; `tags` is the memory from `args` on,
    `pos` the offset `arg_pos - msg`. -/
def offLoop (m : Bytes) : Bytes → Nat → Nat → Option Nat
  | _, 0, pos => some pos
  | [], _ + 1, _ => none
  | c :: r, idx + 1, pos =>
    if c = 91 ∨ c = 93 then offLoop m r (idx + 1) pos     -- idx++ : not a valid arg idx
    else
      match argSize m pos c with
      | none => none
      | some s => offLoop m r idx (pos + s)

/-- `arg_off` (rtosc.c:140) -/
def argOff (m : Bytes) (idx : Nat) : Option Nat :=
  match typeAt m idx with
  | none => none
  | some t =>
    if !hasReserved t then some 0
    else
      match argString m with
      | none => none
      | some a =>
        match argBase m a, advancePast m a with
        | some pos, some a' => (offLoop m (m.drop a') idx pos).map u32
        | _, _ => none

/-- The `rtosc_arg_t` a reader gets back; pointers are offsets into the message. -/
inductive CVal where
  | zero                                -- the zero-initialised union (N, I, …)
  | tf (b : Bool)                       -- .T
  | w32 (v : UInt32)
  | w64 (v : UInt64)
  | midi (a b c d : UInt8)
  | str (off : Nat)                     -- .s
  | blob (len : UInt32) (off : Nat)     -- .b.len (int32 bit pattern), .b.data
deriving DecidableEq, Repr

/-- `extract_arg(m + p, type)` (rtosc.c:436) -/
def extractArg (m : Bytes) (p : Nat) (t : UInt8) : Option CVal :=
  if !hasReserved t then
    if t = 84 then some (.tf true) else if t = 70 then some (.tf false) else some .zero
  else if t = 104 ∨ t = 116 ∨ t = 100 then (rd64 m p).map .w64
  else if t = 114 ∨ t = 102 ∨ t = 99 ∨ t = 105 then (rd32 m p).map .w32
  else if t = 109 then
    match m[p]?, m[p + 1]?, m[p + 2]?, m[p + 3]? with
    | some a, some b, some c, some d => some (.midi a b c d)
    | _, _, _, _ => none
  else if t = 98 then (rd32 m p).map (fun len => .blob len (p + 4))
  else if t = 83 ∨ t = 115 then some (.str p)
  else some .zero

/-- `rtosc_argument` (rtosc.c:538) -/
def argument (m : Bytes) (idx : Nat) : Option CVal :=
  match typeAt m idx, argOff m idx with
  | some t, some off => extractArg m off t
  | _, _ => none

/-- `rtosc_arg_itr_t` -/
structure Itr where
  typePos : Nat
  valuePos : Nat
deriving DecidableEq, Repr

/-- `rtosc_itr_begin` (rtosc.c:506) -/
def itrBegin (m : Bytes) : Option Itr :=
  match argString m with
  | none => none
  | some a =>
    match advancePast m a, argStart m with
    | some tp, some vp => some ⟨tp, vp⟩
    | _, _ => none

/-- `rtosc_itr_next` (rtosc.c:515): the (type, value) pair and the advanced iterator.
    `int size = arg_size(..)`: a size `≥ 2^31` turns negative and moves `value_pos`
    backwards; if that leaves the block the result is `none`. -/
def itrNext (m : Bytes) (it : Itr) : Option ((UInt8 × CVal) × Itr) :=
  match m[it.typePos]? with
  | none => none
  | some t =>
    match (if t ≠ 0 then extractArg m it.valuePos t else some CVal.zero),
          advancePast m (it.typePos + 1), argSize m it.valuePos t with
    | some v, some tp, some size =>
      if size < 2147483648 then some ((t, v), ⟨tp, it.valuePos + size⟩)
      else if 4294967296 - size ≤ it.valuePos then
        some ((t, v), ⟨tp, it.valuePos - (4294967296 - size)⟩)
      else none
    | _, _, _ => none

/-- `rtosc_itr_end` (rtosc.c:533) -/
def itrEnd (m : Bytes) (it : Itr) : Option Bool :=
  match m[it.typePos]? with
  | none => none
  | some t => some (t = 0)

/-- `itr = begin; while(!end(itr)) out.push(next(&itr));` — fuel bounds the number of
    rounds; each round moves `type_pos` forward, so `m.length + 1` rounds always suffice. -/
def iterLoop (m : Bytes) : Nat → Itr → Option (List (UInt8 × CVal))
  | 0, _ => none
  | fuel + 1, it =>
    match itrEnd m it with
    | none => none
    | some true => some []
    | some false =>
      match itrNext m it with
      | none => none
      | some (x, it') => (iterLoop m fuel it').map (x :: ·)

def iterate (m : Bytes) : Option (List (UInt8 × CVal)) :=
  match itrBegin m with
  | none => none
  | some it => iterLoop m (m.length + 1) it

/-- What the caller can observe of a returned union: pointers are followed
    (string up to its NUL, `len` blob bytes); `none` = that read leaves the block. -/
def CVal.view (m : Bytes) : CVal → Option Val
  | .zero => some .nil
  | .tf b => some (.bool b)
  | .w32 v => some (.arg (.w32 v))
  | .w64 v => some (.arg (.w64 v))
  | .midi a b c d => some (.arg (.midi a b c d))
  | .str off => (cstr (m.drop off)).map (fun s => .arg (.str s))
  | .blob len off =>
    if len.toNat < 2147483648 ∧ off + len.toNat ≤ m.length then
      some (.arg (.blob ((m.drop off).take len.toNat)))
    else none

/-- the iterator's output as the caller observes it: every returned union viewed -/
def iterateView (m : Bytes) : Option (List (UInt8 × Val)) :=
  match iterate m with
  | none => none
  | some l => l.mapM (fun x => (x.2.view m).map (fun v => (x.1, v)))

/-- `rtosc_argument(m, idx)` as the caller observes it -/
def argumentView (m : Bytes) (idx : Nat) : Option Val :=
  match argument m idx with
  | none => none
  | some v => v.view m

/-- the C string at offset `p` (e.g. the type string at `argString`) -/
def cstrAt (m : Bytes) (p : Nat) : Option Bytes := cstr (m.drop p)

end Rtosc.Osc
