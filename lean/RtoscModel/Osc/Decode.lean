/-
  C07 — specification side: an OSC 1.0 message decoder that shares nothing with the code under
  verification (no positions, no `unsigned`, no iterator): it peels OSC-strings and arguments off
  the front of the byte list.

    decode    : the strict decoder.  Every OSC-string is NUL-terminated and NUL-padded to a
                multiple of 4, the address starts with '/' and is printable ASCII, the type tag
                string starts with ',' and contains only the 15 value tags and '[' ']', a blob
                has a non-negative length, fits, and is NUL-padded, and the message ends exactly
                where the last argument ends.
    decodeLax : the same decoder, except that it does not look at the *content* of the padding
                bytes behind the terminator of the type tag string / of string arguments / behind
                blob data, and that it passes unknown type tags as tags without payload.
                (Used to state exactly which non-canonical encodings rtosc accepts.)

  `Msg`, `Arg`, `kind`, `Spec.values` are those of `Osc/Spec.lean` (C01).
  No Mathlib import: linked into `drv_valid` (the driver prints the trigger of finding C07-K1).
-/
import RtoscModel.Osc.Spec
namespace Rtosc.Osc
open Rtosc

/-- big-endian value of a byte string -/
def beVal (bs : Bytes) : Nat := bs.foldl (fun a b => a * 256 + b.toNat) 0

def printable (c : UInt8) : Bool := decide (32 ≤ c.toNat ∧ c.toNat ≤ 126)

def allZero (bs : Bytes) : Bool := bs.all (· = 0)

/-- An OSC-string at the head of `bs`: the bytes before the first NUL; the NUL and the padding
    that brings the length to a multiple of 4 are consumed.  `strict`: the padding is NUL. -/
def takeStr (strict : Bool) (bs : Bytes) : Option (Bytes × Bytes) :=
  let s := bs.takeWhile (· ≠ 0)
  let tot := s.length + (4 - s.length % 4)
  if tot ≤ bs.length ∧ (strict = false ∨ allZero ((bs.take tot).drop s.length) = true) then
    some (s, bs.drop tot)
  else none

/-- One argument of payload kind `k` at the head of `bs`. -/
def takeArg (strict : Bool) : Kind → Bytes → Option (Arg × Bytes)
  | .w32, b0 :: b1 :: b2 :: b3 :: r => some (.w32 (UInt32.ofNat (beVal [b0, b1, b2, b3])), r)
  | .w64, b0 :: b1 :: b2 :: b3 :: b4 :: b5 :: b6 :: b7 :: r =>
    some (.w64 (UInt64.ofNat (beVal [b0, b1, b2, b3, b4, b5, b6, b7])), r)
  | .midi, b0 :: b1 :: b2 :: b3 :: r => some (.midi b0 b1 b2 b3, r)
  | .str, bs => (takeStr strict bs).map fun (s, r) => (.str s, r)
  | .blob, b0 :: b1 :: b2 :: b3 :: r =>
    let n := beVal [b0, b1, b2, b3]
    let tot := n + pad4 n
    if n < 2147483648 ∧ tot ≤ r.length ∧ (strict = false ∨ allZero ((r.take tot).drop n) = true) then
      some (.blob (r.take n), r.drop tot)
    else none
  | _, _ => none

/-- the arguments announced by the type tags, in order -/
def decodeArgs (strict : Bool) : Bytes → Bytes → Option (List Arg × Bytes)
  | [], bs => some ([], bs)
  | t :: ts, bs =>
    match kind t with
    | none => decodeArgs strict ts bs
    | some k =>
      match takeArg strict k bs with
      | none => none
      | some (a, r) =>
        match decodeArgs strict ts r with
        | none => none
        | some (as, r') => some (a :: as, r')

def decodeWith (strict : Bool) (bs : Bytes) : Option Msg :=
  match takeStr true bs with
  | none => none
  | some (addr, r1) =>
    if addr.head? = some 47 ∧ addr.all printable = true then
      match takeStr strict r1 with
      | some (44 :: tags, r2) =>
        if strict = false ∨ tags.all isTag = true then
          match decodeArgs strict tags r2 with
          | some (args, []) => some ⟨addr, tags, args⟩
          | _ => none
        else none
      | _ => none
    else none

/-- The strict OSC 1.0 decoder. -/
def Spec.decode (bs : Bytes) : Option Msg := decodeWith true bs

/-- The decoder that ignores padding content and unknown tags. -/
def Spec.decodeLax (bs : Bytes) : Option Msg := decodeWith false bs

/-- Trigger of known finding C07-K1: the buffer is an OSC message for a decoder that ignores
    the content of padding bytes and the meaning of tags, but not for the strict decoder —
    i.e. some padding byte behind a string terminator or a blob is not NUL, or some type tag is
    not one of the 17 known ones. -/
def NonCanonical (bs : Bytes) : Prop :=
  (Spec.decodeLax bs).isSome = true ∧ (Spec.decode bs).isSome = false

instance (bs : Bytes) : Decidable (NonCanonical bs) := by unfold NonCanonical; exact inferInstance

end Rtosc.Osc
