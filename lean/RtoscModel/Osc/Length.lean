/-
  C01 / C06 / C07 / C08 — model of the length-from-bytes functions of src/rtosc.c:
    deref, bundle_ring_length, rtosc_message_ring_length, rtosc_message_length.

  * A ring is two memory segments; `deref` is the only read primitive and is bounds
    checked *by the code itself* (it yields 0 outside both segments), which the model
    states with proof-carrying indices — no read is defaulted by the model.
  * `unsigned pos` and `uint32_t` arithmetic wrap modulo 2^32 explicitly (`u32`, `usub`).
  * Loops run on fuel; exhaustion (`none`) means the real loop does not stop within
    `fuel` rounds.  `Ring.fuel` (total size + 2) is enough whenever `pos` does not wrap.
  * Mirrors the code after fixes C07-blob-len, C07-bundle-len, C07-empty-string-size,
    C06-bundle-length-wrap.
-/
import RtoscModel.Osc.Read
namespace Rtosc.Osc
open Rtosc

/-- `ring_t ring[2]` -/
structure Ring where
  d0 : Bytes
  d1 : Bytes
deriving DecidableEq, Repr

def Ring.total (r : Ring) : Nat := r.d0.length + r.d1.length

def Ring.fuel (r : Ring) : Nat := r.total + 2

/-- `deref(pos, ring)` (rtosc.c:545) -/
def Ring.deref (r : Ring) (pos : Nat) : UInt8 :=
  if h : pos < r.d0.length then r.d0[pos]
  else if h' : pos - r.d0.length < r.d1.length then r.d1[pos - r.d0.length]
  else 0

/-- `a - b` on `unsigned` -/
def usub (a b : Nat) : Nat := (a + 4294967296 - b % 4294967296) % 4294967296

/-- `while(deref(pos,ring)) ++pos;` : first position `≥ pos` whose byte is 0 -/
def scanNul (r : Ring) : Nat → Nat → Option Nat
  | 0, _ => none
  | f + 1, pos => if r.deref pos = 0 then some pos else scanNul r f (u32 (pos + 1))

/-- `for(int i=0; i<4; ++i) if(deref(++pos, ring)) break;` -/
def nullWord (r : Ring) : Nat → Nat → Nat
  | 0, pos => pos
  | k + 1, pos =>
    let pos := u32 (pos + 1)
    if r.deref pos ≠ 0 then pos else nullWord r k pos

/-- the bytes `deref(p), deref(p+1), …` up to the first 0 (the type tags) -/
def tagsFrom (r : Ring) : Nat → Nat → Option Bytes
  | 0, _ => none
  | f + 1, p =>
    let c := r.deref p
    if c = 0 then some [] else (tagsFrom r f (u32 (p + 1))).map (c :: ·)

def Ring.rd32 (r : Ring) (pos : Nat) : UInt32 :=
  get32 (r.deref pos) (r.deref (u32 (pos + 1))) (r.deref (u32 (pos + 2))) (r.deref (u32 (pos + 3)))

/-- the `while(toparse)` loop of `rtosc_message_ring_length` *and* the final
    `return pos <= total ? pos : 0`; `tags` are the bytes `deref(arguments++)` will deliver.
    After fixes C07-blob-len / C07-empty-string-size: the loop returns 0 as soon as `pos` has
    left the ring or a blob does not fit into the remaining bytes (so `pos` cannot wrap), and a
    string is measured from its first byte (`while(deref(pos,ring)) ++pos;`). -/
def lenLoop (r : Ring) (aligned : Nat) : Nat → Bytes → Nat → Option Nat
  | 0, _, pos => some (if pos ≤ r.total then pos else 0)
  | _ + 1, [], pos => if pos > r.total then some 0 else none
  | tp + 1, t :: ts, pos =>
    if pos > r.total then some 0                            -- if(pos > total) return 0;
    else if t = 104 ∨ t = 116 ∨ t = 100 then lenLoop r aligned tp ts (u32 (pos + 8))
    else if t = 109 ∨ t = 114 ∨ t = 99 ∨ t = 102 ∨ t = 105 then
      lenLoop r aligned tp ts (u32 (pos + 4))
    else if t = 83 ∨ t = 115 then
      match scanNul r r.fuel pos with                        -- while(deref(pos,ring)) ++pos;
      | none => none
      | some p => lenLoop r aligned tp ts (u32 (p + (4 - usub p aligned % 4)))
    else if t = 98 then
      let i := (r.rd32 pos).toNat
      let pos := u32 (pos + 4)
      if pos > r.total ∨ i > r.total - pos then some 0       -- the blob has to fit
      else
        let pos := u32 (pos + i)
        let pos := if usub pos aligned % 4 ≠ 0 then u32 (pos + (4 - usub pos aligned % 4)) else pos
        lenLoop r aligned tp ts pos
    else lenLoop r aligned (tp + 1) ts pos

/-- the `do … while(advance)` loop of `bundle_ring_length` and its final
    `return pos <= total ? pos : 0` (after fix C07-bundle-len: 0 as soon as `pos` has left the
    ring or an element does not fit into the remaining bytes; after fix C06-bundle-length-wrap:
    0 as well when the end of the element, `(uint64_t)pos+4+advance`, is no `unsigned` position,
    so that `pos += 4+advance` never wraps and `pos` strictly increases) -/
def bundleLoop (r : Ring) : Nat → Nat → Option Nat
  | 0, _ => none
  | f + 1, pos =>
    if pos > r.total then some 0
    else
      let advance := (r.rd32 pos).toNat
      if advance > r.total - pos ∨ (advance ≠ 0 ∧ pos + 4 + advance > 4294967295) then some 0
      else if advance ≠ 0 then bundleLoop r f (u32 (pos + u32 (4 + advance)))
      else some (if pos ≤ r.total then pos else 0)

/-- `bundle_ring_length` (rtosc.c:551) -/
def bundleRingLength (r : Ring) : Option Nat := bundleLoop r r.fuel 16

def bundleMagic : Bytes := [35, 98, 117, 110, 100, 108, 101, 0]    -- "#bundle\0"

/-- `rtosc_message_ring_length` (rtosc.c:568).  `none`: a loop ran out of fuel. -/
def ringLength (r : Ring) : Option Nat :=
  if (List.range 8).map r.deref = bundleMagic then bundleRingLength r
  else
    match scanNul r r.fuel 0 with                    -- while(deref(pos++,ring)); pos--;
    | none => none
    | some pos =>
      let pos := nullWord r 4 pos
      if r.deref pos ≠ 44 then some 0
      else
        let aligned := pos
        let arguments := u32 (pos + 1)
        match scanNul r r.fuel (u32 (pos + 1)) with  -- while(deref(++pos,ring));
        | none => none
        | some pos =>
          let pos := u32 (pos + (4 - usub pos aligned % 4))
          match tagsFrom r r.fuel arguments with
          | none => none
          | some tags =>
            lenLoop r aligned (nreserved tags) tags pos

/-- `rtosc_message_length(msg, len)`; `m` is the block of `len` bytes at `msg`. -/
def messageLength (m : Bytes) : Option Nat := ringLength ⟨m, []⟩

end Rtosc.Osc
