/-
  C02 / C08 — executable shortcuts for the compiled drivers (no new semantics).

  The models of C01 (`Osc/Encode.lean`) store byte by byte into a `List UInt8`; `W.puts` is
  quadratic in the length of what it stores, which makes a single 64 KiB string or blob take
  about a minute in the compiled driver.  The property C02 has to be exercised with such sizes
  (a length byte of bits 16..23 only shows up from 65 536 bytes on), so this file gives a
  linear version of the constructor — `W.putsFast` splices when all stores stay inside the
  buffer and falls back to the byte-by-byte definition otherwise — and PROVES it equal to the
  model (`amessage_eq_amessageFast`, a `@[csimp]` rule: the compiler replaces `amessage` by
  `amessageFast` in code compiled after this file, i.e. in the drivers).  All theorems of
  C01 / C02 are about `amessage` itself.
-/
import RtoscModel.Osc.Encode
namespace Rtosc.Osc
open Rtosc

theorem put_inside (w : W) (b : UInt8) (h : w.pos < w.buf.length) (h32 : w.pos + 1 < 4294967296) :
    w.put b = ⟨w.buf.set w.pos b, w.pos + 1, w.oob⟩ := by
  simp only [W.put, if_pos h, u32]
  congr 1
  omega

theorem puts_inside : ∀ (l : Bytes) (w : W), w.pos + l.length ≤ w.buf.length →
    w.pos + l.length < 4294967296 →
    w.puts l = ⟨w.buf.take w.pos ++ l ++ w.buf.drop (w.pos + l.length), w.pos + l.length, w.oob⟩ := by
  intro l
  induction l with
  | nil => intro w _ _; simp [W.puts]
  | cons b r ih =>
    intro w h h32
    simp only [List.length_cons] at h h32
    have hi : w.pos < w.buf.length := by omega
    rw [W.puts, put_inside w b hi (by omega)]
    rw [ih _ (by simp; omega) (by simp; omega)]
    simp only [List.length_cons]
    have h1 : (w.buf.set w.pos b).take (w.pos + 1) = w.buf.take w.pos ++ [b] := by
      apply List.ext_getElem?
      intro j
      grind
    have h2 : (w.buf.set w.pos b).drop (w.pos + 1 + r.length) = w.buf.drop (w.pos + (r.length + 1)) := by
      rw [List.drop_set_of_lt (by omega)]; congr 1; omega
    rw [h1, h2]
    simp only [List.append_assoc, List.cons_append, List.nil_append]
    congr 1
    omega

/-- linear `W.puts` when every store stays inside the buffer -/
def W.putsFast (w : W) (l : Bytes) : W :=
  if w.pos + l.length ≤ w.buf.length ∧ w.pos + l.length < 4294967296 then
    ⟨w.buf.take w.pos ++ l ++ w.buf.drop (w.pos + l.length), w.pos + l.length, w.oob⟩
  else w.puts l

theorem putsFast_eq (w : W) (l : Bytes) : w.putsFast l = w.puts l := by
  unfold W.putsFast
  split
  · next h => exact (puts_inside l w h.1 h.2).symm
  · rfl

/-- `W.blobData` over `putsFast` -/
def W.blobDataFast (w : W) (len : UInt32) (data : Option Bytes) : Option W :=
  match data with
  | some d =>
    if len.toNat < 2147483648 ∧ len.toNat ≤ d.length then some (w.putsFast (d.take len.toNat))
    else none
  | none => some (w.skip len.toNat)

theorem blobDataFast_eq (w : W) (len : UInt32) (data : Option Bytes) :
    w.blobDataFast len data = w.blobData len data := by
  unfold W.blobDataFast W.blobData
  cases data <;> simp only [putsFast_eq]

/-- `writeLoop` over `putsFast` -/
def writeLoopFast : Nat → Bytes → List CArg → W → Option W
  | 0, _, _, w => some w
  | _ + 1, [], _, _ => none
  | tp + 1, t :: ts, args, w =>
    if t = 104 ∨ t = 116 ∨ t = 100 then
      match args with
      | .w64 v :: as => writeLoopFast tp ts as (w.putsFast (put64 v))
      | _ => none
    else if t = 114 ∨ t = 102 ∨ t = 99 ∨ t = 105 then
      match args with
      | .w32 v :: as => writeLoopFast tp ts as (w.putsFast (put32 v))
      | _ => none
    else if t = 109 then
      match args with
      | .midi a b c d :: as => writeLoopFast tp ts as (w.putsFast [a, b, c, d])
      | _ => none
    else if t = 83 ∨ t = 115 then
      match args with
      | .str s :: as => writeLoopFast tp ts as (w.putsFast s).align
      | _ => none
    else if t = 98 then
      match args with
      | .blob len data :: as =>
        match (w.putsFast (put32 len)).blobDataFast len data with
        | none => none
        | some w =>
          let w := if w.pos % 4 ≠ 0 then w.align else w
          writeLoopFast tp ts as w
      | _ => none
    else writeLoopFast (tp + 1) ts args w

theorem writeLoopFast_eq : ∀ (ts : Bytes) (tp : Nat) (args : List CArg) (w : W),
    writeLoopFast tp ts args w = writeLoop tp ts args w := by
  intro ts
  induction ts with
  | nil => intro tp args w; cases tp <;> simp [writeLoopFast, writeLoop]
  | cons t ts ih =>
    intro tp args w
    cases tp with
    | zero => simp [writeLoopFast, writeLoop]
    | succ tp =>
      simp only [writeLoopFast, writeLoop, putsFast_eq, blobDataFast_eq, ih]
      repeat' (first | rfl | split)

/-- `amessage` over `putsFast` -/
def amessageFast (buffer : Option Bytes) (addr tags : Bytes) (args : List CArg) : Option AResult :=
  match sizeNull addr tags args with
  | none => none
  | some total =>
    match buffer with
    | none => some ⟨none, total, false⟩
    | some buf =>
      if total > buf.length then
        some ⟨some (zeros buf.length), 0, false⟩
      else
        let w : W := ⟨zeros total ++ buf.drop total, 0, false⟩
        let w := w.putsFast addr
        let w := w.align
        let w := w.put 44
        let w := w.putsFast tags
        let w := w.align
        match writeLoopFast (nreserved tags) tags args w with
        | none => none
        | some w => some ⟨some w.buf, w.pos, w.oob⟩

@[csimp] theorem amessage_eq_amessageFast : @amessage = @amessageFast := by
  funext buffer addr tags args
  unfold amessage amessageFast
  simp only [putsFast_eq, writeLoopFast_eq]
  repeat' (first | rfl | split)

/-- `vmessage` calls `amessage`: restated so that the compiled code goes through the rule above -/
def vmessageFast (narrow : UInt64 → UInt32) (buffer : Option Bytes) (addr tags : Bytes)
    (va : List VaArg) : Option AResult :=
  let nargs := nreserved tags
  if nargs = 0 then amessage buffer addr tags []
  else
    match v2args narrow nargs tags va with
    | none => none
    | some args => amessage buffer addr tags args

@[csimp] theorem vmessage_eq_vmessageFast : @vmessage = @vmessageFast := by
  funext narrow buffer addr tags va
  rfl

end Rtosc.Osc
