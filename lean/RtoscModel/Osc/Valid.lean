/-
  C07 — model of the functions that face untrusted bytes (src/rtosc.c, after the fixes
  fixes/C07-*.patch and fixes/C06-bundle-length-wrap.patch):

    deref, bundle_ring_length, rtosc_message_ring_length, rtosc_message_length,
    rtosc_valid_message_p.
  The readers the validator has to protect (rtosc_argument_string, rtosc_narguments, rtosc_type,
  arg_start, arg_size, arg_off, extract_arg, rtosc_argument, rtosc_itr_*) are those of
  `Osc/Read.lean` (C01), which mirrors the same repaired code (arg_start / arg_off / arg_size
  measure from the first byte).

  Conventions
  * `mem` is the memory block the caller owns (exactly `mem.length` bytes), `len` the length
    argument handed to the C function.  *Every* byte access is `rd mem i`; an index outside the
    block makes the whole function return `Res.oob` — a read is never defaulted.  `deref` is the
    code's own bounds check and is modelled as such (it yields 0 at `pos ≥ len` *without* a read).
  * `unsigned` / `uint32_t` arithmetic wraps modulo 2^32 (`u32`, `usub`).
  * Loops whose termination is not structural run on fuel; `Res.spin` = not finished within the
    fuel (the real loop does not stop / reads on behind the type string).  That `spin` never
    occurs is a theorem (`Props/C07.lean: length_terminates`), not a convention.
  * `rtosc_message_length(msg,len)` builds the ring `{{msg,len},{NULL,0}}`; `deref` is specialised
    to that ring (the second segment is empty, `pos-len < 0` is never true).
  * `for(unsigned i=0; i<len; ++i)` in `rtosc_valid_message_p` is modelled with an unbounded
    counter: exact for `len < 2^32`.
  No Mathlib import: linked into `drv_valid`.
-/
import RtoscModel.Osc.Length
namespace Rtosc.Osc.V
open Rtosc Rtosc.Osc

/-- Result of running a piece of the C code on a memory block. -/
inductive Res (α : Type) where
  | ok (a : α)
  | oob          -- a byte outside the block was read
  | spin         -- a loop did not finish within its fuel
deriving DecidableEq, Repr

def Res.bind {α β : Type} : Res α → (α → Res β) → Res β
  | .ok a, f => f a
  | .oob, _ => .oob
  | .spin, _ => .spin

instance : Monad Res where
  pure := Res.ok
  bind := Res.bind

/-- `msg[i]` -/
def rd (mem : Bytes) (i : Nat) : Res UInt8 :=
  match mem[i]? with
  | some b => .ok b
  | none => .oob

/-- `deref(pos, ring)` (rtosc.c:545) for `ring = {{msg,len},{NULL,0}}` -/
def deref (mem : Bytes) (len pos : Nat) : Res UInt8 :=
  if pos < len then rd mem pos else .ok 0

/-- `while(deref(pos,ring)) ++pos;` -/
def scan (mem : Bytes) (len : Nat) : Nat → Nat → Res Nat
  | 0, _ => .spin
  | f + 1, pos =>
    (deref mem len pos).bind fun c =>
    if c = 0 then .ok pos else scan mem len f (u32 (pos + 1))

def fuel (len : Nat) : Nat := len + 2

/-- `for(int i=0; i<4; ++i) if(deref(++pos, ring)) break;` -/
def nullWord (mem : Bytes) (len : Nat) : Nat → Nat → Res Nat
  | 0, pos => .ok pos
  | k + 1, pos =>
    let pos := u32 (pos + 1)
    (deref mem len pos).bind fun c =>
    if c ≠ 0 then .ok pos else nullWord mem len k pos

/-- the bytes `deref(p), deref(p+1), …` up to the first 0: what `deref(++arg,ring)` /
    `deref(arguments++,ring)` deliver -/
def tagsFrom (mem : Bytes) (len : Nat) : Nat → Nat → Res Bytes
  | 0, _ => .spin
  | f + 1, p =>
    (deref mem len p).bind fun c =>
    if c = 0 then .ok [] else (tagsFrom mem len f (u32 (p + 1))).bind fun r => .ok (c :: r)

/-- four `deref`s, big-endian -/
def rd32 (mem : Bytes) (len pos : Nat) : Res UInt32 :=
  (deref mem len pos).bind fun b0 =>
  (deref mem len (u32 (pos + 1))).bind fun b1 =>
  (deref mem len (u32 (pos + 2))).bind fun b2 =>
  (deref mem len (u32 (pos + 3))).bind fun b3 =>
  .ok (get32 b0 b1 b2 b3)

/-- the `while(toparse)` loop of `rtosc_message_ring_length` (with fix C07-blob-len and
    C07-empty-string-size); `tags` are the bytes `deref(arguments++)` will deliver.
    `none` = `return 0`. -/
def lenLoop (mem : Bytes) (len aligned : Nat) : Nat → Bytes → Nat → Res (Option Nat)
  | 0, _, pos => .ok (some pos)
  | _ + 1, [], _ => .spin      -- would read on behind the type string (never reached)
  | tp + 1, t :: ts, pos =>
    if pos > len then .ok none                               -- if(pos > total) return 0;
    else if t = 104 ∨ t = 116 ∨ t = 100 then lenLoop mem len aligned tp ts (u32 (pos + 8))
    else if t = 109 ∨ t = 114 ∨ t = 99 ∨ t = 102 ∨ t = 105 then
      lenLoop mem len aligned tp ts (u32 (pos + 4))
    else if t = 83 ∨ t = 115 then
      (scan mem len (fuel len) pos).bind fun p =>            -- while(deref(pos,ring)) ++pos;
      lenLoop mem len aligned tp ts (u32 (p + (4 - usub p aligned % 4)))
    else if t = 98 then
      (rd32 mem len pos).bind fun i =>
      let pos := u32 (pos + 4)
      if pos > len ∨ i.toNat > len - pos then .ok none       -- blob does not fit: return 0;
      else
        let pos := u32 (pos + i.toNat)
        let pos := if usub pos aligned % 4 ≠ 0 then u32 (pos + (4 - usub pos aligned % 4)) else pos
        lenLoop mem len aligned tp ts pos
    else lenLoop mem len aligned (tp + 1) ts pos

/-- the `do … while(advance)` loop of `bundle_ring_length` (with fix C07-bundle-len and fix
    C06-bundle-length-wrap: `(uint64_t)pos+4+advance > UINT32_MAX` is rejected, so `pos` never
    wraps); `none` = `return 0` -/
def bundleLoop (mem : Bytes) (len : Nat) : Nat → Nat → Res (Option Nat)
  | 0, _ => .spin
  | f + 1, pos =>
    if pos > len then .ok none
    else
      (rd32 mem len pos).bind fun a =>
      let advance := a.toNat
      if advance > len - pos ∨ (advance ≠ 0 ∧ pos + 4 + advance > 4294967295) then .ok none
      else if advance ≠ 0 then bundleLoop mem len f (u32 (pos + u32 (4 + advance)))
      else .ok (some pos)

/-- `bundle_ring_length` (rtosc.c:551) -/
def bundleRingLength (mem : Bytes) (len : Nat) : Res Nat :=
  (bundleLoop mem len (fuel len) 16).bind fun r =>
  match r with
  | none => .ok 0
  | some pos => .ok (if pos ≤ len then pos else 0)

/-- the `&&` chain `deref(0)=='#' && … && deref(7)=='\0'` (left to right, short-circuit) -/
def isBundle (mem : Bytes) (len : Nat) : Nat → Bytes → Res Bool
  | _, [] => .ok true
  | p, c :: cs =>
    (deref mem len p).bind fun b => if b = c then isBundle mem len (p + 1) cs else .ok false

/-- `rtosc_message_ring_length` (rtosc.c:568) on the ring of `rtosc_message_length` -/
def ringLength (mem : Bytes) (len : Nat) : Res Nat :=
  (isBundle mem len 0 bundleMagic).bind fun b =>
  if b then bundleRingLength mem len
  else
    (scan mem len (fuel len) 0).bind fun pos =>             -- while(deref(pos++,ring)); pos--;
    (nullWord mem len 4 pos).bind fun pos =>
    (deref mem len pos).bind fun c =>
    if c ≠ 44 then .ok 0
    else
      let aligned := pos
      let arguments := u32 (pos + 1)
      (scan mem len (fuel len) (u32 (pos + 1))).bind fun pos =>   -- while(deref(++pos,ring));
      let pos := u32 (pos + (4 - usub pos aligned % 4))
      (tagsFrom mem len (fuel len) arguments).bind fun tags =>
      (lenLoop mem len aligned (nreserved tags) tags pos).bind fun r =>
      match r with
      | none => .ok 0
      | some pos => .ok (if pos ≤ len then pos else 0)

/-- `rtosc_message_length(msg, len)` (rtosc.c:654) -/
def messageLength (mem : Bytes) (len : Nat) : Res Nat := ringLength mem len

/-- `isprint` in the C locale on a (possibly negative) `char` -/
def isprint (c : UInt8) : Bool := decide (32 ≤ c.toNat ∧ c.toNat ≤ 126)

/-- first loop of `rtosc_valid_message_p`: `k` = iterations left, `tmp` as an offset.
    `none` = `return false` -/
def pathLoop (mem : Bytes) : Nat → Nat → Res (Option Nat)
  | 0, tmp => .ok (some tmp)
  | k + 1, tmp =>
    (rd mem tmp).bind fun c =>
    if c = 0 then .ok (some tmp)
    else if !isprint c then .ok none
    else pathLoop mem k (tmp + 1)

/-- second loop: `for(; offset2<len; offset2++) { if(*tmp == ',') break; tmp++; }`
    (`tmp` and `offset2` move together) -/
def commaLoop (mem : Bytes) : Nat → Nat → Res Nat
  | 0, off => .ok off
  | k + 1, off =>
    (rd mem off).bind fun c => if c = 44 then .ok off else commaLoop mem k (off + 1)

/-- `rtosc_valid_message_p(msg, len)` (rtosc.c:660, with fix C07-valid-len0) -/
def validMessageP (mem : Bytes) (len : Nat) : Res Bool :=
  if len = 0 then .ok false
  else
    (rd mem 0).bind fun c0 =>
    if c0 ≠ 47 then .ok false
    else
      (pathLoop mem len 0).bind fun r =>
      match r with
      | none => .ok false
      | some offset1 =>
        (commaLoop mem (len - offset1) offset1).bind fun offset2 =>
        if offset2 - offset1 > 4 then .ok false
        else if offset2 % 4 ≠ 0 then .ok false
        else (messageLength mem len).bind fun observed => .ok (decide (observed = len))

/-! ### the readers: `Osc/Read.lean` (C01), which mirrors the same repaired code -/

/-- the largest offset (exclusive) a caller touches when it follows the returned union:
    the string's terminator, the blob's last byte -/
def extent (m : Bytes) : CVal → Option Nat
  | .str off => (nulIdx (m.drop off)).map (fun k => off + k + 1)
  | .blob len off => some (off + len.toNat)
  | _ => some 0

end Rtosc.Osc.V
