/-
  C01 — executable shortcut for the compiled driver `drv_osc` (no new semantics).

  `Osc/BufFast.lean` (C02/C08) replaces the quadratic byte-by-byte writer `amessage` by a proved
  equal linear one through a `@[csimp]` rule, which only affects code compiled *after* that file.
  `avmessage` (Osc/Encode.lean) was compiled before it, so it is restated here — definitionally
  the same function — for the compiler to route it through the fast writer as well.
  All theorems of C01 are about `avmessage` / `amessage` themselves.
-/
import RtoscModel.Osc.BufFast
namespace Rtosc.Osc
open Rtosc

def avmessageFast (buffer : Option Bytes) (addr : Bytes) (avs : List ArgVal) : Option AResult :=
  match avCollect avs with
  | none => none
  | some (tags, vals) => amessage buffer addr tags vals

@[csimp] theorem avmessage_eq_avmessageFast : @avmessage = @avmessageFast := by
  funext buffer addr avs
  rfl

end Rtosc.Osc
