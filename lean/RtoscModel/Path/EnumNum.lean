/-
  C18 — specification side, continued: the hypothesis the lookup of a walked address needs
  in trees with enumerated rows `pre#N post`, beyond "no expanded name of one row is a prefix
  of an expanded name of another" (`TableOKE`, RtoscModel/Path/Enum.lean).

  `rtosc_match_number` reads the index in an address with `atoi`: it accepts the index written
  with any number of leading zeros (`a007` is element 7 of `a#10`), and a number of 2^31 or more
  overflows (undefined; the model answers `unsupported`).  A port-tree walk prints an index
  without leading zeros, but a *literal* sibling name may contain such a digit string
  (`a00x` next to `a#5x`), and then the enumerated row answers for the sibling's address.
  `TableNumOK` excludes exactly that, reading "a sibling's name" as "a name the sibling's
  pattern accepts" (`AcceptsName`); it also asks for `N ≥ 1` (a row `x#0` stands for no port at
  all, yet `strstr(port.name, path) == port.name` finds it for the address `x`).
  Nothing here is executable; the definitions are hypotheses of theorems only.
-/
import RtoscModel.Path.Enum
namespace Rtosc.Path
open Rtosc

/-- the names a row (its name up to `:`) answers for, as `rtosc_match_path` reads them: a
    literal name stands for itself; `pre#N post` stands for `pre D post` for every non-empty
    digit string `D` whose `atoi` value is below `N` (leading zeros included). -/
def AcceptsName (l s : Bytes) : Prop :=
  match splitHash l with
  | none => s = l
  | some (pre, d, post) =>
    ∃ D : Bytes, (D ≠ [] ∧ ∀ c ∈ D, isDigit c = true) ∧ atoi D < atoi d ∧ s = pre ++ (D ++ post)

/-- the digits that follow the part `pre` of an enumerated row `pre#N post` in the name `a`
    (what `atoi` reads when that row's pattern is tried on `a`) stay below 2^31 -/
def IndexFits (l a : Bytes) : Prop :=
  match splitHash l with
  | none => True
  | some (pre, _, _) => ∀ r : Bytes, a = pre ++ r → atoi r < 2147483648

/-- an enumerated name stands for at least one port: `N ≥ 1` (nothing is asked of a literal name) -/
def EnumPos (l : Bytes) : Prop :=
  match splitHash l with
  | none => True
  | some (_, d, _) => 0 < atoi d

instance (l : Bytes) : Decidable (EnumPos l) :=
  match h : splitHash l with
  | none => isTrue (by unfold EnumPos; rw [h]; trivial)
  | some (_, d, _) =>
    if h2 : 0 < atoi d then isTrue (by unfold EnumPos; rw [h]; exact h2)
    else isFalse (by unfold EnumPos; rw [h]; exact h2)

instance (n : Bytes) : Decidable (EnumName n) :=
  if h1 : ∀ c ∈ lit n, c ≠ 0 ∧ c ≠ 123 ∧ c ≠ 42 then
    match h : splitHash (lit n) with
    | none => isTrue (by unfold EnumName; rw [h]; exact ⟨h1, trivial⟩)
    | some (_, d, post) =>
      if h2 : d ≠ [] ∧ atoi d < 2147483648 ∧ 35 ∉ post then isTrue (by unfold EnumName; rw [h]; exact ⟨h1, h2⟩)
      else isFalse (by unfold EnumName; rw [h]; exact fun x => h2 x.2)
  else isFalse (fun x => h1 x.1)

/-- one table: every enumerated row has `N ≥ 1`; for two different rows, no expanded name of
    the one is a prefix of, or prefixed by, a name the other accepts, and trying the other's
    pattern on it does not overflow `atoi` -/
def TableNumOK (ps : List PortT) : Prop :=
  (∀ q ∈ ps, EnumPos (lit q.name)) ∧
  ∀ (i j : Nat) (p q : PortT), ps[i]? = some p → ps[j]? = some q → i ≠ j →
    ∀ a ∈ expandName (lit p.name), IndexFits (lit q.name) a ∧
      ∀ b, AcceptsName (lit q.name) b → ¬ a <+: b ∧ ¬ b <+: a

mutual
def SubTablesNumOK : List PortT → Prop
  | [] => True
  | p :: r => PortNumOK p ∧ SubTablesNumOK r
def PortNumOK : PortT → Prop
  | .mk _ _ _ cs => TableNumOK cs ∧ SubTablesNumOK cs
end

/-- `TableNumOK` for every table of the tree -/
def TreeNumOK (ps : List PortT) : Prop := TableNumOK ps ∧ SubTablesNumOK ps

/-- the addresses under which the walk reports the port with index path `ix` (one per
    combination of indices of the enumerated rows on the way) -/
def AddrE : List PortT → List Nat → Bytes → Prop
  | _, [], _ => False
  | ps, [i], a => ∃ p, ps[i]? = some p ∧ p.hasPorts = false ∧ a ∈ expandName (lit p.name)
  | ps, i :: j :: t, a =>
    ∃ p, ps[i]? = some p ∧ p.hasPorts = true ∧
      ∃ e ∈ expandName (lit p.name), ∃ a', a = withSlash e ++ a' ∧ AddrE p.children (j :: t) a'


/-! ### A syntactic condition that implies `TreeNumOK` (proved: Proofs/PathEnumCanon.lean)

  `CanonList`: in every name of the tree the literal digit runs are numbers below 2^31 printed
  without leading zeros, the `#` does not follow a digit, and `N ≥ 1`.  Then the only digit
  strings `rtosc_match_number` can meet in a walked address are printed numbers, and the
  leading-zero readings never apply.  `canonListB` is the same as a finite check. -/

/-- printed without leading zeros -/
def Canon (R : Bytes) : Prop := R = decimal (atoi R)

/-- every digit run of `s` that starts at the beginning of `s` or behind a non-digit is a
    number below 2^31 printed without leading zeros -/
def GoodRuns (s : Bytes) : Prop :=
  ∀ x y : Bytes, s = x ++ y → (∀ c, x.getLast? = some c → isDigit c = false) → isDigit (hd y) = true →
    Canon (y.takeWhile isDigit) ∧ atoi (y.takeWhile isDigit) < 2147483648

/-- a name (up to `:`) whose literal digit runs are printed numbers below 2^31 and whose `#`
    does not follow a digit -/
def CanonName (l : Bytes) : Prop :=
  match splitHash l with
  | none => GoodRuns l
  | some (pre, _, post) =>
    GoodRuns pre ∧ GoodRuns post ∧ ∀ c, pre.getLast? = some c → isDigit c = false

mutual
/-- `EnumPos` and `CanonName` for every name of the tree -/
def CanonPort : PortT → Prop
  | .mk n _ _ cs => (EnumPos (lit n) ∧ CanonName (lit n)) ∧ CanonList cs
def CanonList : List PortT → Prop
  | [] => True
  | p :: r => CanonPort p ∧ CanonList r
end

/-- `x` does not end in a digit -/
def noDigitLast (x : Bytes) : Bool :=
  match x.getLast? with
  | none => true
  | some c => !isDigit c

/-- `GoodRuns` as a finite check over the split points -/
def goodRunsB (s : Bytes) : Bool :=
  (List.range (s.length + 1)).all fun k =>
    !(noDigitLast (s.take k) && isDigit (hd (s.drop k))) ||
      (decide ((s.drop k).takeWhile isDigit = decimal (atoi ((s.drop k).takeWhile isDigit))) &&
       decide (atoi ((s.drop k).takeWhile isDigit) < 2147483648))

def canonNameB (l : Bytes) : Bool :=
  match splitHash l with
  | none => goodRunsB l
  | some (pre, _, post) => goodRunsB pre && goodRunsB post && noDigitLast pre

mutual
def canonPortB : PortT → Bool
  | .mk n _ _ cs => (decide (EnumPos (lit n)) && canonNameB (lit n)) && canonListB cs
def canonListB : List PortT → Bool
  | [] => true
  | p :: r => canonPortB p && canonListB r
end


end Rtosc.Path
