/-
  C18 — model of `Ports::collapsePath` (src/cpp/ports.cpp) with its three helpers
  `parent_path_p`, `read_path`, `move_path`.

  The memory block the argument points to is a `Bytes` (it contains the terminating
  NUL and possibly more bytes behind it).  The two cursors are kept as *counts*:
  `r = read_pos - p + 1` and `w = write_pos - p + 1`, so that the C condition
  `read_pos >= p` is `0 < r`, `r < start` is `r = 0`, and the returned pointer
  `write_pos + 1` is the offset `w`.  `consuming` is the third piece of state.
  Every byte access goes through `buf[i]?`; an access outside the block makes the
  whole function return `none` (out of bounds) — it is never defaulted.
-/
import RtoscModel.Basic
namespace Rtosc.Path
open Rtosc

def SLASH : UInt8 := 47
def DOT : UInt8 := 46
def COLON : UInt8 := 58

/-- `strlen`: index of the first NUL (`none`: no terminator inside the block). -/
def strlen : Bytes → Option Nat
  | [] => none
  | b :: r => if b = 0 then some 0 else (strlen r).map (· + 1)

/-- `parent_path_p(read, start)` with `read = start + r - 1`:
    `if(read-start<2) return false; return read[0]=='.' && read[-1]=='.' && read[-2]=='/';` -/
def parentPathP (buf : Bytes) (r : Nat) : Option Bool :=
  if r < 3 then some false
  else match buf[r - 1]? with
    | none => none
    | some a => if a ≠ DOT then some false else
      match buf[r - 2]? with
      | none => none
      | some b => if b ≠ DOT then some false else
        match buf[r - 3]? with
        | none => none
        | some c => some (c = SLASH)

/-- `read_path(r, start)`:
    `while(1){ if(r<start) break; bool doBreak = *r=='/'; r--; if(doBreak) break; }` -/
def readPath (buf : Bytes) : Nat → Option Nat
  | 0 => some 0
  | r + 1 =>
    match buf[r]? with
    | none => none
    | some c => if c = SLASH then some r else readPath buf r

/-- `move_path(r, w, start)`:
    `while(1){ if(r<start) break; bool doBreak = *r=='/'; *w-- = *r--; if(doBreak) break; }`
    Returns the new buffer and the two cursors. -/
def movePath (buf : Bytes) : Nat → Nat → Option (Bytes × Nat × Nat)
  | 0, w => some (buf, 0, w)
  | r + 1, w =>
    match buf[r]? with
    | none => none
    | some c =>
      match w with
      | 0 => none                                   -- `*w` in front of the block
      | w' + 1 =>
        if w' < buf.length then
          let buf' := buf.set w' c
          if c = SLASH then some (buf', r, w') else movePath buf' r w'
        else none

/-- The main loop `while(read_pos >= p) { … }`.  Every iteration lowers `r` by at
    least one, so `fuel = r` suffices (`collapseLoop_fuel` in the proofs). -/
def collapseLoop : Nat → Bytes → Nat → Nat → Nat → Option (Bytes × Nat)
  | 0, buf, r, w, _ => if r = 0 then some (buf, w) else none
  | fuel + 1, buf, r, w, consuming =>
    if r = 0 then some (buf, w)                     -- return write_pos+1
    else
      match parentPathP buf r with
      | none => none
      | some true =>
        match readPath buf r with
        | none => none
        | some r' => collapseLoop fuel buf r' w (consuming + 1)
      | some false =>
        if consuming ≠ 0 then
          match readPath buf r with
          | none => none
          | some r' => collapseLoop fuel buf r' w (consuming - 1)
        else
          match movePath buf r w with
          | none => none
          | some (buf', r', w') => collapseLoop fuel buf' r' w' consuming

/-- `Ports::collapsePath(p)`: the block after the call and the offset of the returned
    pointer inside it. -/
def collapse (mem : Bytes) : Option (Bytes × Nat) :=
  match strlen mem with
  | none => none
  | some n => collapseLoop n mem n n 0

/-- The C string the returned pointer designates. -/
def collapseStr (mem : Bytes) : Option (Nat × Bytes) :=
  match collapse mem with
  | none => none
  | some (buf, off) => (cstr (buf.drop off)).map (fun s => (off, s))

/-! ### Specification: stack-based cancellation of `..` -/

def DOTDOT : Bytes := [DOT, DOT]

/-- One step of the left-to-right pass; the stack has its top first. -/
def stackStep (st : List Bytes) (c : Bytes) : List Bytes :=
  if c = DOTDOT then st.drop 1 else c :: st

/-- Components that survive, in their original order. -/
def cancel (comps : List Bytes) : List Bytes :=
  (comps.foldl stackStep []).reverse

/-- An absolute path written out: every component preceded by `/`. -/
def render (comps : List Bytes) : Bytes :=
  (comps.map (fun c => SLASH :: c)).flatten

/-- Components are arbitrary NUL-free, slash-free byte strings (possibly empty: a
    trailing `/` or a doubled `//` gives an empty component, which is an ordinary one). -/
def CompWF (c : Bytes) : Prop := ∀ x ∈ c, x ≠ 0 ∧ x ≠ SLASH

end Rtosc.Path
