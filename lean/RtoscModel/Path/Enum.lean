/-
  C18 — specification side for enumerated port names (`pre#N post`: one row standing for
  the ports `pre0post … pre<N-1>post`, src/cpp/ports.cpp walk_ports_recurse0 /
  include/rtosc/bundle-foreach.h): the addresses a port-tree walk reports for such rows
  and the "no sibling's name is a prefix of another's" condition read on the expanded
  names.  The lookup itself (`apropos`, `matchPathM` with its `#` branch) is in
  RtoscModel/Path/Apropos.lean.
-/
import RtoscModel.Path.Apropos
namespace Rtosc.Path
open Rtosc

/-- `snprintf("%d", k)` -/
def decimalF : Nat → Nat → Bytes
  | 0, _ => []
  | f + 1, k => if k < 10 then [UInt8.ofNat (48 + k)] else decimalF f (k / 10) ++ [UInt8.ofNat (48 + k % 10)]

def decimal (k : Nat) : Bytes := decimalF (k + 1) k

/-- a name split at its first `#`: what precedes it, the digits behind it, the rest -/
def splitHash : Bytes → Option (Bytes × Bytes × Bytes)
  | [] => none
  | c :: r =>
    if c = 35 then some ([], r.takeWhile isDigit, r.dropWhile isDigit)
    else (splitHash r).map fun (pre, d, post) => (c :: pre, d, post)

/-- the literal names a row's name (taken up to `:`) stands for -/
def expandName (l : Bytes) : List Bytes :=
  match splitHash l with
  | none => [l]
  | some (pre, d, post) => (List.range (atoi d)).map fun k => pre ++ decimal k ++ post

def withSlash (l : Bytes) : Bytes := if l.getLast? = some SLASH then l else l ++ [SLASH]

mutual
/-- `walk_ports` on a tree whose names are literal or enumerated (one `#` per name) -/
def walkEL : List PortT → Nat → List (Bytes × List Nat)
  | [], _ => []
  | p :: rest, i => (walkEP p).map (fun (a, ix) => (a, i :: ix)) ++ walkEL rest (i + 1)
def walkEP : PortT → List (Bytes × List Nat)
  | .mk n _ h cs =>
    if h then
      ((expandName (lit n)).map fun pre => (walkEL cs 0).map fun (a, ix) => (withSlash pre ++ a, ix)).flatten
    else (expandName (lit n)).map fun a => (a, [])
end

def walkE (ps : List PortT) : List (Bytes × List Nat) := walkEL ps 0

/-- a literal or enumerated name: NUL-free, no `{`/`*`, at most one `#`, which is followed
    by a number `N < 2^31` and then by a non-digit (`N ≥ 1` is asked separately: `EnumPos`,
    RtoscModel/Path/EnumNum.lean) -/
def EnumName (n : Bytes) : Prop :=
  (∀ c ∈ lit n, c ≠ 0 ∧ c ≠ 123 ∧ c ≠ 42) ∧
  match splitHash (lit n) with
  | none => True
  | some (_, d, post) => d ≠ [] ∧ atoi d < 2147483648 ∧ 35 ∉ post

/-- one table: names as above, non-empty, not beginning with `/`; a port with a sub-table
    has a name ending in `/`; no expanded name of a row is a prefix of an expanded name of
    another row -/
def TableOKE (ps : List PortT) : Prop :=
  (∀ q ∈ ps, EnumName q.name ∧ lit q.name ≠ [] ∧ hd (lit q.name) ≠ SLASH ∧
     (q.hasPorts = true → (lit q.name).getLast? = some SLASH)) ∧
  ∀ (i j : Nat) (p q : PortT), ps[i]? = some p → ps[j]? = some q → i ≠ j →
    ∀ a ∈ expandName (lit p.name), ∀ b ∈ expandName (lit q.name), ¬ a <+: b

mutual
def SubTablesOKE : List PortT → Prop
  | [] => True
  | p :: r => PortOKE p ∧ SubTablesOKE r
def PortOKE : PortT → Prop
  | .mk _ _ _ cs => TableOKE cs ∧ SubTablesOKE cs
end

def TreeOKE (ps : List PortT) : Prop := TableOKE ps ∧ SubTablesOKE ps

end Rtosc.Path
