/-
  C18 — model of the two `rtosc::path_search` overloads (src/cpp/ports.cpp:1214-1357),
  with the two repairs of fixes/C18-pathsearch-metalen.patch (blob length = length of
  the metadata block) and fixes/C18-pathsearch-querysort.patch (the query strings are
  not part of the sorted range) applied.

  `std::sort` is modelled by its contract: a `Sorter` is any function that, for a
  strict weak ordering, returns a permutation of its input in which no later element
  is less than an earlier one (`Sorter.Correct`).  The model is parametrised by the
  sorter; the theorems hold for every correct sorter; the driver instantiates it with
  `List.mergeSort`.

  Reply assembly (`rtosc_amessage`, C01's subject) is modelled for the two argument
  types that occur here (`s`, `b`).
-/
import RtoscModel.Path.Apropos
import RtoscModel.Meta
namespace Rtosc.Path
open Rtosc

/-- `rtosc_blob_t`: data pointer (`none` = NULL, otherwise the memory block it points
    to) and the length field. -/
structure Blob where
  data : Option Bytes
  len : Nat
deriving Repr, DecidableEq

/-- one `rtosc_arg_t` as far as it is used here -/
inductive Arg where
  | s (v : Bytes)
  | b (v : Blob)
deriving Repr, DecidableEq

/-- a found port: `args[pos].s = p.name; args[pos+1].b = {len, metadata}` -/
abbrev Pair := Bytes × Blob

inductive Opts where
  | unmodified | sorted | sortedUniquePrefix
deriving Repr, DecidableEq

/-- `strcmp(a, b) < 0` (bytes compared as `unsigned char`) -/
def strLt : Bytes → Bytes → Bool
  | [], [] => false
  | [], _ :: _ => true
  | _ :: _, [] => false
  | a :: as, b :: bs => if a < b then true else if b < a then false else strLt as bs

/-- contract of a comparator accepted by `std::sort` -/
structure StrictWeak {α : Type} (lt : α → α → Bool) : Prop where
  irrefl : ∀ a, lt a a = false
  trans : ∀ a b c, lt a b = true → lt b c = true → lt a c = true
  negTrans : ∀ a b c, lt a b = false → lt b c = false → lt a c = false

/-- `out` is an admissible result of `std::sort(first, last, lt)` on `inp` -/
def IsSortOf {α : Type} (lt : α → α → Bool) (inp out : List α) : Prop :=
  out.Perm inp ∧ out.Pairwise (fun a b => lt b a = false)

structure Sorter where
  run : {α : Type} → (α → α → Bool) → List α → List α

def Sorter.Correct (S : Sorter) : Prop :=
  ∀ {α : Type} (lt : α → α → Bool) (l : List α), StrictWeak lt → IsSortOf lt l (S.run lt l)

/-- the sorter used by the driver -/
def mergeSorter : Sorter := ⟨fun lt l => l.mergeSort (fun a b => !lt b a)⟩

/-- the collection lambda `fn`:
    `if(p.name && strstr(p.name, needle) == p.name) { … }`; the blob is
    `{metadata, MetaContainer(metadata).length() - 1}` when `metadata && *metadata`,
    `{NULL, 0}` otherwise.  `none` = the length scan leaves the block. -/
def collectOne (needle : Bytes) (p : PortT) : Option (List Pair) :=
  if needle.isPrefixOf p.name then
    match p.metadata with
    | none => some [(p.name, ⟨none, 0⟩)]
    | some [] => none                                       -- `*p.metadata` outside the block
    | some (c :: r) =>
      if c = 0 then some [(p.name, ⟨none, 0⟩)]
      else match Meta.length (some (c :: r)) with
        | none => none
        | some l => some [(p.name, ⟨some (c :: r), l - 1⟩)]
  else some []

def collect (needle : Bytes) : List PortT → Option (List Pair)
  | [] => some []
  | p :: rest =>
    match collectOne needle p, collect needle rest with
    | some a, some b => some (a ++ b)
    | _, _ => none

/-- `is_less` -/
def pairLt (a b : Pair) : Bool := strLt a.1 b.1

/-- an entry of the array during the unique-prefix pass: the name may have been set to
    `nullptr` -/
abbrev Marked := Option Bytes × Blob

/-- `is_less_2` -/
def markedLt (a b : Marked) : Bool :=
  match a.1, b.1 with
  | none, _ => false
  | some _, none => true
  | some x, some y => strLt x y

/-- body of the marking loop for the entries behind the first one; `prev` is
    `args[prev_pos].s`.  `none` = `args[prev_pos].s[strlen_prev-1]` with
    `strlen_prev = 0` (one byte in front of the string). -/
def markLoop : Bytes → List Pair → Option (List Marked)
  | _, [] => some []
  | prev, (cur, blob) :: rest =>
    if prev.length < cur.length ∧ cur.take prev.length = prev then
      match prev.getLast? with
      | none => none
      | some c =>
        if c = SLASH then (markLoop prev rest).map ((none, blob) :: ·)
        else (markLoop cur rest).map ((some cur, blob) :: ·)
    else (markLoop cur rest).map ((some cur, blob) :: ·)

def markAll : List Pair → Option (List Marked)
  | [] => some []
  | (first, blob) :: rest => (markLoop first rest).map ((some first, blob) :: ·)

/-- result of the array overload -/
inductive Found where
  | overflow                     -- more arguments than `max`: writes outside `types`/`args`
  | oob                          -- a read outside a string or a metadata block
  | unsupported                  -- a port name uses pattern characters (C05)
  | ok (types : Bytes) (args : List Arg)
deriving Repr, DecidableEq

def pairArgs (ps : List Pair) : List Arg :=
  (ps.map fun p => [Arg.s p.1, Arg.b p.2]).flatten

def pairTypes (ps : List Pair) : Bytes :=
  (ps.map fun _ => [(115 : UInt8), 98]).flatten

/-- entries that are still named after the second sort and the cut -/
def unmark : List Marked → Option (List Pair)
  | [] => some []
  | (none, _) :: _ => none                       -- a nullptr name inside the reply
  | (some n, b) :: rest => (unmark rest).map ((n, b) :: ·)

/-- `if(reply_with_query) { types[pos] = 's'; args[pos++].s = str; types[pos] = 's'; args[pos++].s = needle; }` -/
def queryArgs (query : Bool) (str needle : Bytes) : List Arg :=
  if query then [.s str, .s needle] else []

def queryTypes (query : Bool) : Bytes := if query then [115, 115] else []

/-- the table whose rows are offered to `fn`: the root, the sub-table of the port
    found by `apropos`, or that port alone -/
def searchRows (root : List PortT) (str : Bytes) : Except Found (List PortT) :=
  if str = [] ∨ str = [SLASH] then .ok root
  else match apropos root str with
    | .null => .ok []
    | .oob => .error .oob
    | .unsupported => .error .unsupported
    | .port ix =>
      match portAt root ix with
      | none => .error .oob
      | some p => if p.hasPorts then .ok p.children else .ok [p]

/-- `void path_search(root, str, needle, types, max_types, args, max_args, opts,
    reply_with_query)`; `needle = none` is the NULL pointer. -/
def pathSearch (S : Sorter) (root : List PortT) (str : Bytes) (needle : Option Bytes)
    (maxTypes maxArgs : Nat) (opts : Opts) (query : Bool) : Found :=
  let needle := needle.getD []
  let max := min (maxTypes - 1) maxArgs
  let q : List Arg := queryArgs query str needle
  let qt : Bytes := queryTypes query
  match searchRows root str with
  | .error e => e
  | .ok rows =>
    match collect needle rows with
    | none => .oob
    | some found =>
      if maxTypes = 0 ∨ q.length + 2 * found.length > max then .overflow
      else
        match opts with
        | .unmodified => .ok (qt ++ pairTypes found) (q ++ pairArgs found)
        | .sorted =>
          let sorted := S.run pairLt found
          .ok (qt ++ pairTypes sorted) (q ++ pairArgs sorted)
        | .sortedUniquePrefix =>
          let sorted := S.run pairLt found
          match markAll sorted with
          | none => .oob
          | some marked =>
            let unused := (marked.filter (·.1.isNone)).length
            let sorted2 := S.run markedLt marked
            -- types[(n_paths_found - unused_paths)<<1] = 0
            match unmark (sorted2.take (sorted.length - unused)) with
            | none => .oob
            | some kept => .ok (qt ++ pairTypes kept) (q ++ pairArgs kept)

/-! ### Reply assembly: `rtosc_amessage(msgbuf, bufsize, "/paths", types, args)` -/

/-- `pos += 4 - pos%4` after a string of length `n` that started 4-aligned -/
def padStr (s : Bytes) : Bytes := s ++ List.replicate (4 - s.length % 4) 0

/-- `if(pos%4) pos += 4 - pos%4` -/
def padBlob (s : Bytes) : Bytes := s ++ List.replicate ((4 - s.length % 4) % 4) 0

def be32 (n : Nat) : Bytes :=
  [UInt8.ofNat (n / 16777216 % 256), UInt8.ofNat (n / 65536 % 256), UInt8.ofNat (n / 256 % 256),
   UInt8.ofNat (n % 256)]

/-- the bytes one argument contributes; `none`: type/argument mismatch, NULL string,
    or a blob whose length field exceeds the block behind its data pointer -/
def encArg : UInt8 → Arg → Option Bytes
  | 115, .s v => some (padStr v)
  | 98, .b ⟨none, len⟩ => some (be32 len ++ padBlob (List.replicate len 0))
  | 98, .b ⟨some d, len⟩ => if len ≤ d.length then some (be32 len ++ padBlob (d.take len)) else none
  | _, _ => none

def encArgs : Bytes → List Arg → Option Bytes
  | [], [] => some []
  | t :: ts, a :: as =>
    match encArg t a, encArgs ts as with
    | some x, some y => some (x ++ y)
    | _, _ => none
  | _, _ => none

def encodeMsg (addr types : Bytes) (args : List Arg) : Option Bytes :=
  (encArgs types args).map fun body => padStr addr ++ padStr (44 :: types) ++ body

def PATHS : Bytes := [47, 112, 97, 116, 104, 115]     -- "/paths"

/-- result of the message overload: returned length and the bytes written -/
inductive Reply where
  | overflow | oob | unsupported
  | tooSmall                       -- returned 0: the message does not fit `bufsize`
  | ok (msg : Bytes)               -- returned `msg.length`
deriving Repr, DecidableEq

/-- `std::size_t path_search(root, m, max_ports, msgbuf, bufsize, opts, reply_with_query)`
    where `m` carries the two strings `str`, `needle`. -/
def pathSearchMsg (S : Sorter) (root : List PortT) (str needle : Bytes) (maxPorts bufsize : Nat)
    (opts : Opts) (query : Bool) : Reply :=
  match pathSearch S root str (some needle) (2 * maxPorts + 1) (2 * maxPorts) opts query with
  | .overflow => .overflow
  | .oob => .oob
  | .unsupported => .unsupported
  | .ok types args =>
    match encodeMsg PATHS types args with
    | none => .oob
    | some msg => if msg.length > bufsize then .tooSmall else .ok msg

/-! ### Specification side -/

/-- what a reader of the reply sees of a blob -/
def Blob.bytes (b : Blob) : Bytes :=
  match b.data with
  | none => List.replicate b.len 0
  | some d => d.take b.len

/-- a found port as the reader of the reply sees it: name and blob contents -/
def Pair.view (e : Pair) : Bytes × Bytes := (e.1, e.2.bytes)

/-- an argument as the reader of the reply sees it -/
def Arg.view : Arg → Bytes ⊕ Bytes
  | .s v => .inl v
  | .b blob => .inr blob.bytes

/-- the metadata bytes the statement pairs a child with: the whole block, or nothing
    when the port has no metadata (NULL or empty string) -/
def metaBytes (p : PortT) : Bytes :=
  match p.metadata with
  | none => []
  | some [] => []
  | some (c :: r) => if c = 0 then [] else c :: r

/-- the direct children of the addressed port whose names start with the prefix,
    each with its metadata bytes, in table order -/
def childrenSpec (rows : List PortT) (needle : Bytes) : List (Bytes × Bytes) :=
  (rows.filter fun p => needle.isPrefixOf p.name).map fun p => (p.name, metaBytes p)

/-- a non-empty metadata block as the rtosc macros write it: scanning from the left with
    the previous byte `prev`, the first NUL that directly follows a NUL is the last byte
    of the block -/
def EndsAtDoubleNul : UInt8 → Bytes → Prop
  | _, [] => False
  | prev, c :: r => if prev = 0 ∧ c = 0 then r = [] else EndsAtDoubleNul c r

/-- metadata the statement quantifies over: NULL, the empty string, or a block that
    starts with a non-NUL byte and ends with its first double NUL -/
def MetaOK (p : PortT) : Prop :=
  match p.metadata with
  | none => True
  | some [] => False
  | some (c :: r) => c = 0 ∨ EndsAtDoubleNul 0 (c :: r)

/-- a name lies below a returned `name/` entry -/
def below (all : List Bytes) (e : Bytes) : Bool :=
  all.any fun d => d.getLast? = some SLASH ∧ d.length < e.length ∧ d.isPrefixOf e

/-- independent decoder of an OSC message with `s`/`b` arguments -/
def alignDrop (consumed : Nat) (rest : Bytes) : Bytes := rest.drop ((4 - consumed % 4) % 4)

def rd32 : Bytes → Option (Nat × Bytes)
  | a :: b :: c :: d :: r => some (a.toNat * 16777216 + b.toNat * 65536 + c.toNat * 256 + d.toNat, r)
  | _ => none

def decStr (m : Bytes) : Option (Bytes × Bytes) :=
  match cstr m with
  | none => none
  | some s => some (s, m.drop (s.length + (4 - s.length % 4)))

def decArgs : Bytes → Bytes → Option (List (Bytes ⊕ Bytes))
  | [], _ => some []
  | t :: ts, m =>
    if t = 115 then
      match decStr m with
      | none => none
      | some (s, r) => (decArgs ts r).map (Sum.inl s :: ·)
    else if t = 98 then
      match rd32 m with
      | none => none
      | some (n, r) =>
        if n ≤ r.length then
          (decArgs ts (alignDrop n (r.drop n))).map (Sum.inr (r.take n) :: ·)
        else none
    else none

/-- address, type string, arguments -/
def decodeMsg (m : Bytes) : Option (Bytes × Bytes × List (Bytes ⊕ Bytes)) :=
  match decStr m with
  | none => none
  | some (addr, r) =>
    match decStr r with
    | none => none
    | some (tt, r2) =>
      match tt with
      | 44 :: types => (decArgs types r2).map fun as => (addr, types, as)
      | _ => none

end Rtosc.Path
