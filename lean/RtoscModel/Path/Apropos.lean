/-
  C18 — model of `Ports::operator[]` and `Ports::apropos` (src/cpp/ports.cpp:741-774)
  over a port tree, together with the fragment of `rtosc_match_path`
  (src/dispatch.c:72-109) that applies to *literal* port names.

  A C string is modelled by its contents (the bytes in front of the terminator);
  reading the byte under a pointer whose list is exhausted reads the terminator
  itself (`hd [] = 0`), nothing behind it is ever read.

  A port table (`rtosc::Ports`) is a `List PortT`; a `const Port*` result is the
  *index path* of the port (row in the root table, row in that port's sub-table, …).

  `rtosc_match_path` interprets `{`, `*` and `#` in the pattern.  `#N` (enumerated
  ports, `rtosc_match_number`) is modelled; `{` and `*` belong to C05: here they give the
  explicit result `unsupported` (never a guess), and the C18 generators do not use them.
-/
import RtoscModel.Path.Collapse
namespace Rtosc.Path
open Rtosc

/-- `struct Port` restricted to what the path utilities look at: `name`, `metadata`
    (`none` = NULL pointer, otherwise the exact memory block), `ports` (NULL or the
    sub-table). -/
inductive PortT where
  | mk (name : Bytes) (metadata : Option Bytes) (hasPorts : Bool) (children : List PortT)
deriving Repr

namespace PortT
def name : PortT → Bytes | mk n _ _ _ => n
def metadata : PortT → Option Bytes | mk _ m _ _ => m
def hasPorts : PortT → Bool | mk _ _ h _ => h
def children : PortT → List PortT | mk _ _ _ c => c
end PortT

/-- byte under a C-string pointer (`0` = its terminator) -/
def hd : Bytes → UInt8
  | [] => 0
  | c :: _ => c

inductive MatchRes where
  | null                                   -- returned NULL
  | unsupported                            -- pattern uses `{` or `*` (C05), or a number ≥ 2^31
  | ok (pat : Bytes) (pathEnd : Bytes)     -- returned `pattern`, `*path_end`
deriving Repr, DecidableEq

/-- `isdigit` (for bytes below 128; port names and addresses use 1..126) -/
def isDigit (c : UInt8) : Bool := 48 ≤ c ∧ c ≤ 57

/-- `atoi` on a string that starts with a digit: value of the leading run of digits -/
def atoiAux : Nat → Bytes → Nat
  | acc, [] => acc
  | acc, c :: r => if isDigit c then atoiAux (acc * 10 + (c.toNat - 48)) r else acc

def atoi (s : Bytes) : Nat := atoiAux 0 s

/-- `rtosc_match_path(pattern, msg, &path_end)` for patterns built from literal characters and
    `#N` (src/dispatch.c:72-109 with `rtosc_match_number`, :13-30).  `skip = true`: the
    pattern cursor stands inside the digits behind a `#` whose number has been compared
    already (`while(isdigit(**pattern))++*pattern;`); `msg` is already behind its digits.
    A number of 2^31 or more overflows `atoi` (undefined): `unsupported`, as for `{` and `*`
    (C05's subject). -/
def matchPathM : Bool → Bytes → Bytes → MatchRes
  | _, [], msg =>
    -- *pattern == 0: only the verbatim branch can apply
    if hd msg = 0 then .ok [] msg else .null
  | skip, pc :: pr, msg =>
    if skip = true ∧ isDigit pc = true then matchPathM true pr msg
    else if pc = COLON ∧ hd msg = 0 then .ok (pc :: pr) msg
    else if pc = COLON then .null          -- the pattern's path ended, the message's did not
    else if pc = 123 then .unsupported              -- '{'
    else if pc = 42 then .unsupported               -- '*'
    else if pc = SLASH ∧ hd msg = SLASH then
      let mr := msg.drop 1
      if hd pr = 0 ∨ hd pr = COLON then .ok pr mr else matchPathM false pr mr
    else if pc = 35 then                            -- '#': rtosc_match_number
      if isDigit (hd pr) = true ∧ isDigit (hd msg) = true then
        if atoi pr < 2147483648 ∧ atoi msg < 2147483648 then
          if atoi msg < atoi pr then matchPathM true pr (msg.dropWhile isDigit) else .null
        else .unsupported
      else .null
    else if pc = hd msg then
      if hd msg ≠ 0 then matchPathM false pr (msg.drop 1) else .ok (pc :: pr) msg
    else .null

/-- `rtosc_match_path(pattern, msg, &path_end)` -/
abbrev matchPath (pattern msg : Bytes) : MatchRes := matchPathM false pattern msg

/-- result of a lookup -/
inductive Look where
  | null                          -- NULL
  | port (ix : List Nat)          -- pointer to the port with this index path
  | oob                           -- dereferences NULL / reads outside a string
  | unsupported                   -- a name uses pattern characters (C05)
deriving Repr, DecidableEq

def Look.under (i : Nat) : Look → Look
  | .port ix => .port (i :: ix)
  | r => r

/-- `Ports::operator[](const char *name)`: first row whose name is `name` followed by
    `:` or the terminator. -/
def indexLoop (key : Bytes) : List PortT → Nat → Option Nat
  | [], _ => none
  | p :: rest, i =>
    -- while(*_needle && *_needle==*_haystack)_needle++,_haystack++;
    let rec scan : Bytes → Bytes → Bool
      | [], h => hd h = COLON ∨ hd h = 0
      | n :: nr, h => if n ≠ 0 ∧ n = hd h then scan nr (h.drop 1) else false
    if scan key p.name then some i else indexLoop key rest (i + 1)

def index (ps : List PortT) (key : Bytes) : Option Nat := indexLoop key ps 0

/-- second loop of `apropos`:
    `if(*path && (strstr(port.name, path)==port.name || rtosc_match_path(port.name, path, NULL))) return &port;` -/
def aproposLoop2 (path : Bytes) : List PortT → Nat → Look
  | [], _ => .null
  | p :: rest, i =>
    if hd path = 0 then aproposLoop2 path rest (i + 1)
    else if path.isPrefixOf p.name then .port [i]
    else match matchPath p.name path with
      | .ok _ _ => .port [i]
      | .unsupported => .unsupported
      | .null => aproposLoop2 path rest (i + 1)

/-- `if(path && path[0] == '/') ++path;` -/
def stripSlash (path : Bytes) : Bytes :=
  if hd path = SLASH then path.drop 1 else path

mutual
/-- first loop of `apropos`; `none` = fell through to the second loop -/
def aproposLoop1 (path : Bytes) : List PortT → Nat → Option Look
  | [], _ => none
  | p :: rest, i =>
    if p.name.contains SLASH then
      match matchPath p.name path with
      | .unsupported => some .unsupported
      | .null => aproposLoop1 path rest (i + 1)
      | .ok _ pathEnd =>
        -- (port.ports && strchr(path,'/')[1]) ? port.ports->apropos(path_end) : &port
        if p.hasPorts then
          match path.dropWhile (· ≠ SLASH) with
          | [] => some .oob                          -- strchr(path,'/') == NULL
          | _ :: after =>
            if hd after ≠ 0 then some ((aproposSub p pathEnd).under i)
            else some (.port [i])
        else some (.port [i])
    else aproposLoop1 path rest (i + 1)
/-- `port.ports->apropos(path)` -/
def aproposSub : PortT → Bytes → Look
  | .mk _ _ _ cs, path0 =>
    let path := stripSlash path0
    match aproposLoop1 path cs 0 with
    | some r => r
    | none => aproposLoop2 path cs 0
end

/-- `Ports::apropos(path)` on the table `ps` -/
def apropos (ps : List PortT) (path0 : Bytes) : Look :=
  let path := stripSlash path0
  match aproposLoop1 path ps 0 with
  | some r => r
  | none => aproposLoop2 path ps 0

/-- row `ix` of the tree -/
def portAt : List PortT → List Nat → Option PortT
  | _, [] => none
  | ps, [i] => ps[i]?
  | ps, i :: j :: ix =>
    match ps[i]? with
    | none => none
    | some p => portAt p.children (j :: ix)

/-! ### Specification side: literal names and the addresses a walk reports -/

/-- the part of a port name in front of the first `:` -/
def lit (name : Bytes) : Bytes := name.takeWhile (· ≠ COLON)

/-- prefix contributed by a port that has a sub-table: its name up to `:`, with a `/`
    appended when it does not end in one (`walk_ports_recurse0`) -/
def subPrefix (n : Bytes) : Bytes :=
  if (lit n).getLast? = some SLASH then lit n else lit n ++ [SLASH]

mutual
/-- `walk_ports` on a tree of literal names (no bundles, no runtime object): a port
    with a sub-table contributes `subPrefix` to everything below it; every other port is
    reported with its name up to `:`.  Addresses are relative to the table (the walker
    itself prefixes the root's `/`); each comes with the index path of the reported
    port. -/
def walkL : List PortT → Nat → List (Bytes × List Nat)
  | [], _ => []
  | p :: rest, i => (walkP p).map (fun (a, ix) => (a, i :: ix)) ++ walkL rest (i + 1)
def walkP : PortT → List (Bytes × List Nat)
  | .mk n _ h cs =>
    if h then (walkL cs 0).map (fun (a, ix) => (subPrefix n ++ a, ix)) else [(lit n, [])]
end

def walk (ps : List PortT) : List (Bytes × List Nat) := walkL ps 0

/-- the address under which the walk reports the port with index path `ix`
    (`none`: not a reported port) -/
def addrOf : List PortT → List Nat → Option Bytes
  | _, [] => none
  | ps, [i] =>
    match ps[i]? with
    | none => none
    | some p => if p.hasPorts then none else some (lit p.name)
  | ps, i :: j :: ix =>
    match ps[i]? with
    | none => none
    | some p =>
      if p.hasPorts then (addrOf p.children (j :: ix)).map (subPrefix p.name ++ ·) else none

/-- a literal name: no NUL and none of the pattern characters `{ * #` in front of `:` -/
def LitName (n : Bytes) : Prop := ∀ c ∈ lit n, c ≠ 0 ∧ c ≠ 123 ∧ c ≠ 42 ∧ c ≠ 35

/-- row `i` of the table `ps` is `p`, all names of the table are literal, `p`'s own
    name is non-empty and does not begin with `/`, and no other row's name is a prefix
    of `p`'s or prefixed by it (names compared up to `:`) -/
def Level (ps : List PortT) (i : Nat) (p : PortT) : Prop :=
  ps[i]? = some p ∧ (∀ q ∈ ps, LitName q.name) ∧ lit p.name ≠ [] ∧ hd (lit p.name) ≠ SLASH ∧
  ∀ j q, ps[j]? = some q → j ≠ i → ¬ lit q.name <+: lit p.name ∧ ¬ lit p.name <+: lit q.name

/-- the hypothesis of the lookup theorem along one index path: `Level` at every table
    on the way, and every port that is descended into has a name ending in `/` -/
def Unamb : List PortT → List Nat → Prop
  | _, [] => False
  | ps, [i] => ∃ p, Level ps i p
  | ps, i :: j :: ix =>
    ∃ p, Level ps i p ∧ (lit p.name).getLast? = some SLASH ∧ Unamb p.children (j :: ix)

/-- one table: all names literal, non-empty, not beginning with `/`; a port with a
    sub-table has a name ending in `/`; no row's name is a prefix of another row's
    (names compared up to `:`; in particular no duplicates) -/
def TableOK (ps : List PortT) : Prop :=
  (∀ q ∈ ps, LitName q.name ∧ lit q.name ≠ [] ∧ hd (lit q.name) ≠ SLASH ∧
     (q.hasPorts = true → (lit q.name).getLast? = some SLASH)) ∧
  ∀ (i j : Nat) (p q : PortT), ps[i]? = some p → ps[j]? = some q → i ≠ j → ¬ lit p.name <+: lit q.name

mutual
def SubTablesOK : List PortT → Prop
  | [] => True
  | p :: r => PortOK p ∧ SubTablesOK r
def PortOK : PortT → Prop
  | .mk _ _ _ cs => TableOK cs ∧ SubTablesOK cs
end

/-- "no sibling's name is a prefix of another's", for every table of the tree -/
def TreeOK (ps : List PortT) : Prop := TableOK ps ∧ SubTablesOK ps

end Rtosc.Path
