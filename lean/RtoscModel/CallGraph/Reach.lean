/-
C03 — generic part of the call-graph argument (proved once, independent of the generated data).

A call graph is a list of edges `(caller, callee)` over node numbers.  `PathN E k a b` says
that there is a call path of exactly `k` edges from `a` to `b`; `Reach E a b` that there is one
of some length.  The theorem `closed_contains_reachable`: a set that contains the entries and is
closed under the edge relation contains the end point of every path of any length that starts
at an entry.  The set is given as a bit mask (`Nat.testBit`), and closedness is a decidable
linear pass over the (chunked) edge list, so the per-run obligations over the generated graph
are discharged by kernel evaluation.
-/
namespace Rtosc.CallGraph

abbrev Edge := Nat × Nat

/-- a call path of exactly `k` edges from `a` to `b` -/
def PathN (E : List Edge) : Nat → Nat → Nat → Prop
  | 0,     a, b => a = b
  | k + 1, a, c => ∃ b, PathN E k a b ∧ (b, c) ∈ E

/-- a call path of some length from `a` to `b` -/
def Reach (E : List Edge) (a b : Nat) : Prop := ∃ k, PathN E k a b

/-- membership in the set coded by the bit mask `S` -/
abbrev inMask (S : Nat) (n : Nat) : Prop := S.testBit n = true

/-- `S` is closed under the edge relation -/
def Closed (S : Nat) (E : List Edge) : Prop := ∀ p ∈ E, inMask S p.1 → inMask S p.2

/-- `S` contains every node of `ns` -/
def ContainsAll (S : Nat) (ns : List Nat) : Prop := ∀ n ∈ ns, inMask S n

/-- `S` contains no node of `ns` -/
def Avoids (S : Nat) (ns : List Nat) : Prop := ∀ n ∈ ns, ¬ inMask S n

/-- every node of `xs` that is in `S` is in `ws` -/
def OnlyListed (S : Nat) (xs ws : List Nat) : Prop := ∀ n ∈ xs, inMask S n → n ∈ ws

/-- **Generic theorem** (induction on the path length): a set containing the entries and closed
under the edges contains the end point of every path of any length from an entry. -/
theorem closed_contains_pathN {S : Nat} {E : List Edge} {entries : List Nat}
    (hE : ContainsAll S entries) (hC : Closed S E) :
    ∀ (k : Nat) (e n : Nat), e ∈ entries → PathN E k e n → inMask S n := by
  intro k
  induction k with
  | zero =>
    intro e n he hp
    have : e = n := hp
    exact this ▸ hE e he
  | succ k ih =>
    intro e n he hp
    obtain ⟨b, hb, hbn⟩ := hp
    exact hC (b, n) hbn (ih e b he hb)

theorem closed_contains_reachable {S : Nat} {E : List Edge} {entries : List Nat}
    (hE : ContainsAll S entries) (hC : Closed S E) :
    ∀ e ∈ entries, ∀ n, Reach E e n → inMask S n := by
  intro e he n ⟨k, hp⟩
  exact closed_contains_pathN hE hC k e n he hp

/-! ### decidable checkers (evaluated by the kernel on the generated data) -/

def closedB (S : Nat) (E : List Edge) : Bool := E.all fun p => !S.testBit p.1 || S.testBit p.2

def closedChunksB (S : Nat) (Cs : List (List Edge)) : Bool := Cs.all (closedB S)

def containsAllB (S : Nat) (ns : List Nat) : Bool := ns.all fun n => S.testBit n

def avoidsB (S : Nat) (ns : List Nat) : Bool := ns.all fun n => !S.testBit n

def onlyListedB (S : Nat) (xs ws : List Nat) : Bool := xs.all fun n => !S.testBit n || ws.contains n

theorem closedB_sound {S : Nat} {E : List Edge} (h : closedB S E = true) : Closed S E := by
  intro p hp hin
  have := List.all_eq_true.mp h p hp
  simp only [inMask] at hin
  simpa [hin] using this

theorem closedChunksB_sound {S : Nat} {Cs : List (List Edge)} (h : closedChunksB S Cs = true) :
    Closed S Cs.flatten := by
  intro p hp
  obtain ⟨c, hc, hpc⟩ := List.mem_flatten.mp hp
  exact closedB_sound (List.all_eq_true.mp h c hc) p hpc

theorem containsAllB_sound {S : Nat} {ns : List Nat} (h : containsAllB S ns = true) : ContainsAll S ns := by
  intro n hn
  exact List.all_eq_true.mp h n hn

theorem avoidsB_sound {S : Nat} {ns : List Nat} (h : avoidsB S ns = true) : Avoids S ns := by
  intro n hn hin
  have := List.all_eq_true.mp h n hn
  simp only [inMask] at hin
  simp [hin] at this

theorem onlyListedB_sound {S : Nat} {xs ws : List Nat} (h : onlyListedB S xs ws = true) : OnlyListed S xs ws := by
  intro n hn hin
  have := List.all_eq_true.mp h n hn
  simp only [inMask] at hin
  simpa [hin] using this

/-- a concrete node list is a path in `E` (consecutive nodes are joined by an edge) -/
def isPathB (E : List Edge) : List Nat → Bool
  | a :: b :: rest => E.contains (a, b) && isPathB E (b :: rest)
  | _ => true

theorem isPathB_reach {E : List Edge} : ∀ (p : List Nat) (a : Nat), isPathB E (a :: p) = true →
    Reach E a ((a :: p).getLast (List.cons_ne_nil a p)) := by
  intro p
  induction p with
  | nil => intro a _; exact ⟨0, rfl⟩
  | cons b rest ih =>
    intro a h
    simp only [isPathB, Bool.and_eq_true] at h
    obtain ⟨hab, hrest⟩ := h
    obtain ⟨k, hk⟩ := ih b hrest
    have hab' : (a, b) ∈ E := by simpa using hab
    -- prepend the edge (a,b) to a path b ⟶ last
    have pre : ∀ (k : Nat) (c : Nat), PathN E k b c → PathN E (k + 1) a c := by
      intro k
      induction k with
      | zero => intro c hc; exact ⟨a, rfl, by have : b = c := hc; exact this ▸ hab'⟩
      | succ k ihk =>
        intro c hc
        obtain ⟨m, hm, hmc⟩ := hc
        exact ⟨m, ihk m hm, hmc⟩
    have hl : (a :: b :: rest).getLast (List.cons_ne_nil a (b :: rest)) = (b :: rest).getLast (List.cons_ne_nil b rest) := by
      simp [List.getLast_cons]
    rw [hl]
    exact ⟨k + 1, pre k _ hk⟩

/-! ### the generated data as one structure; executions as a relation -/

/-- what `tools/callgraph.py` emits for one build configuration of the working tree -/
structure Graph where
  numNodes : Nat
  /-- mangled name of node `i`, coded as one number (`name! "malloc"`) -/
  nodeNames : List Nat
  /-- call edges (caller, callee) in chunks -/
  edgeChunks : List (List Edge)
  entries : List Nat
  forbidden : List Nat
  externals : List Nat
  whitelist : List Nat
  /-- call edges the extractor left out of `edgeChunks` (stated preconditions) -/
  excludedEdges : List Edge
  samplePath : List Nat
  /-- bit mask of the set claimed to contain everything reachable from the entries -/
  cert : Nat

/-- the edge list of the generated call graph -/
def Graph.edges (g : Graph) : List Edge := g.edgeChunks.flatten

/-- a call path of exactly `k` steps along a relation `R` ("`a` calls `b` in some execution") -/
def PathR (R : Nat → Nat → Prop) : Nat → Nat → Nat → Prop
  | 0,     a, b => a = b
  | k + 1, a, c => ∃ b, PathR R k a b ∧ R b c

/-- a call path of some length along `R` -/
def ReachR (R : Nat → Nat → Prop) (a b : Nat) : Prop := ∃ k, PathR R k a b

theorem pathR_sub {R : Nat → Nat → Prop} {E : List Edge} (h : ∀ a b, R a b → (a, b) ∈ E) :
    ∀ (k a b : Nat), PathR R k a b → PathN E k a b := by
  intro k
  induction k with
  | zero => intro a b hp; exact hp
  | succ k ih =>
    intro a c hp
    obtain ⟨b, hb, hbc⟩ := hp
    exact ⟨b, ih a b hb, h b c hbc⟩

/-- the four per-run obligations on the certificate of a generated graph -/
structure Graph.CertOK (g : Graph) : Prop where
  entries : ContainsAll g.cert g.entries
  closed : Closed g.cert g.edges
  avoids : Avoids g.cert g.forbidden
  listed : OnlyListed g.cert g.externals g.whitelist

/-- **What C03 says about one generated graph.**  `Calls a b` = "some execution of the library calls `b` from
`a`".  Hypotheses, both explicit:
* `hgraph` — the extraction is an over-approximation: every call that can happen is an edge of the graph or one of
  the edges the extractor left out (`excludedEdges`);  this is the trusted part (tools/callgraph.py, clang);
* `hpre`   — the stated preconditions: an excluded edge that is not also a normal edge is never executed (no empty
  `std::function` is invoked, assertions are compiled out, no exception unwinds).
Conclusion: no call path of any length from a realtime entry reaches a forbidden function (allocator, deallocator,
lock, exception allocation, stdio, unresolvable call, atomic read-modify-write in a loop), and every function without a body
on such a path is a whitelisted leaf. -/
def Graph.Safe (g : Graph) : Prop :=
  ∀ Calls : Nat → Nat → Prop,
    (∀ a b, Calls a b → (a, b) ∈ g.edges ∨ (a, b) ∈ g.excludedEdges) →
    (∀ a b, (a, b) ∈ g.excludedEdges → (a, b) ∉ g.edges → ¬ Calls a b) →
    ∀ e ∈ g.entries, ∀ n, ReachR Calls e n → n ∉ g.forbidden ∧ (n ∈ g.externals → n ∈ g.whitelist)

/-- **Generic theorem**: the four certificate obligations imply `Safe`. -/
theorem Graph.safe_of_cert (g : Graph) (h : g.CertOK) : g.Safe := by
  intro Calls hgraph hpre e he n ⟨k, hp⟩
  have hsub : ∀ a b, Calls a b → (a, b) ∈ g.edges := by
    intro a b hc
    cases hgraph a b hc with
    | inl h1 => exact h1
    | inr h2 =>
      apply Classical.byContradiction
      intro hne
      exact hpre a b h2 hne hc
  have hin : inMask g.cert n := closed_contains_pathN h.entries h.closed k e n he (pathR_sub hsub k e n hp)
  exact ⟨fun hf => h.avoids n hf hin, fun hx => h.listed n hx hin⟩

/-! ### names: tying the node numbers to symbols

String operations are very slow in the kernel, so a name is ONE natural number: the digit 1 followed by the bytes
of the (mangled) name, read as a number in base 256 — an injective coding.  `name! "malloc"` is notation for that
number, `0x016d616c6c6f63` (computed when the file is elaborated). -/

/-- `name! "abc"` = `0x01616263`: a 1 followed by the bytes of the string literal, base 256 -/
syntax "name! " str : term
macro_rules
  | `(name! $s) => do
    let k := s.getString.toUTF8.foldl (fun a b => a * 256 + b.toNat) 1
    `(($(Lean.Syntax.mkNumLit (toString k)) : Nat))

example : name! "malloc" = 0x016d616c6c6f63 := rfl
example : name! "" = 1 := rfl

abbrev Name := Nat

/-- membership test by `Nat.beq` (evaluated natively by the kernel) -/
def memB (xs : List Nat) (n : Nat) : Bool := xs.any (Nat.beq n)

theorem memB_sound {xs : List Nat} {n : Nat} (h : memB xs n = true) : n ∈ xs := by
  obtain ⟨x, hx, hb⟩ := List.any_eq_true.mp h
  have : n = x := Nat.eq_of_beq_eq_true hb
  exact this ▸ hx

theorem memB_complete {xs : List Nat} {n : Nat} (h : n ∈ xs) : memB xs n = true :=
  List.any_eq_true.mpr ⟨n, h, Nat.beq_refl n⟩

/-- some node at position `off + j` of the list is named `s` and lies in `set` -/
def hasNamedIn (s : Name) (set : List Nat) : List Name → Nat → Bool
  | [], _ => false
  | k :: ks, i => (Nat.beq k s && memB set i) || hasNamedIn s set ks (i + 1)

/-- every node of the list (numbered from `off`) whose name is in `req` lies in `set` -/
def onlyNamedIn (req : List Name) (set : List Nat) : List Name → Nat → Bool
  | [], _ => true
  | k :: ks, i => (!memB req k || memB set i) && onlyNamedIn req set ks (i + 1)

/-- every name of `req` is the name of a node that is in `set` -/
def namedAllInB (names : List Name) (req : List Name) (set : List Nat) : Bool :=
  req.all fun s => hasNamedIn s set names 0

/-- every node whose name is in `req` is in `set` -/
def namedOnlyInB (names : List Name) (req : List Name) (set : List Nat) : Bool :=
  onlyNamedIn req set names 0

theorem hasNamedIn_sound {s : Name} {set : List Nat} : ∀ (names : List Name) (off : Nat),
    hasNamedIn s set names off = true → ∃ j, names[j]? = some s ∧ off + j ∈ set := by
  intro names
  induction names with
  | nil => intro off h; simp [hasNamedIn] at h
  | cons k ks ih =>
    intro off h
    simp only [hasNamedIn, Bool.or_eq_true, Bool.and_eq_true] at h
    cases h with
    | inl h1 =>
      have hk : k = s := Nat.eq_of_beq_eq_true h1.1
      exact ⟨0, by simp [hk], by simpa using memB_sound h1.2⟩
    | inr h2 =>
      obtain ⟨j, hj, hm⟩ := ih (off + 1) h2
      exact ⟨j + 1, by simpa using hj, by have : off + (j + 1) = off + 1 + j := by omega
                                          rw [this]; exact hm⟩

theorem onlyNamedIn_sound {req : List Name} {set : List Nat} : ∀ (names : List Name) (off : Nat),
    onlyNamedIn req set names off = true → ∀ j s, names[j]? = some s → s ∈ req → off + j ∈ set := by
  intro names
  induction names with
  | nil => intro off _ j s hj; simp at hj
  | cons k ks ih =>
    intro off h j s hj hs
    simp only [onlyNamedIn, Bool.and_eq_true, Bool.or_eq_true, Bool.not_eq_true'] at h
    cases j with
    | zero =>
      have hk : k = s := by simpa using hj
      cases h.1 with
      | inl h1 => rw [hk, memB_complete hs] at h1; cases h1
      | inr h1 => simpa using memB_sound h1
    | succ j =>
      have hj' : ks[j]? = some s := by simpa using hj
      have := ih (off + 1) h.2 j s hj' hs
      have e : off + (j + 1) = off + 1 + j := by omega
      rw [e]; exact this

theorem namedAllInB_sound {names req : List Name} {set : List Nat} (h : namedAllInB names req set = true) :
    ∀ s ∈ req, ∃ i, names[i]? = some s ∧ i ∈ set := by
  intro s hs
  obtain ⟨j, hj, hm⟩ := hasNamedIn_sound names 0 (List.all_eq_true.mp h s hs)
  exact ⟨j, hj, by simpa using hm⟩

theorem namedOnlyInB_sound {names req : List Name} {set : List Nat} (h : namedOnlyInB names req set = true) :
    ∀ i s, names[i]? = some s → s ∈ req → i ∈ set := by
  intro i s hi hs
  simpa using onlyNamedIn_sound names 0 h i s hi hs

end Rtosc.CallGraph
