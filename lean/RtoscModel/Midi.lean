/-
  C20 — model of `src/cpp/midimapper.cpp` / `include/rtosc/miditable.h`:
  the non-realtime half `MidiMappernRT` (inv_map, learnQueue, storage generations; map,
  unMap, clear, useFreeID, generateNewBijection, killMap), the realtime half
  `MidiMapperRT` (pending, watchSize, storage; handleCC, the `midi-add-watch` and
  `midi-bind` ports), `MidiMapperStorage` (handleCC, cloneValues, clone), `MidiBijection`,
  and the two FIFO channels through which the halves talk:

    nRT → RT   "/midi-learn/midi-add-watch"       (sent by `map`)
               "/midi-learn/midi-bind" b<storage>  (sent by `useFreeID`, `unMap`, `clear`)
    RT → nRT   "/midi-use-CC" i<ID>                (sent by `MidiMapperRT::handleCC`;
                                                    the application hands it to `useFreeID`)

  A step is an API call on one half or the delivery of the oldest message of one channel.

  Modelling decisions (each one is a place where the tie to the code is by correspondence):
  * an address is the index `k` of its port (the harness spells it `"/p<k>"`, or longer and
    nested in sub-tables: at most 3 x `"d<k>/"` + `"p<k>"` + up to 60 characters; distinct ports
    have distinct addresses, `apropos` finds each, and every message fits the callbacks' 1024
    byte buffers — the address text itself is not modelled); `inv_map` (a `std::map`) is an
    association list — no operation in scope iterates over it;
  * controller IDs are `Nat` (`handleCC` builds them from non-negative parts); the `-1`
    "no controller" sentinel of `inv_map` is `none`;
  * a `std::function` callback is the data its closure captured (`Cb`);
  * `MidiMapperStorage` objects are immutable once sent, except `values`, which only the
    realtime half writes; the non-realtime half only ever reads `values.size()`.  A `bind`
    message therefore carries a copy of the snapshot;
  * `PendingQueue` (ring of 32 `int`s, `-1` = free) is the FIFO list of its occupied cells,
    capacity 32 (`insert` refuses when `size > 31`);
  * `TinyVector::operator[]` is unchecked under `NDEBUG` (the default build): an index
    outside the vector is a crash (`none`), never a defaulted read;
  * `watchSize` (`unsigned`) and vector sizes (`int`) are unbounded `Nat`s;
  * floats: port ranges are multiples of 1/8 of moderate size, for which every intermediate
    of `MidiBijection::operator()(int)` is exact in `double`; the only rounding is the final
    conversion to `float`, implemented exactly (`f32OfDyadic`).
  No Mathlib import: this file is linked into `drv_midi`.
-/
import RtoscModel.Basic
namespace Rtosc.Midi

/-! ## Ports, callbacks, bijection -/

/-- A parameter port `p<k>:i` / `p<k>:f` with metadata `min = min8/8`, `max = max8/8`. -/
structure PortSpec where
  isInt : Bool
  min8 : Int
  max8 : Int
  deriving DecidableEq, Repr, Inhabited

/-! ### Port declarations: what `generateNewBijection` reads off a `rtosc::Port`

  The harness builds port `k` with the name `"p<k>" ++ pad ++ signature`, where the signature
  is one of the spellings applications use, and with further metadata keys around `min`/`max`.
  `generateNewBijection` reads `meta["min"]`, `meta["max"]` (the other keys are not looked at)
  and decides the message type by `strstr(port.name, ":i")`. -/

/-- the argument signature behind the port's name -/
inductive Sig where
  | i      -- `":i"`
  | f      -- `":f"`
  | oi     -- `"::i"`   (optional argument: the usual `rParamI` spelling)
  | of     -- `"::f"`
  | fi     -- `":f:i"`  (accepts both)
  | ifl    -- `":i:f"`  (accepts both)
  deriving DecidableEq, Repr, Inhabited

def Sig.text : Sig → List Char
  | .i => [':', 'i']
  | .f => [':', 'f']
  | .oi => [':', ':', 'i']
  | .of => [':', ':', 'f']
  | .fi => [':', 'f', ':', 'i']
  | .ifl => [':', 'i', ':', 'f']

/-- does a message of type `'i'` fit the signature? -/
def Sig.acceptsInt : Sig → Bool
  | .f | .of => false
  | _ => true

/-- the characters long names are padded with (64; the protocol uses at most 60) -/
def padText : List Char := "_long_parameter_name_for_midi_learn_with_many_characters_in_it_x".toList

/-- `strstr`-style tests on character lists -/
def isPrefixL : List Char → List Char → Bool
  | [], _ => true
  | _ :: _, [] => false
  | p :: ps, c :: cs => p == c && isPrefixL ps cs

def hasInfix (pat : List Char) : List Char → Bool
  | [] => isPrefixL pat []
  | c :: cs => isPrefixL pat (c :: cs) || hasInfix pat cs

/-- A port as the op line declares it: index `k ≤ 9`, signature, padding of the name, nesting
    depth of its address, the extra metadata keys (`flags`; the code never looks at them) and
    the range. -/
structure PortDecl where
  idx : Nat
  sig : Sig
  flags : List Char
  min8 : Int
  max8 : Int
  depth : Nat
  pad : Nat
  deriving DecidableEq, Repr, Inhabited

/-- `port.name` -/
def PortDecl.name (d : PortDecl) : List Char :=
  'p' :: Char.ofNat (48 + d.idx) :: (padText.take d.pad ++ d.sig.text)

/-- the part of `generateNewBijection` in front of the lambdas: `bi.min`, `bi.max` from the
    metadata, `type = strstr(port.name, ":i") ? 'i' : 'f'` -/
def PortDecl.toSpec (d : PortDecl) : PortSpec :=
  ⟨hasInfix [':', 'i'] d.name, d.min8, d.max8⟩

/-- What the closure built in `generateNewBijection` captured: `addr`, `type`, `bi`. -/
structure Cb where
  addr : Nat
  isInt : Bool
  min8 : Int
  max8 : Int
  deriving DecidableEq, Repr, Inhabited

/-- A message handed to the backend callback. -/
inductive Val where
  | int (v : Int)
  | flt (bits : Nat)
  deriving DecidableEq, Repr

structure Msg where
  addr : Nat
  val : Val
  deriving DecidableEq, Repr

/-- numerator of `MidiBijection::operator()(int x)` over the denominator `2^17`:
    `x/16384.0*(max-min)+min  =  (x*(max8-min8) + 16384*min8) / (8*16384)`. -/
def bijNum (min8 max8 : Int) (x : Nat) : Int :=
  (x : Int) * (max8 - min8) + 16384 * min8

/-- number of binary digits -/
def bitLen (n : Nat) : Nat := if n = 0 then 0 else Nat.log2 n + 1

/-- Round `n / 2^e` (n > 0) to the nearest `float` (ties to even): 24-bit significand `m`
    (`2^23 ≤ m < 2^24`) and exponent `q` with value `m * 2^q` (`q` may be negative). -/
def f32Round (n e : Nat) : Nat × Int :=
  let l := bitLen n
  if l ≤ 24 then
    (n <<< (24 - l), (l : Int) - 24 - e)
  else
    let sh := l - 24
    let q := n >>> sh
    let rem := n % 2 ^ sh
    let half := 2 ^ (sh - 1)
    let q' := if rem > half ∨ (rem = half ∧ q % 2 = 1) then q + 1 else q
    if q' = 2 ^ 24 then (2 ^ 23, (sh : Int) + 1 - e) else (q', (sh : Int) - e)

/-- IEEE-754 single bit pattern of the `float` nearest to `num / 2^e`
    (normal range only; the ranges the protocol allows stay far inside it). -/
def f32OfDyadic (num : Int) (e : Nat) : Nat :=
  if num = 0 then 0 else
  let (m, q) := f32Round num.natAbs e
  let sign := if num < 0 then 2 ^ 31 else 0
  sign + ((q + 23 + 127).toNat <<< 23) + (m - 2 ^ 23)

/-- `(int)` of the `float` nearest to `num / 2^e` (truncation toward zero). -/
def truncF32OfDyadic (num : Int) (e : Nat) : Int :=
  if num = 0 then 0 else
  let (m, q) := f32Round num.natAbs e
  let mag : Nat := if q ≥ 0 then m <<< q.toNat else m >>> (-q).toNat
  if num < 0 then -(mag : Int) else mag

/-- The callback stored by `generateNewBijection`, applied to the 14-bit value `x`
    (`int16_t`; the protocol keeps `x < 2^14`). -/
def Cb.fire (c : Cb) (x : Nat) : Msg :=
  if c.min8 = 0 ∧ c.max8 = 127 * 8 ∧ c.isInt then
    { addr := c.addr, val := .int ((x >>> 7) &&& 0x7f : Nat) }      -- the "special case" lambda
  else if c.isInt then
    { addr := c.addr, val := .int (truncF32OfDyadic (bijNum c.min8 c.max8 x) 17) }
  else
    { addr := c.addr, val := .flt (f32OfDyadic (bijNum c.min8 c.max8 x) 17) }

/-! ## MidiMapperStorage -/

/-- `std::tuple<int,bool,int>`: controller ID, coarse?, value/callback slot.
    The default value is what `new T[n]` leaves in a cell that is never assigned. -/
structure MapEnt where
  id : Nat
  coarse : Bool
  slot : Nat
  deriving DecidableEq, Repr

instance : Inhabited MapEnt := ⟨⟨0, false, 0⟩⟩

structure Storage where
  mapping : List MapEnt
  callbacks : List Cb
  values : List Nat
  deriving DecidableEq, Repr

def Storage.empty : Storage := ⟨[], [], []⟩

/-- `(val<<7)|(old&0x7f)` resp. `val|(old&0x3f80)` -/
def blit (coarse : Bool) (val old : Nat) : Nat :=
  if coarse then (val <<< 7) ||| (old &&& 0x7f) else val ||| (old &&& 0x3f80)

/-- `MidiMapperStorage::handleCC`: `none` = an index outside `values`/`callbacks`
    (crash); otherwise the new storage and the message written, if any. -/
def Storage.handleCC (s : Storage) (id val : Nat) : Option (Storage × Option Msg) :=
  match s.mapping.find? (fun m => m.id == id) with
  | none => some (s, none)
  | some m =>
    match s.values[m.slot]?, s.callbacks[m.slot]? with
    | some old, some cb =>
      let x := blit m.coarse val old
      some ({ s with values := s.values.set m.slot x }, some (cb.fire x))
    | _, _ => none

/-- inner loop of `cloneValues` for one destination entry `d`: every source entry with
    the same controller ID blits its 7-bit part. -/
def cloneInner (d : MapEnt) (src : Storage) : List MapEnt → List Nat → Option (List Nat)
  | [], vals => some vals
  | s :: rest, vals =>
    if d.id = s.id then
      match src.values[s.slot]?, vals[d.slot]? with
      | some sv, some dv =>
        let v := if s.coarse then sv >>> 7 else sv &&& 0x7f
        cloneInner d src rest (vals.set d.slot (blit d.coarse v dv))
      | _, _ => none
    else cloneInner d src rest vals

def cloneOuter (src : Storage) : List MapEnt → List Nat → Option (List Nat)
  | [], vals => some vals
  | d :: rest, vals =>
    match cloneInner d src src.mapping vals with
    | none => none
    | some vals' => cloneOuter src rest vals'

/-- `nstorage->cloneValues(old)` -/
def Storage.cloneValues (n old : Storage) : Option Storage :=
  match cloneOuter old n.mapping (List.replicate n.values.length 0) with
  | none => none
  | some v => some { n with values := v }

/-- `MidiMapperStorage::clone` (values: `sized_clone`, i.e. zeroes) -/
def Storage.clone (s : Storage) : Storage :=
  { s with values := List.replicate s.values.length 0 }

/-- `killMap(ID, m)`: the new mapping vector has `size-1` cells whatever the number of
    entries carrying `ID`: none → the copy loop writes one cell past the end (crash);
    more than one → trailing cells stay default-constructed `(0,false,0)`. -/
def killMap (id : Nat) (m : List MapEnt) : Option (List MapEnt) :=
  let kept := m.filter (fun e => e.id != id)
  if m.length = 0 then none                       -- `new T[-1]`
  else if kept.length > m.length - 1 then none    -- heap overflow at `nmapping[j++]`
  else some (kept ++ List.replicate (m.length - 1 - kept.length) default)

/-! ## The non-realtime half -/

/-- `inv_map` entry: (slot, coarse ID, fine ID); the bijection of the tuple is the one
    captured by `callbacks[slot]`. -/
structure Imap where
  slot : Nat
  coarse : Option Nat
  fine : Option Nat
  deriving DecidableEq, Repr

/-- nRT → RT messages.  `answers` is a ghost annotation (never read by a transition):
    the controller whose `/midi-use-CC` request this `midi-bind` answers. -/
inductive RtMsg where
  | addWatch
  | bind (s : Storage) (answers : Option Nat)
  deriving DecidableEq, Repr

structure NRT where
  invMap : List (Nat × Imap)
  learnQ : List (Nat × Bool)
  storage : Option Storage
  deriving DecidableEq, Repr

def NRT.init : NRT := ⟨[], [], none⟩

def imLookup (m : List (Nat × Imap)) (a : Nat) : Option Imap :=
  (m.find? (fun p => p.1 == a)).map (·.2)

def imErase (m : List (Nat × Imap)) (a : Nat) : List (Nat × Imap) :=
  m.filter (fun p => p.1 != a)

def imSet (m : List (Nat × Imap)) (a : Nat) (v : Imap) : List (Nat × Imap) :=
  (a, v) :: imErase m a

/-- `MidiMappernRT::unMap`; `none` = crash, else new state and messages sent. -/
def NRT.unMap (n : NRT) (a : Nat) (coarse : Bool) : Option (NRT × List RtMsg) :=
  match imLookup n.invMap a with
  | none => some (n, [])
  | some im =>
    let killId := if coarse then im.coarse else im.fine
    let im' : Imap := if coarse then { im with coarse := none } else { im with fine := none }
    let inv' := if im'.coarse = none ∧ im'.fine = none then imErase n.invMap a
                else imSet n.invMap a im'
    match killId with
    | none => some ({ n with invMap := inv' }, [])
    | some kid =>
      match n.storage with
      | none => none                               -- `storage->clone()` on NULL
      | some st =>
        match killMap kid st.mapping with
        | none => none
        | some mp =>
          let ns : Storage := { st.clone with mapping := mp }
          some ({ n with invMap := inv', storage := some ns }, [.bind ns none])

/-- `MidiMappernRT::map` -/
def NRT.map (n : NRT) (a : Nat) (coarse : Bool) : Option (NRT × List RtMsg) :=
  if n.learnQ.any (fun x => x.1 == a && x.2 == coarse) then some (n, [])
  else
    match n.unMap a coarse with
    | none => none
    | some (n', ms) => some ({ n' with learnQ := n'.learnQ ++ [(a, coarse)] }, ms ++ [.addWatch])

/-- `MidiMappernRT::clear` -/
def NRT.clear (_ : NRT) : NRT × List RtMsg :=
  ({ invMap := [], learnQ := [], storage := some Storage.empty }, [.bind Storage.empty none])

/-- `MidiMappernRT::generateNewBijection` (ports always carry min/max here) -/
def NRT.generateNewBijection (n : NRT) (p : PortSpec) (a : Nat) : NRT × Storage :=
  let cb : Cb := ⟨a, p.isInt, p.min8, p.max8⟩
  let ns : Storage :=
    match n.storage with
    | some st => ⟨st.mapping, st.callbacks ++ [cb], List.replicate (st.values.length + 1) 0⟩
    | none => ⟨[], [cb], [0]⟩
  ({ n with invMap := imSet n.invMap a ⟨ns.callbacks.length - 1, none, none⟩ }, ns)

/-- second half of `useFreeID` (from `auto imap = inv_map[addr]` on): insert the mapping
    entry, `killMap` the entry it replaces, update `inv_map`, send the `midi-bind`. -/
def NRT.finishLearn (n : NRT) (ns : Storage) (a : Nat) (coarse : Bool) (id : Nat) :
    Option (NRT × List RtMsg) :=
  match imLookup n.invMap a with
  | none => none                                      -- unreachable: just inserted / found
  | some im =>
    let ns : Storage := { ns with mapping := ns.mapping ++ [⟨id, coarse, im.slot⟩] }
    let killed : Option Storage :=
      if coarse then
        match im.coarse with
        | some old => (killMap old ns.mapping).map (fun mp => { ns with mapping := mp })
        | none => some ns
      else
        match im.fine, im.coarse with
        | some _, some oldc => (killMap oldc ns.mapping).map (fun mp => { ns with mapping := mp })
        | some _, none => none      -- `killMap(-1, …)`: no entry carries -1 → overflow
        | none, _ => some ns
    match killed with
    | none => none
    | some ns =>
      let im' : Imap := if coarse then { im with coarse := some id } else { im with fine := some id }
      some ({ n with invMap := imSet n.invMap a im', storage := some ns }, [.bind ns (some id)])

/-- `MidiMappernRT::useFreeID`; `ports[a] = none` models `apropos` returning NULL (crash). -/
def NRT.useFreeID (ports : List PortSpec) (n : NRT) (id : Nat) : Option (NRT × List RtMsg) :=
  match n.learnQ with
  | [] => some (n, [])
  | (a, coarse) :: q =>
    let n := { n with learnQ := q }
    match ports[a]? with
    | none => none
    | some p =>
      let r : Option (NRT × Storage) :=
        match imLookup n.invMap a with
        | none => some (n.generateNewBijection p a)
        | some _ => n.storage.map (fun st => (n, st.clone))   -- `storage->clone()`
      match r with
      | none => none
      | some (n, ns) => n.finishLearn ns a coarse id

/-! ## The realtime half -/

structure RT where
  storage : Option Storage
  pending : List Nat
  watch : Nat
  deriving DecidableEq, Repr

def RT.init : RT := ⟨none, [], 0⟩

/-- `PendingQueue::insert` -/
def pendInsert (p : List Nat) (x : Nat) : List Nat :=
  if p.contains x ∨ p.length > 31 then p else p ++ [x]

/-- `ID = (isNrpn<<18) + (((chan-1)&0x0f)<<14) + par` with `if(chan<1) chan=1` -/
def ccId (par chan : Nat) (nrpn : Bool) : Nat :=
  let ch := if chan < 1 then 1 else chan
  (if nrpn then 2 ^ 18 else 0) + (((ch - 1) &&& 0x0f) <<< 14) + par

/-- `MidiMapperRT::handleCC`: new state, backend message (if any), frontend request (if any). -/
def RT.handleCC (r : RT) (id val : Nat) : Option (RT × Option Msg × Option Nat) :=
  let handled : Option (Option Storage × Option Msg) :=
    match r.storage with
    | none => some (none, none)
    | some st => (st.handleCC id val).map (fun (st', m) => (some st', m))
  match handled with
  | none => none
  | some (st', some m) => some ({ r with storage := st' }, some m, none)
  | some (st', none) =>
    if !r.pending.contains id ∧ r.watch ≠ 0 then
      some ({ storage := st', pending := pendInsert r.pending id, watch := r.watch - 1 }, none, some id)
    else some ({ r with storage := st' }, none, none)

/-- does the snapshot held by the realtime half carry an entry for this controller? -/
def RT.knows (r : RT) (id : Nat) : Bool :=
  match r.storage with
  | none => false
  | some st => st.mapping.any (fun m => m.id == id)

/-- the `midi-add-watch` and `midi-bind:b` ports -/
def RT.recv (r : RT) : RtMsg → Option RT
  | .addWatch => some { r with watch := r.watch + 1 }
  | .bind ns _ =>
    let pend := r.pending.drop 1                       -- `pending.pop()`
    match r.storage with
    | none => some { r with pending := pend, storage := some ns }
    | some old =>
      match ns.cloneValues old with
      | none => none
      | some ns' => some { r with pending := pend, storage := some ns' }

/-! ## The whole system -/

structure Sys where
  nrt : NRT
  rt : RT
  toRT : List RtMsg
  toNRT : List Nat
  deriving DecidableEq, Repr

def Sys.init : Sys := ⟨NRT.init, RT.init, [], []⟩

inductive Op where
  | map (a : Nat) (coarse : Bool)
  | unmap (a : Nat) (coarse : Bool)
  | clear
  | cc (id val : Nat)
  | deliverRT
  | deliverNRT
  deriving DecidableEq, Repr

/-- One step.  `none` = the implementation crashes (unchecked index / allocation).
    The second component is the list of backend messages (non-empty only for `cc`). -/
def step (ports : List PortSpec) (s : Sys) : Op → Option (Sys × List Msg)
  | .map a c => (s.nrt.map a c).map fun (n, ms) => ({ s with nrt := n, toRT := s.toRT ++ ms }, [])
  | .unmap a c => (s.nrt.unMap a c).map fun (n, ms) => ({ s with nrt := n, toRT := s.toRT ++ ms }, [])
  | .clear => let (n, ms) := s.nrt.clear; some ({ s with nrt := n, toRT := s.toRT ++ ms }, [])
  | .cc id val =>
    (s.rt.handleCC id val).map fun (r, m, req) =>
      ({ s with rt := r, toNRT := s.toNRT ++ req.toList }, m.toList)
  | .deliverRT =>
    match s.toRT with
    | [] => some (s, [])
    | m :: rest => (s.rt.recv m).map fun r => ({ s with rt := r, toRT := rest }, [])
  | .deliverNRT =>
    match s.toNRT with
    | [] => some (s, [])
    | id :: rest =>
      (NRT.useFreeID ports s.nrt id).map fun (n, ms) =>
        ({ s with nrt := n, toNRT := rest, toRT := s.toRT ++ ms }, [])

/-- Run a whole history; the trace holds, per op, the backend messages it produced. -/
def run (ports : List PortSpec) : Sys → List Op → Option (Sys × List (List Msg))
  | s, [] => some (s, [])
  | s, op :: ops =>
    match step ports s op with
    | none => none
    | some (s', out) =>
      match run ports s' ops with
      | none => none
      | some (s'', outs) => some (s'', out :: outs)

/-! ## Specification vocabulary

  What the property talks about, independent of how the code stores it: which parameter a
  controller drives according to a snapshot, and how a 14-bit value is composed. -/

/-- the parameter (address, coarse?) that controller `id` drives according to snapshot `st` -/
def Storage.binding (st : Storage) (id : Nat) : Option (Nat × Bool) :=
  match st.mapping.find? (fun e => e.id == id) with
  | none => none
  | some e => (st.callbacks[e.slot]?).map (fun cb => (cb.addr, e.coarse))

/-- what the non-realtime half has decided -/
def NRT.binding (n : NRT) (id : Nat) : Option (Nat × Bool) :=
  match n.storage with
  | none => none
  | some st => st.binding id

/-- what the realtime half currently acts on -/
def RT.binding (r : RT) (id : Nat) : Option (Nat × Bool) :=
  match r.storage with
  | none => none
  | some st => st.binding id

/-- 14-bit value: the incoming 7-bit value `v` in the coarse (upper) or fine (lower) half,
    `o` in the other half -/
def compose14 (coarse : Bool) (v o : Nat) : Nat := if coarse then v * 128 + o else o * 128 + v

/-- **Specification of the learn table** (what the statement says about the non-realtime
    half, with no reference to snapshots, slots or `inv_map`): the addresses queued for
    learning, oldest first, and which parameter each controller drives. -/
structure Table where
  queue : List (Nat × Bool)
  bound : Nat → Option (Nat × Bool)

/-- `unMap(a,k)`: whoever drives `(a,k)` stops; nobody else moves -/
def Table.unmap (t : Table) (a : Nat) (k : Bool) : Table :=
  { t with bound := fun id => if t.bound id = some (a, k) then none else t.bound id }

/-- `map(a,k)`: nothing if already queued; else its controller is forgotten and it is queued last -/
def Table.map (t : Table) (a : Nat) (k : Bool) : Table :=
  if (a, k) ∈ t.queue then t else { (t.unmap a k) with queue := t.queue ++ [(a, k)] }

/-- a not yet assigned controller asks: it gets the OLDEST queued address -/
def Table.learn (t : Table) (id : Nat) : Table :=
  match t.queue with
  | [] => t
  | (a, k) :: q => { queue := q, bound := fun x => if x = id then some (a, k) else t.bound x }

def Table.clear : Table := ⟨[], fun _ => none⟩

/-- what a step of the system does to the table; `req` is the oldest pending request
    (only a delivery to the non-realtime half consumes it) -/
def Table.step (t : Table) (op : Op) (req : Option Nat) : Table :=
  match op with
  | .map a k => t.map a k
  | .unmap a k => t.unmap a k
  | .clear => Table.clear
  | .deliverNRT => match req with
    | some id => t.learn id
    | none => t
  | _ => t

/-- the table the non-realtime half implements -/
def tableOf (n : NRT) : Table := ⟨n.learnQ, n.binding⟩

/-- both channels are empty: nothing is under way between the halves -/
def Sys.quiescent (s : Sys) : Prop := s.toRT = [] ∧ s.toNRT = []

/-! ## Hazards: the two known defect classes, as decidable predicates of a step -/

/-- K1 (DESIGN K7): a `/midi-use-CC` request reaches `useFreeID` while the learn queue is
    empty (possible only after `clear`, which empties the queue without releasing the
    watches): no `midi-bind` answers it, so the controller stays in `pending`. -/
def hazardK1 (s : Sys) : Op → Bool
  | .deliverNRT => !s.toNRT.isEmpty && s.nrt.learnQ.isEmpty
  | _ => false

/-- K2: the realtime half loses track of a request that is still in flight: a `midi-bind`
    that answers no request (sent by `unMap`/`map`/`clear`) pops `pending` while it is not
    empty, or `pending` is full (32) when a request is sent. -/
def hazardK2 (s : Sys) : Op → Bool
  | .deliverRT =>
    match s.toRT with
    | .bind _ none :: _ => !s.rt.pending.isEmpty
    | _ => false
  | .cc id _ =>
    !s.rt.knows id && !s.rt.pending.contains id && s.rt.watch != 0 && s.rt.pending.length > 31
  | _ => false

def hazard (s : Sys) (op : Op) : Bool := hazardK1 s op || hazardK2 s op

/-- Does some step of the history (run from `s`) satisfy `h`?  (A crash ends the scan.) -/
def anyStep (h : Sys → Op → Bool) (ports : List PortSpec) : Sys → List Op → Bool
  | _, [] => false
  | s, op :: ops =>
    h s op ||
    match step ports s op with
    | none => false
    | some (s', _) => anyStep h ports s' ops

def triggerK1 (ports : List PortSpec) (ops : List Op) : Bool := anyStep hazardK1 ports Sys.init ops
def triggerK2 (ports : List PortSpec) (ops : List Op) : Bool := anyStep hazardK2 ports Sys.init ops
def hazardFree (ports : List PortSpec) (ops : List Op) : Bool := !anyStep hazard ports Sys.init ops

end Rtosc.Midi
