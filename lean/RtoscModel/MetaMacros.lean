/-
  C17 — specification side: the metadata-producing macros of include/rtosc/port-sugar.h,
  written as the header writes them (adjacent string literals, arguments already
  stringified), next to the key/value entry each of them stands for.

      #define rMap(name, value) ":" STRINGIFY(name) "\0=" STRINGIFY(value) "\0"
      #define rProp(name)       ":" STRINGIFY(name) "\0"
      #define rDoc(doc)         ":documentation\0=" doc "\0"
      #define rOpt(numeric,symbolic) rMap(map numeric, symbolic)         (rOptions = rOpt(0,a) rOpt(1,b) …)
      #define rPreset(no, default_value) ":default " STRINGIFY(no) "\0=" STRINGIFY(default_value) "\0"
      #define rSpecial(doc)     ":special\0" STRINGIFY(doc) "\0"

  `rSpecial` has no '=' before its text: it is not the serialisation of a key/value entry
  (`Macro.entry` is `none`), blocks using it are outside the statement of C17.
  That the preprocessor really produces `Macro.bytes` is checked on every run on the fixed
  port table of harness/meta.cpp (op `M`), it is not proved.
-/
import RtoscModel.Meta
namespace Rtosc.Meta
open Rtosc

/-- ASCII text as bytes -/
def asc (s : String) : Bytes := s.toList.map fun c => UInt8.ofNat c.toNat

inductive Macro where
  | prop (name : Bytes)
  | map (name value : Bytes)
  | doc (text : Bytes)
  | opt (numeric symbolic : Bytes)
  | preset (no value : Bytes)
  | special (text : Bytes)
deriving Repr, DecidableEq

/-- the string literal pieces the macro expands to -/
def Macro.bytes : Macro → Bytes
  | .prop n => asc ":" ++ n ++ [0]
  | .map n v => asc ":" ++ n ++ [0, 61] ++ v ++ [0]
  | .doc d => asc ":documentation" ++ [0, 61] ++ d ++ [0]
  | .opt i s => asc ":" ++ (asc "map " ++ i) ++ [0, 61] ++ s ++ [0]
  | .preset i v => asc ":default " ++ i ++ [0, 61] ++ v ++ [0]
  | .special d => asc ":special" ++ [0] ++ d ++ [0]

/-- the key/value entry the macro stands for (`none`: not an entry) -/
def Macro.entry : Macro → Option (Bytes × Option Bytes)
  | .prop n => some (n, none)
  | .map n v => some (n, some v)
  | .doc d => some (asc "documentation", some d)
  | .opt i s => some (asc "map " ++ i, some s)
  | .preset i v => some (asc "default " ++ i, some v)
  | .special _ => none

/-- the metadata string literal of a port: the macro expansions side by side, plus the
    literal's own terminating NUL -/
def literal (ms : List Macro) : Bytes := (ms.map Macro.bytes).flatten ++ [0]

/-- `rOptions(a, b, c, …)` -/
def rOptions (xs : List Bytes) : List Macro :=
  xs.zipIdx.map fun p => Macro.opt (asc (toString p.2)) p.1

end Rtosc.Meta
