/-
  C15 — specification vocabulary for the undo history (what the property statement talks
  about), independent of how `RtoscModel/Undo.lean` computes.
-/
import RtoscModel.Undo
namespace Rtosc.Undo
open Rtosc

/-- The cursor lies inside the history. -/
def WF (s : State) : Prop := s.pos ≤ s.hist.length

/-- Every recorded address yields a set-message that fits the library's 256-byte buffer
    (address shorter than 248 bytes). -/
def AddrsFit (s : State) : Prop := ∀ x ∈ s.hist, fits x.2.addr = true

/-- Events before the cursor (done, can be undone), oldest first. -/
def applied (s : State) : List Entry := s.hist.take s.pos
/-- Events after the cursor (undone, can be redone), oldest first. -/
def undone (s : State) : List Entry := s.hist.drop s.pos

/-- "a message that sets its address to the event's old value" -/
def undoMsg (e : Event) : Emit := some ⟨e.addr, e.tag, e.old⟩
/-- "replays the new value" -/
def redoMsg (e : Event) : Emit := some ⟨e.addr, e.tag, e.new⟩

/-- Entries newest first: the store holds each entry's new value; putting back its old
    value leaves a store in which the same holds for the older entries. -/
def RChain (σ : Store) : List Entry → Prop
  | [] => True
  | x :: r => σ x.2.addr = x.2.new ∧ RChain (σ.set x.2.addr x.2.old) r

/-- Entries oldest first: the store holds each entry's old value; applying its new value
    leaves a store in which the same holds for the newer entries. -/
def Chain (σ : Store) : List Entry → Prop
  | [] => True
  | x :: r => σ x.2.addr = x.2.old ∧ Chain (σ.set x.2.addr x.2.new) r

/-- The chain invariant between a history and the application's parameter store: walking
    back from the cursor every done event's new value is what the store holds before it is
    undone, walking forward every undone event's old value is what the store holds before
    it is redone ("each event's old value is the address's value when recorded"). -/
def Inv (u : State) (σ : Store) : Prop :=
  RChain σ (applied u).reverse ∧ Chain σ (undone u)

/-- Oldest entry for address `a` among `l` (oldest first). -/
def oldestFor (l : List Entry) (a : Bytes) : Option Entry := l.find? (fun x => x.2.addr = a)
/-- Newest entry for address `a` among `l` (oldest first). -/
def newestFor (l : List Entry) (a : Bytes) : Option Entry := l.reverse.find? (fun x => x.2.addr = a)

/-- The position the property asks a seek to end at: "seeks beyond either end stop at the end". -/
def clampPos (s : State) (d : Int) : Int := max 0 (min ((s.pos : Int) + d) (s.hist.length : Int))

/-- States reachable through the public interface from a fresh `UndoHistory`. -/
inductive Reachable : State → Prop
  | init : Reachable Undo.init
  | record {s} (now : Int) (ev : Event) : Reachable s → Reachable (recordEvent now ev s)
  | seek {s s'} (d : Int) (ms : List Emit) : Reachable s → seekHistory s d = some (s', ms) → Reachable s'

/-- The address an op sets (if any) fits the set-message buffer. -/
def OpFit : Op → Prop
  | .set a _ _ => fits a = true
  | _ => True

/-- All parameter addresses an op list sets fit the set-message buffer. -/
def OpsFit (ops : List Op) : Prop := ∀ o ∈ ops, OpFit o

end Rtosc.Undo
