/-
  C19 — specification side for logarithmic-scale parameters: what "at the default gain and
  offset, maps slot values 0..1 onto min..max" means for a port whose metadata say
  scale=logarithmic, namely  x ↦ exp(log(lo) + x·(log(hi) − log(lo)))  with `lo` the declared
  lower end (`logmin` if given, else `min`) and `hi = max`.

  `exactLog lg ex` is the exact rational arithmetic `exact` of RtoscModel/AutoSpec.lean with
  the two transcendental functions supplied as parameters (any pair of functions: the theorems
  quantify over them and assume only that `lg` is monotone on positive arguments); the
  real-valued instance with Mathlib's `Real.log`/`Real.exp` is in Proofs/AutoExtReal.lean.
  The small tables `lg10`/`ex10` (a decimal logarithm on 1, 10, 100 and its inverse) and
  `lgAbs` (the same extended below zero by log|x|, as real-analysis libraries do; C's `logf`
  returns NaN there) serve the counterexample theorems of Props/C19.lean.
-/
import RtoscModel.AutoSpec
namespace Rtosc.Auto
open Rtosc

/-- exact rational arithmetic (no rounding) with `logf := lg`, `expf := ex` -/
def exactLog (lg ex : Rat → Rat) : Arith Rat :=
  { le := fun x y => decide (x ≤ y)
    zero := 0, one := 1, half := 1/2, two := 2, hundred := 100
    ofInt := fun n => (n : Rat)
    add32 := (· + ·), sub32 := (· - ·), mul32 := (· * ·)
    add64 := (· + ·), sub64 := (· - ·), mul64 := (· * ·), div64 := (· / ·)
    to32 := id
    roundf := roundAway
    toInt := truncInt
    logf := lg
    expf := ex }

/-- `exact` is the instance with both functions the identity -/
theorem exactLog_id : exactLog id id = exact := rfl

/-- the message the logarithmic map prescribes at slot value `x` for a parameter of type `ty`
    (`'i'` or `'f'`) bound under `path` whose declared range is `lo..hi`: the value
    `ex (lg lo + x·(lg hi − lg lo))`, rounded half away from zero for an integer parameter
    (`expArg`, the argument of the exponential, is the driver's observation aid) -/
def logMsg (lg ex : Rat → Rat) (path : Bytes) (ty : Char) (lo hi x : Rat) : Msg Rat :=
  let a := lg lo + x * (lg hi - lg lo)
  if ty = 'i' then { addr := path, ty := 'i', val := .int (truncInt (roundAway (ex a))), expArg := some a }
  else { addr := path, ty := 'f', val := .flt (ex a), expArg := some a }

/-- a decimal logarithm on the decades 1, 10, 100 (monotone step function) -/
def lg10 (x : Rat) : Rat := if x ≤ 1 then 0 else if x ≤ 10 then 1 else 2
/-- its inverse on 0, 1, 2 -/
def ex10 (y : Rat) : Rat := if y ≤ 0 then 1 else if y ≤ 1 then 10 else 100
/-- `lg10` extended to negative arguments by log|x| -/
def lgAbs (x : Rat) : Rat := lg10 (if x < 0 then -x else x)

/-- the value carried by a message, as a rational (integers embedded) -/
def Msg.ratVal (m : Msg Rat) : Option Rat :=
  match m.val with
  | .int n => some (n : Rat)
  | .flt x => some x
  | .none => none

end Rtosc.Auto
