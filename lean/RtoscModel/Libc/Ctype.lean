/-
  C10/C11 — the <ctype.h> predicates the pretty printer/scanner use, in the "C" locale
  (the check runs under LC_ALL=C), on `unsigned char` values, and a few byte-list helpers.
  No Mathlib import: linked into the driver.
-/
import RtoscModel.Basic
namespace Rtosc.Libc
open Rtosc

/-- `isspace`: space, \t \n \v \f \r -/
def isspace (c : UInt8) : Bool := c = 32 || (9 ≤ c && c ≤ 13)
def isdigit (c : UInt8) : Bool := 48 ≤ c && c ≤ 57
def isupper (c : UInt8) : Bool := 65 ≤ c && c ≤ 90
def islower (c : UInt8) : Bool := 97 ≤ c && c ≤ 122
def isalpha (c : UInt8) : Bool := isupper c || islower c
def isalnum (c : UInt8) : Bool := isalpha c || isdigit c
def isxdigit (c : UInt8) : Bool := isdigit c || (65 ≤ c && c ≤ 70) || (97 ≤ c && c ≤ 102)
def tolower (c : UInt8) : UInt8 := if isupper c then c + 32 else c
def toupper (c : UInt8) : UInt8 := if islower c then c - 32 else c

/-- value of a hexadecimal digit (only meaningful when `isxdigit c`) -/
def xval (c : UInt8) : Nat :=
  if isdigit c then c.toNat - 48 else if c ≥ 97 then c.toNat - 87 else c.toNat - 55

/-- value of a decimal digit -/
def dval (c : UInt8) : Nat := c.toNat - 48

/-- the bytes of an ASCII string literal -/
def lit (s : String) : Bytes := s.toList.map (fun c => c.toNat.toUInt8)

/-- `*p` for a C string given as the bytes before its NUL: the NUL itself at the end -/
def hd (s : Bytes) : UInt8 := match s with | [] => 0 | c :: _ => c

/-- `p[k]` as long as no NUL lies before index k (`none`: a read past the terminating NUL) -/
def at? (s : Bytes) (k : Nat) : Option UInt8 :=
  if k < s.length then some (s.getD k 0) else if k = s.length then some 0 else none

/-- drop leading white space (`while(isspace(*p)) ++p`) -/
def skipSpace : Bytes → Bytes
  | [] => []
  | c :: r => if isspace c then skipSpace r else c :: r

/-- `strncmp(p, lit, |lit|) == 0` -/
def startsWith (s pre : Bytes) : Bool := pre.isPrefixOf s

end Rtosc.Libc
