/-
  C10 — the integer conversions of printf the pretty printer uses:
  `%d` / `%ld` (`fmtDec`), `%x` (`fmtHex`), `%02x` (`fmtHex2`), zero-padded decimal fields
  of strftime (`pad2`).  Modelled after glibc, validated by the correspondence stream.
  No Mathlib import: linked into the driver.
-/
import RtoscModel.Libc.Ctype
namespace Rtosc.Libc
open Rtosc

def digitChar (d : Nat) : UInt8 := (48 + d).toUInt8
def hexDigitChar (d : Nat) : UInt8 := if d < 10 then (48 + d).toUInt8 else (87 + d).toUInt8

/-- decimal digits of `n`, most significant first, prepended to `acc`; `0 ↦ acc`.
    The first argument bounds the number of digits (structural recursion, so that the kernel
    can evaluate it); `n` itself is always enough. -/
def decDigitsFuel : Nat → Nat → Bytes → Bytes
  | 0, _, acc => acc
  | fuel + 1, n, acc => if n = 0 then acc else decDigitsFuel fuel (n / 10) (digitChar (n % 10) :: acc)

def decDigitsAux (n : Nat) (acc : Bytes) : Bytes := decDigitsFuel n n acc

/-- `%u` -/
def fmtNat (n : Nat) : Bytes := if n = 0 then [48] else decDigitsAux n []

/-- `%d`, `%ld`: optional '-', then the decimal digits -/
def fmtDec (v : Int) : Bytes :=
  if v < 0 then 45 :: fmtNat v.natAbs else fmtNat v.natAbs

def hexDigitsFuel : Nat → Nat → Bytes → Bytes
  | 0, _, acc => acc
  | fuel + 1, n, acc => if n = 0 then acc else hexDigitsFuel fuel (n / 16) (hexDigitChar (n % 16) :: acc)

def hexDigitsAux (n : Nat) (acc : Bytes) : Bytes := hexDigitsFuel n n acc

/-- `%x` -/
def fmtHex (n : Nat) : Bytes := if n = 0 then [48] else hexDigitsAux n []

/-- `%02x` of a value below 256 -/
def fmtHex2 (n : Nat) : Bytes := [hexDigitChar (n / 16 % 16), hexDigitChar (n % 16)]

/-- `%02d` (strftime %m %d %H %M %S) -/
def pad2 (n : Nat) : Bytes := if n < 10 then 48 :: fmtNat n else fmtNat n

/-- left-pad with '0' to at least `w` characters -/
def padZero (w : Nat) (s : Bytes) : Bytes := List.replicate (w - s.length) 48 ++ s

end Rtosc.Libc
