/-
  C10/C11 — exact models of the floating-point conversions of glibc that the pretty
  printer / scanner rely on, on bit patterns, with `Nat`/`Int` arithmetic only:

  * `fmtA`     : printf `%a` / `%la` of a double (a `float` argument is promoted first),
  * `fmtF`     : printf `%#.Nf` / `%.Nf` of a double,
  * `promote`  : `(double)f` (exact),
  * `strtodMag`/`roundPos` : strtof / strtod on the characters sscanf has collected
                 (decimal or hexadecimal notation), correctly rounded to nearest, ties to even.

  Values are `± m · 2^e` with natural `m` and integer `e`; nothing is approximated.
  Modelled, not verified against glibc's source; validated by the `X …` correspondence
  stream of the `pretty` engine (tools/props/c10.py).
  No Mathlib import: linked into the driver.
-/
import RtoscModel.Libc.Printf
namespace Rtosc.Libc
open Rtosc

/-- binary interchange format: stored significand bits, exponent bits -/
structure FFmt where
  mbits : Nat
  ebits : Nat
deriving DecidableEq, Repr

def f32 : FFmt := ⟨23, 8⟩
def f64 : FFmt := ⟨52, 11⟩

namespace FFmt
variable (F : FFmt)
def bias : Nat := 2 ^ (F.ebits - 1) - 1
def expMax : Nat := 2 ^ F.ebits - 1
def signBit : Nat := 2 ^ (F.mbits + F.ebits)
def infBits : Nat := F.expMax * 2 ^ F.mbits
def nanBits : Nat := F.infBits + 2 ^ (F.mbits - 1)
/-- exponent of one unit in the last place of the subnormal range -/
def qmin : Int := 1 - (F.bias : Int) - (F.mbits : Int)
def sign (b : Nat) : Bool := b / F.signBit % 2 = 1
def mag (b : Nat) : Nat := b % F.signBit
def expField (b : Nat) : Nat := F.mag b / 2 ^ F.mbits
def frac (b : Nat) : Nat := b % 2 ^ F.mbits
end FFmt

/-- magnitude of a floating-point datum -/
inductive FMag where
  | zero
  | fin (m : Nat) (e : Int)      -- m · 2^e, m ≠ 0
  | inf
  | nan
deriving DecidableEq, Repr

def FFmt.classify (F : FFmt) (b : Nat) : FMag :=
  if F.expField b = F.expMax then (if F.frac b = 0 then .inf else .nan)
  else if F.expField b = 0 then (if F.frac b = 0 then .zero else .fin (F.frac b) F.qmin)
  else .fin (2 ^ F.mbits + F.frac b) ((F.expField b : Int) - (F.bias : Int) - (F.mbits : Int))

/-- `⌊log2 (num/den)⌋` for positive `num`, `den` -/
def ratLog2 (num den : Nat) : Int :=
  let l : Int := (Nat.log2 num : Int) - (Nat.log2 den : Int)
  let ge : Bool := if l ≥ 0 then decide (num ≥ den * 2 ^ l.toNat) else decide (num * 2 ^ (-l).toNat ≥ den)
  if ge then l else l - 1

/-- The magnitude bits (exponent and significand field) of the value of format `F` nearest to
    `num/den` (`den > 0`), ties to even; overflow gives infinity. -/
def roundPos (F : FFmt) (num den : Nat) : Nat :=
  if num = 0 then 0 else
  let l := ratLog2 num den
  let e : Int := max F.qmin (l - (F.mbits : Int))
  let n2 := if e ≥ 0 then num else num * 2 ^ (-e).toNat
  let d2 := if e ≥ 0 then den * 2 ^ e.toNat else den
  let q := n2 / d2
  let r := n2 % d2
  let q1 := if 2 * r > d2 ∨ (2 * r = d2 ∧ q % 2 = 1) then q + 1 else q
  let q2 := if q1 = 2 ^ (F.mbits + 1) then 2 ^ F.mbits else q1
  let e2 : Int := if q1 = 2 ^ (F.mbits + 1) then e + 1 else e
  if q2 < 2 ^ F.mbits then q2
  else
    let ef := (e2 - F.qmin + 1).toNat
    if ef ≥ F.expMax then F.infBits else ef * 2 ^ F.mbits + (q2 - 2 ^ F.mbits)

/-- bits of `± m · 2^e` rounded to format `F` -/
def FFmt.ofScaled (F : FFmt) (neg : Bool) (m : Nat) (e : Int) : Nat :=
  (if neg then F.signBit else 0) +
    (if e ≥ 0 then roundPos F (m * 2 ^ e.toNat) 1 else roundPos F m (2 ^ (-e).toNat))

def FFmt.ofMag (F : FFmt) (neg : Bool) : FMag → Nat
  | .zero => if neg then F.signBit else 0
  | .fin m e => F.ofScaled neg m e
  | .inf => (if neg then F.signBit else 0) + F.infBits
  | .nan => (if neg then F.signBit else 0) + F.nanBits

/-- `(double)f` for a binary32 pattern (exact; a NaN keeps its sign, payload not modelled) -/
def promote (b32 : Nat) : Nat := f64.ofMag (f32.sign b32) (f32.classify b32)

/-! ### printf `%a` -/

/-- drop trailing '0' characters -/
def stripZeros (s : Bytes) : Bytes := (s.reverse.dropWhile (· = 48)).reverse

/-- exactly `w` hexadecimal digits of `n` (`n < 16^w`) -/
def hexFixed (w n : Nat) : Bytes := padZero w (if n = 0 then [] else hexDigitsAux n [])

/-- `%a` / `%la` of the double with bit pattern `b` (glibc: no precision → shortest exact) -/
def fmtA (b : Nat) : Bytes :=
  let sgn : Bytes := if f64.sign b then [45] else []
  match f64.classify b with
  | .inf => sgn ++ lit "inf"
  | .nan => sgn ++ lit "nan"
  | .zero => sgn ++ lit "0x0p+0"
  | .fin _ _ =>
    let fr := stripZeros (hexFixed 13 (f64.frac b))
    let lead : UInt8 := if f64.expField b = 0 then 48 else 49
    let ex : Int := if f64.expField b = 0 then -1022 else (f64.expField b : Int) - 1023
    sgn ++ [48, 120, lead] ++ (if fr.isEmpty then [] else 46 :: fr) ++ [112] ++
      (if ex < 0 then 45 :: fmtNat ex.natAbs else 43 :: fmtNat ex.natAbs)

/-! ### printf `%.Nf` / `%#.Nf` -/

/-- `⌊m · 2^e · 10^prec⌉` (ties to even), for `m · 2^e ≥ 0` -/
def scaledRound (m : Nat) (e : Int) (prec : Nat) : Nat :=
  if e ≥ 0 then m * 2 ^ e.toNat * 10 ^ prec
  else
    let n := m * 10 ^ prec
    let d := 2 ^ (-e).toNat
    let q := n / d
    let r := n % d
    if 2 * r > d ∨ (2 * r = d ∧ q % 2 = 1) then q + 1 else q

/-- `%.{prec}f` (`alt = false`) or `%#.{prec}f` (`alt = true`) of the double `b` -/
def fmtF (alt : Bool) (prec : Nat) (b : Nat) : Bytes :=
  let sgn : Bytes := if f64.sign b then [45] else []
  let body (q : Nat) : Bytes :=
    let ip := fmtNat (q / 10 ^ prec)
    if prec = 0 then (if alt then ip ++ [46] else ip)
    else ip ++ 46 :: padZero prec (if q % 10 ^ prec = 0 then [] else decDigitsAux (q % 10 ^ prec) [])
  match f64.classify b with
  | .inf => sgn ++ lit "inf"
  | .nan => sgn ++ lit "nan"
  | .zero => sgn ++ body 0
  | .fin m e => sgn ++ body (scaledRound m e prec)

/-! ### strtof / strtod on a collected character buffer (sign already removed) -/

/-- leading decimal digits: (value, number of digits, rest) -/
def takeDec : Bytes → Nat → Nat → Nat × Nat × Bytes
  | [], v, k => (v, k, [])
  | c :: r, v, k => if isdigit c then takeDec r (v * 10 + dval c) (k + 1) else (v, k, c :: r)

def takeHex : Bytes → Nat → Nat → Nat × Nat × Bytes
  | [], v, k => (v, k, [])
  | c :: r, v, k => if isxdigit c then takeHex r (v * 16 + xval c) (k + 1) else (v, k, c :: r)

/-- optional exponent `<marker>[+-]digits+`; (exponent, rest). Without digits nothing is consumed. -/
def takeExp (marker : UInt8) (s : Bytes) : Int × Bytes :=
  match s with
  | c :: r =>
    if tolower c = marker then
      let (neg, r1) := match r with
        | 45 :: r' => (true, r')
        | 43 :: r' => (false, r')
        | _ => (false, r)
      let (v, k, r2) := takeDec r1 0 0
      if k = 0 then (0, s) else ((if neg then -(v : Int) else (v : Int)), r2)
    else (0, s)
  | [] => (0, s)

/-- number of decimal digits of `n` (0 for 0) -/
def numDigits (n : Nat) : Nat := if n = 0 then 0 else (decDigitsAux n []).length

/-- `m · 10^x` rounded to `F`; the clamps only cut off exponents whose result is certainly
    infinite / zero (they keep the arithmetic small) -/
def decToBits (F : FFmt) (m : Nat) (x : Int) : Nat :=
  if m = 0 then 0
  else if (numDigits m : Int) + x > 400 then F.infBits
  else if (numDigits m : Int) + x < -400 then 0
  else if x ≥ 0 then roundPos F (m * 10 ^ x.toNat) 1 else roundPos F m (10 ^ (-x).toNat)

def hexToBits (F : FFmt) (m : Nat) (x : Int) : Nat :=
  if m = 0 then 0
  else if (Nat.log2 m : Int) + x > 1100 then F.infBits
  else if (Nat.log2 m : Int) + x < -1200 then 0
  else if x ≥ 0 then roundPos F (m * 2 ^ x.toNat) 1 else roundPos F m (2 ^ (-x).toNat)

/-- `strtof`/`strtod` (result format `F`) of an unsigned buffer: magnitude bits and the number of
    characters converted; `none`: no conversion.  (`inf`, `nan` are handled by the caller.) -/
def strtodMag (F : FFmt) (buf : Bytes) : Option (Nat × Nat) :=
  let hexBody : Option (Nat × Nat) :=
    match buf with
    | 48 :: x :: r =>
      if tolower x = 120 then
        let (ip, ik, r1) := takeHex r 0 0
        let (m, fk, r2) := match r1 with
          | 46 :: r' => let (v, k, r'') := takeHex r' ip 0; (v, k, r'')
          | _ => (ip, 0, r1)
        if ik + fk = 0 then none
        else
          let (ex, r3) := takeExp 112 r2
          some (hexToBits F m (ex - 4 * (fk : Int)), buf.length - r3.length)
      else none
    | _ => none
  match hexBody with
  | some res => some res
  | none =>
    let (ip, ik, r1) := takeDec buf 0 0
    let (m, fk, r2) := match r1 with
      | 46 :: r' => let (v, k, r'') := takeDec r' ip 0; (v, k, r'')
      | _ => (ip, 0, r1)
    if ik + fk = 0 then none
    else
      let (ex, r3) := takeExp 101 r2
      some (decToBits F m (ex - (fk : Int)), buf.length - r3.length)

end Rtosc.Libc
