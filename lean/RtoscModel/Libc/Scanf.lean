/-
  C10/C11 — model of glibc's `sscanf` for the directives the pretty scanner uses:
  white space, literal characters, `%d %i %x` (optional field width, optional `*`, `l`),
  `%f %lf`, `%n`, `%*[^\n]`.

  A format is a `List Dir` (written by hand next to each C format string);
  `sscanf fmt input` returns the values assigned, in order, up to the first failing
  directive (a `%n` contributes `.pos consumed`).  What the C code does with variables that
  were *not* assigned (they keep their old contents) is modelled at each call site.

  The number collection mirrors glibc 2.36 `__vfscanf_internal`:
  * integers: optional sign, `0`/`0x` prefix handling depending on the base, digits while the
    width lasts; "no digits" is a matching failure; the collected digits are converted with
    strtol / strtoul semantics (clamped to 64 bits); the caller truncates to the target type;
  * floats: the state machine with `got_digit / got_e / got_dot / HEXA_FLOAT` (so `1e+` is
    consumed entirely although only `1` is converted), `inf`/`infinity`/`nan`, then
    strtof/strtod (`Libc.Float`).
  Modelled, not verified; validated by the correspondence streams of engine `pretty`.
  No Mathlib import: linked into the driver.
-/
import RtoscModel.Libc.Float
namespace Rtosc.Libc
open Rtosc

inductive IntConv where | d | i | x
deriving DecidableEq, Repr

inductive Dir where
  | ws                                                       -- white space in the format
  | lit (c : UInt8)                                          -- ordinary character
  | int (conv : IntConv) (width : Option Nat) (sup : Bool)   -- %d %i %x, `sup` = `*`
  | flt (dbl : Bool) (sup : Bool)                            -- %f / %lf
  | n                                                        -- %n
  | notNl                                                    -- %*[^\n]
deriving DecidableEq, Repr

inductive SVal where
  | int (v : Int)       -- strtol/strtoul result (64 bit), before truncation to the target
  | flt (bits : Nat)
  | pos (n : Nat)
deriving DecidableEq, Repr

/-- literal characters of an ASCII string as directives -/
def lits (s : String) : List Dir := (lit s).map Dir.lit

def wOk (w : Option Nat) : Bool := w ≠ some 0
def wDec (w : Option Nat) : Option Nat := w.map (· - 1)

/-- `c` is a digit of the given base (16: hexadecimal digit; else decimal digit below the base) -/
def digitOk (base : Nat) (c : UInt8) : Bool :=
  if base = 16 then isxdigit c else (isdigit c && decide (dval c < base))

/-- digits valid in `base`, while the width lasts: (digits, rest) -/
def takeDigits (base : Nat) : Bytes → Option Nat → Bytes × Bytes
  | [], _ => ([], [])
  | c :: r, w =>
    if wOk w && digitOk base c then
      (c :: (takeDigits base r (wDec w)).1, (takeDigits base r (wDec w)).2)
    else ([], c :: r)

def digitsVal (base : Nat) (ds : Bytes) : Nat := ds.foldl (fun v c => v * base + xval c) 0

def clampI64 (v : Int) : Int :=
  if v > 9223372036854775807 then 9223372036854775807
  else if v < -9223372036854775808 then -9223372036854775808 else v

/-- The "look for a leading indication of base" step of an integer conversion, behind the
    optional sign: (a leading "0" was read, base, remaining input, remaining width).
    A "0" is always read; an "x" behind it is read only for base 0 or 16. -/
def intPrefix (base0 : Nat) (s1 : Bytes) (w1 : Option Nat) : Bool × Nat × Bytes × Option Nat :=
  if wOk w1 && hd s1 = 48 && !s1.isEmpty then
    if wOk (wDec w1) && tolower (hd (s1.drop 1)) = 120 && !(s1.drop 1).isEmpty then
      if base0 = 0 ∨ base0 = 16 then (true, 16, s1.drop 2, wDec (wDec w1))
      else (true, base0, s1.drop 1, wDec w1)
    else (true, if base0 = 0 then 8 else base0, s1.drop 1, wDec w1)
  else (false, if base0 = 0 then 10 else base0, s1, w1)

/-- strtol / strtoul of the collected digits -/
def intValue (conv : IntConv) (neg : Bool) (m : Nat) : Int :=
  match conv with
  | .x => if m > 18446744073709551615 then 18446744073709551615
          else if neg then ((18446744073709551616 - m) % 18446744073709551616 : Nat) else m
  | _ => clampI64 (if neg then -(m : Int) else m)

/-- One integer conversion on `s` (leading white space included): value and the rest of the input;
    `none`: input failure / matching failure. -/
def scanInt (conv : IntConv) (width : Option Nat) (s : Bytes) : Option (Int × Bytes) :=
  match skipSpace s with
  | [] => none
  | c :: r0 =>
    let hasSign := c = 45 || c = 43
    let s1 := if hasSign then r0 else c :: r0
    let w1 := if hasSign then wDec width else width
    let base0 : Nat := match conv with | .d => 10 | .i => 0 | .x => 16
    let p := intPrefix base0 s1 w1
    let ds := (takeDigits p.2.1 p.2.2.1 p.2.2.2).1
    let rest := (takeDigits p.2.1 p.2.2.1 p.2.2.2).2
    if !p.1 && ds.isEmpty then none
    else some (intValue conv (c = 45) (digitsVal p.2.1 ds), rest)

/-- state of the float collection loop -/
structure FState where
  gotDigit : Bool
  gotE : Bool
  gotDot : Bool
  hexa : Bool
  lastExp : Bool      -- the last collected character is the exponent character

/-- the `while (1)` loop of the float conversion: collected characters and rest of the input -/
def collectFloat : Bytes → FState → Bytes × Bytes
  | [], _ => ([], [])
  | c :: r, st =>
    let expChar : UInt8 := if st.hexa then 112 else 101
    if isdigit c then
      let p := collectFloat r { st with gotDigit := true, lastExp := false }
      (c :: p.1, p.2)
    else if !st.gotE && st.hexa && isxdigit c then
      let p := collectFloat r { st with gotDigit := true, lastExp := false }
      (c :: p.1, p.2)
    else if st.gotE && st.lastExp && (c = 45 || c = 43) then
      let p := collectFloat r { st with lastExp := false }
      (c :: p.1, p.2)
    else if st.gotDigit && !st.gotE && tolower c = expChar then
      let p := collectFloat r { st with gotE := true, gotDot := true, lastExp := true }
      (expChar :: p.1, p.2)
    else if c = 46 && !st.gotDot then
      let p := collectFloat r { st with gotDot := true, lastExp := false }
      (c :: p.1, p.2)
    else ([], c :: r)

/-- case-insensitive match of a lower-case word -/
def matchWordCI : Bytes → Bytes → Option Bytes
  | [], s => some s
  | _ :: _, [] => none
  | w :: ws, c :: r => if tolower c = w then matchWordCI ws r else none

/-- One floating-point conversion (`%f`: `F = f32`, `%lf`: `F = f64`): bits and the rest of the
    input; `none`: input / matching failure. -/
def scanFloat (F : FFmt) (s : Bytes) : Option (Nat × Bytes) :=
  let s0 := skipSpace s
  match s0 with
  | [] => none
  | c :: r0 =>
    let hasSign := c = 45 || c = 43
    let neg := c = 45
    let s1 := if hasSign then r0 else s0
    let sgn := if neg then F.signBit else 0
    match s1 with
    | [] => none
    | c1 :: r1 =>
      if tolower c1 = 110 then          -- "nan"
        match matchWordCI [97, 110] r1 with
        | some rest => some (sgn + F.nanBits, rest)
        | none => none
      else if tolower c1 = 105 then     -- "inf" / "infinity"
        match matchWordCI [110, 102] r1 with
        | none => none
        | some rest =>
          match rest with
          | c2 :: r2 =>
            if tolower c2 = 105 then
              match matchWordCI [110, 105, 116, 121] r2 with
              | some rest' => some (sgn + F.infBits, rest')
              | none => none
            else some (sgn + F.infBits, rest)
          | [] => some (sgn + F.infBits, rest)
      else
        -- "0" / "0x" prefix
        let zero := c1 = 48
        let hexa := zero && tolower (hd r1) = 120 && !r1.isEmpty
        let pre : Bytes := if hexa then [48, 120] else if zero then [48] else []
        let s2 := if hexa then r1.drop 1 else if zero then r1 else s1
        let st : FState := { gotDigit := zero && !hexa, gotE := false, gotDot := false, hexa := hexa, lastExp := false }
        let b := (collectFloat s2 st).1
        let rest := (collectFloat s2 st).2
        let buf := pre ++ b
        if buf.isEmpty || (hexa && buf.length = 2) then none
        else
          match strtodMag F buf with
          | none => none
          | some (bits, _) => some (sgn + bits, rest)

/-- characters up to (excluding) the next newline -/
def takeNotNl : Bytes → Bytes × Bytes
  | [] => ([], [])
  | c :: r => if c = 10 then ([], c :: r) else (c :: (takeNotNl r).1, (takeNotNl r).2)

/-- interpreter; `consumed` = characters read so far; `acc` = assignments in reverse order -/
def sscanfGo : List Dir → Bytes → Nat → List SVal → List SVal
  | [], _, _, acc => acc.reverse
  | .ws :: ds, s, k, acc =>
    let s' := skipSpace s
    sscanfGo ds s' (k + (s.length - s'.length)) acc
  | .lit c :: ds, s, k, acc =>
    match s with
    | [] => acc.reverse
    | x :: r => if x = c then sscanfGo ds r (k + 1) acc else acc.reverse
  | .int conv w sup :: ds, s, k, acc =>
    match scanInt conv w s with
    | none => acc.reverse
    | some (v, r) => sscanfGo ds r (k + (s.length - r.length)) (if sup then acc else .int v :: acc)
  | .flt dbl sup :: ds, s, k, acc =>
    match scanFloat (if dbl then f64 else f32) s with
    | none => acc.reverse
    | some (b, r) => sscanfGo ds r (k + (s.length - r.length)) (if sup then acc else .flt b :: acc)
  | .n :: ds, s, k, acc => sscanfGo ds s k (.pos k :: acc)
  | .notNl :: ds, s, k, acc =>
    if (takeNotNl s).1.isEmpty then acc.reverse else sscanfGo ds (takeNotNl s).2 (k + (takeNotNl s).1.length) acc

/-- `sscanf(input, fmt, …)`: the assigned values in order -/
def sscanf (fmt : List Dir) (input : Bytes) : List SVal := sscanfGo fmt input 0 []

/-- the value a trailing `%n` delivered to an `int rd = 0` (0 when the directive was not reached);
    all other conversions of `fmt` must be suppressed -/
def scanRd (fmt : List Dir) (input : Bytes) : Nat :=
  match sscanf fmt input with
  | [.pos n] => n
  | _ => 0

/-- two's-complement truncation of a 64-bit conversion result to `int` / `unsigned` storage,
    read back as `int32_t` -/
def toI32 (v : Int) : Int := (v + 2147483648) % 4294967296 - 2147483648
def toI64 (v : Int) : Int := (v + 9223372036854775808) % 18446744073709551616 - 9223372036854775808

end Rtosc.Libc
