/-
  C10 — `localtime`, `mktime` and `strftime("%Y-%m-%d %H:%M:%S")` under TZ=UTC
  (the check sets TZ=UTC): proleptic Gregorian calendar arithmetic, no leap seconds,
  no daylight saving.  `mktime` normalises out-of-range fields like glibc does
  (month carries into the year, day/hour/minute/second are added linearly).
  Modelled, validated by the `X tm` correspondence stream.
  No Mathlib import: linked into the driver.
-/
import RtoscModel.Libc.Printf
namespace Rtosc.Libc
open Rtosc

/-- the fields of `struct tm` the code uses (`year` = tm_year + 1900, `mon` = tm_mon + 1) -/
structure Tm where
  year : Int
  mon : Int
  mday : Int
  hour : Int
  min : Int
  sec : Int
deriving DecidableEq, Repr

/-- days since 1970-01-01 of the civil date y-m-d (`m` in 1..12; `d` may be out of range) -/
def daysFromCivil (y m d : Int) : Int :=
  let y' := if m ≤ 2 then y - 1 else y
  let era := y' / 400
  let yoe := y' - era * 400
  let doy := (153 * (if m > 2 then m - 3 else m + 9) + 2) / 5 + d - 1
  let doe := yoe * 365 + yoe / 4 - yoe / 100 + doy
  era * 146097 + doe - 719468

/-- civil date of the day `z` days after 1970-01-01 -/
def civilFromDays (z : Int) : Int × Int × Int :=
  let z' := z + 719468
  let era := z' / 146097
  let doe := z' - era * 146097
  let yoe := (doe - doe / 1460 + doe / 36524 - doe / 146096) / 365
  let doy := doe - (365 * yoe + yoe / 4 - yoe / 100)
  let mp := (5 * doy + 2) / 153
  let d := doy - (153 * mp + 2) / 5 + 1
  let m := if mp < 10 then mp + 3 else mp - 9
  let y := yoe + era * 400 + (if m ≤ 2 then 1 else 0)
  (y, m, d)

/-- `localtime(&t)` under UTC -/
def localtime (t : Int) : Tm :=
  let days := t / 86400
  let rem := t % 86400
  let (y, m, d) := civilFromDays days
  { year := y, mon := m, mday := d, hour := rem / 3600, min := rem % 3600 / 60, sec := rem % 60 }

/-- `mktime(&tm)` under UTC (`tm_isdst` is irrelevant) -/
def mktime (tm : Tm) : Int :=
  let m0 := tm.mon - 1
  let y := tm.year + m0 / 12
  let m := m0 % 12 + 1
  (daysFromCivil y m 1 + (tm.mday - 1)) * 86400 + tm.hour * 3600 + tm.min * 60 + tm.sec

/-- `%Y` (no padding beyond what the number needs; years here are 1970..2106) -/
def fmtYear (y : Int) : Bytes := fmtDec y

def fmtDate (tm : Tm) : Bytes := fmtYear tm.year ++ 45 :: pad2 tm.mon.toNat ++ 45 :: pad2 tm.mday.toNat
def fmtHM (tm : Tm) : Bytes := pad2 tm.hour.toNat ++ 58 :: pad2 tm.min.toNat
def fmtS (tm : Tm) : Bytes := pad2 tm.sec.toNat

end Rtosc.Libc
