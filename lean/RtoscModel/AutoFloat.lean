/-
  C19 — the concrete arithmetic used by the driver: IEEE-754 binary32 / binary64
  round-to-nearest-even over exact rationals (every finite float is a `Rat`).
  Domain: finite values, no overflow (a result beyond the largest finite value is kept as
  the rounded rational and printed as infinity); the sign of zero is not represented
  (both sides of the correspondence print zero as +0).  `logf` is supplied per op line as
  a finite table (the values libm returns for the log-scale bounds, see `logOfTable`);
  `expf` is not computed: the model reports the argument of `expf` instead.
  Proofs/AutoFloatLemmas.lean shows that this arithmetic satisfies the order laws
  (`Rtosc.Auto.Laws`) the range/monotonicity theorems assume.
-/
import RtoscModel.Auto
namespace Rtosc.Auto.IEEE
open Rtosc

def pow2 (k : Int) : Rat :=
  if k ≥ 0 then ((2 ^ k.toNat : Nat) : Rat) else 1 / ((2 ^ (-k).toNat : Nat) : Rat)

/-- ⌊log2 |x|⌋ for x ≠ 0 -/
def ilog2 (x : Rat) : Int :=
  let n := x.num.natAbs
  let d := x.den
  let e0 : Int := (Nat.log2 n : Int) - (Nat.log2 d : Int)
  let ax : Rat := if x < 0 then -x else x
  if pow2 e0 ≤ ax then e0 else e0 - 1

/-- round a non-negative rational to the nearest integer, ties to even -/
def roundHalfEven (q : Rat) : Nat :=
  let f := q.floor.toNat
  let r := q - (f : Rat)
  if r < 1/2 then f else if r > 1/2 then f + 1 else if f % 2 = 0 then f else f + 1

/-- round to nearest even in a binary format with `p` significand bits whose smallest
    subnormal is 2^eminUlp -/
def rnd (p : Nat) (eminUlp : Int) (x : Rat) : Rat :=
  if x = 0 then 0 else
  let ax : Rat := if x < 0 then -x else x
  let e := ilog2 x
  let ue : Int := max (e - ((p : Int) - 1)) eminUlp
  let u := pow2 ue
  let r : Rat := ((roundHalfEven (ax / u) : Nat) : Rat) * u
  if x < 0 then -r else r

def rnd32 (x : Rat) : Rat := rnd 24 (-149) x
def rnd64 (x : Rat) : Rat := rnd 53 (-1074) x

/-- `roundf`: to the nearest integer, halves away from zero (exact in binary32) -/
def roundAway (x : Rat) : Rat :=
  if x < 0 then -(((-x + 1/2).floor : Int) : Rat) else (((x + 1/2).floor : Int) : Rat)

/-- `(int)x`: truncation -/
def trunc (x : Rat) : Int := if x < 0 then -((-x).floor) else x.floor

/-- bit pattern of a binary32 value (zero is +0; beyond the finite range: infinity) -/
def toBits32 (x : Rat) : Nat :=
  if x = 0 then 0 else
  let s : Nat := if x < 0 then 2 ^ 31 else 0
  let ax : Rat := if x < 0 then -x else x
  let e := ilog2 x
  if e > 127 then s + 255 * 2 ^ 23
  else if e < -126 then s + (ax / pow2 (-149)).floor.toNat
  else s + (e + 127).toNat * 2 ^ 23 + ((ax / pow2 (e - 23)).floor.toNat - 2 ^ 23)

/-- value of a binary32 bit pattern; `none` for infinities and NaNs -/
def ofBits32 (b : Nat) : Option Rat :=
  let s : Nat := b / 2 ^ 31 % 2
  let e : Nat := b / 2 ^ 23 % 256
  let f : Nat := b % 2 ^ 23
  if e = 255 then none
  else
    let v : Rat :=
      if e = 0 then (f : Rat) * pow2 (-149)
      else ((2 ^ 23 + f : Nat) : Rat) * pow2 ((e : Int) - 150)
    some (if s = 1 then -v else v)

/-- `logf` from a finite table of (argument, result) pairs: the largest tabulated result
    whose argument is `<= x` (the smallest tabulated result below all arguments).  For an
    argument in a table that is monotone — as libm's `logf` is — this is the tabulated
    result itself; and it is monotone in `x` by construction. -/
def logOfTable (tab : List (Rat × Rat)) (x : Rat) : Rat :=
  let base := tab.foldl (fun a kv => if kv.2 ≤ a then kv.2 else a) 0
  tab.foldl (fun a kv => if kv.1 ≤ x then (if a ≤ kv.2 then kv.2 else a) else a) base

def ieee (logTab : List (Rat × Rat)) : Arith Rat :=
  { le := fun x y => decide (x ≤ y)
    zero := 0, one := 1, half := 1/2, two := 2, hundred := 100
    ofInt := fun n => (n : Rat)
    add32 := fun x y => rnd32 (x + y)
    sub32 := fun x y => rnd32 (x - y)
    mul32 := fun x y => rnd32 (x * y)
    add64 := fun x y => rnd64 (x + y)
    sub64 := fun x y => rnd64 (x - y)
    mul64 := fun x y => rnd64 (x * y)
    div64 := fun x y => rnd64 (x / y)
    to32 := rnd32
    roundf := roundAway
    toInt := trunc
    logf := logOfTable logTab
    expf := fun x => x }

end Rtosc.Auto.IEEE
