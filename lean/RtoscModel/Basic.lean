/-
  Common definitions for all models: bytes, hex codec for the line protocol,
  C strings as NUL-terminated prefixes of byte lists.
  No Mathlib import: this file is linked into the `driver` executable.
-/
namespace Rtosc

abbrev Bytes := List UInt8

def hexDigit (n : Nat) : Char :=
  if n < 10 then Char.ofNat (48 + n) else Char.ofNat (87 + n)

def hexByte (b : UInt8) : String :=
  String.ofList [hexDigit (b.toNat / 16), hexDigit (b.toNat % 16)]

/-- bytes → lower-case hex; the empty list is written `-` so that every protocol
    field is a non-empty token. -/
def toHex (bs : Bytes) : String :=
  if bs.isEmpty then "-" else String.join (bs.map hexByte)

def hexVal (c : Char) : Option Nat :=
  if '0' ≤ c ∧ c ≤ '9' then some (c.toNat - 48)
  else if 'a' ≤ c ∧ c ≤ 'f' then some (c.toNat - 87)
  else if 'A' ≤ c ∧ c ≤ 'F' then some (c.toNat - 55)
  else none

def ofHexChars : List Char → Option Bytes
  | [] => some []
  | [_] => none
  | a :: b :: r => do
      let x ← hexVal a
      let y ← hexVal b
      let t ← ofHexChars r
      pure (UInt8.ofNat (x * 16 + y) :: t)

def ofHex (s : String) : Option Bytes :=
  if s = "-" then some [] else ofHexChars s.toList

/-- The C string starting at the head of `bs`: bytes up to (excluding) the first NUL.
    `none` when no NUL is found (the real code would read past the buffer). -/
def cstr : Bytes → Option Bytes
  | [] => none
  | b :: r => if b = 0 then some [] else (cstr r).map (b :: ·)

/-- Suffix of `bs` that starts *at* the first NUL (`none`: ran off the end). -/
def toNul : Bytes → Option Bytes
  | [] => none
  | b :: r => if b = 0 then some (b :: r) else toNul r

def words (line : String) : List String :=
  (line.trimAscii.toString.splitOn " ").filter (· ≠ "")

end Rtosc
