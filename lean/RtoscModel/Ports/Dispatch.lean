/-
  C04 — `Ports::dispatch` (src/cpp/ports.cpp) and the recursion contract of
  include/rtosc/port-sugar.h (`SNIP`, `rRecurCb`).

  `dispatch mk P msg d base` is `P.dispatch(msg, d, base)`.
    * `mk` is the table-construction function (`refreshMagic` for the table with the given
      names): `Hash.matcherOf Hash.realSearch` for the real code; the theorems quantify
      over it.
    * `msg` is the message buffer from the pointer handed in to the end of the allocation
      (as in the C05 model: reading past it is `none`).
    * the result is the log of the callbacks that were invoked — in order, each with what
      it was handed — and the final `RtData`; `none` = some read left a buffer.
  The three lookup strategies are separate functions: `scanNoLoc` (no location buffer:
  `for(const Port &port: ports) if(rtosc_match(...))`), `scanLoc` (location buffer, no
  hash: the `for(unsigned i=0; i<elms; ++i)` loop) and `hashedAt` (location buffer,
  hashed: the code behind `hard_match`, acting on `ports[port_num]`).

  The model mirrors the code with the repairs C04-01..05 applied; C04-05: the default
  handler of a table is called by all three strategies when no port matched (it was only
  called by the hashed one).
  No Mathlib import: linked into drv_dispatch.
-/
import RtoscModel.Ports.Hash
import RtoscModel.Match.Path
namespace Rtosc.Ports
open Rtosc Rtosc.Ports.Hash

/-- `SNIP`: `while(*msg && *msg!='/') ++msg; msg = *msg ? msg+1 : msg;` -/
def snip : Bytes → Option Bytes
  | [] => none
  | c :: r => if c = 0 then some (c :: r) else if c = 47 then some r else snip r

/-- a write of the C string `s` (and its terminator) into `loc` from its start -/
def RtData.setLoc (d : RtData) (s : Bytes) : RtData :=
  { d with loc := some s, locHigh := max d.locHigh (s.length + 1) }

/-- the C string in `d.loc` (`dispatch` only calls this when `d.loc` is not NULL) -/
def RtData.locStr (d : RtData) : Bytes := d.loc.getD []

/-- zeroing everything from `old_end` on: `while(*tmp) *tmp++=0;` / `old_end[0] = '\0';` -/
def RtData.cutLoc (d : RtData) (oldEnd : Nat) : RtData :=
  { d with loc := some (d.locStr.take oldEnd) }

/-- the log entry of a callback of the port `p` that is handed `m` and `d` -/
def callOf (p : List Nat) (leaf : Bool) (m : Bytes) (d : RtData) : Call :=
  { who := .port p, isLeaf := leaf, m := m, loc := d.loc, obj := d.obj, dport := d.port }

def dfltCallOf (t : List Nat) (m : Bytes) (d : RtData) : Call :=
  { who := .dflt t, isLeaf := true, m := m, loc := d.loc, obj := d.obj, dport := d.port }

abbrev Out := Option (List Call × RtData)
abbrev ScanOut := Option (List Call × RtData × Bool)

def prepend (c : Call) : ScanOut → ScanOut
  | none => none
  | some (l, d, b) => some (c :: l, d, b)

/-- what follows a callback that called `child.dispatch(...)`: `cont` is the rest of the
    caller's work on the `RtData` the callee left behind -/
def andThen (r : Out) (cont : RtData → ScanOut) : ScanOut :=
  match r with
  | none => none
  | some (l, d) =>
    match cont d with
    | none => none
    | some (l', d', b) => some (l ++ l', d', b)

/-! ### without location buffer -/

/-- after the `for` loop of the simple case (C04-05):
    `if(!matched && default_handler) default_handler(m,d), d.obj = obj;` -/
def finishNoLoc (dflt : Bool) (tpath : List Nat) (obj : List Nat) (m : Bytes) : ScanOut → Out
  | none => none
  | some (l, d, matched) =>
    if !matched && dflt then some (l ++ [dfltCallOf tpath m d], { d with obj := obj })
    else some (l, d)

/-- the `for(const Port &port: ports)` loop of the simple case, from port `i` on;
    `tpath` is the path of the table, `obj` the `d.obj` saved on entry, the `Bool` is
    `matched`.  A `node` callback is
    `data.obj = <child object>; SNIP; <child>.dispatch(msg, data);` — inlined, because
    without location buffer the child again takes the simple case. -/
def scanNoLoc : Table → List Nat → Nat → List Nat → Bytes → RtData → Bool → ScanOut
  | .nil, _, _, _, _, d, mt => some ([], d, mt)
  | .leaf name rest, tpath, i, obj, m, d, mt =>
    match Match.full (name ++ [0]) m with
    | none => none
    | some (false, _) => scanNoLoc rest tpath (i + 1) obj m d mt
    | some (true, _) =>
      let d1 := { d with port := some (tpath ++ [i]) }
      prepend (callOf (tpath ++ [i]) true m d1)
        (scanNoLoc rest tpath (i + 1) obj m { d1 with obj := obj } true)
  | .node name child cdflt rest, tpath, i, obj, m, d, mt =>
    match Match.full (name ++ [0]) m with
    | none => none
    | some (false, _) => scanNoLoc rest tpath (i + 1) obj m d mt
    | some (true, _) =>
      let d1 := { d with port := some (tpath ++ [i]) }
      match snip m with
      | none => none
      | some m' =>
        let cobj := tpath ++ [i]
        prepend (callOf (tpath ++ [i]) false m d1)
          (andThen
            (finishNoLoc cdflt (tpath ++ [i]) cobj m'
              (scanNoLoc child (tpath ++ [i]) 0 cobj m' { d1 with obj := cobj } false))
            (fun d2 => scanNoLoc rest tpath (i + 1) obj m { d2 with obj := obj } true))

/-! ### with location buffer -/

/-- `while(*msg && msg != m_end) *pos++ = *msg++;` — the bytes of `m` in front of
    `m_end` (a suffix of `m`), at most up to the terminator -/
def copyTo (m mEnd : Bytes) : Bytes := (m.take (m.length - mEnd.length)).takeWhile (· != 0)

/-- `while(*msg && *msg != '/') *pos++ = *msg++;` -/
def copyComp (m : Bytes) : Bytes := m.takeWhile (fun c => c != 0 && c != 47)

/-- after the `for` loop of the linear search (C04-05):
    `if(!matched && default_handler) { d.nmatches++; default_handler(m,d), d.obj = obj; }` -/
def finishLoc (dflt : Bool) (tpath : List Nat) (obj : List Nat) (m : Bytes) : ScanOut → Out
  | none => none
  | some (l, d, matched) =>
    if !matched && dflt then
      let d1 := { d with nmatches := d.nmatches + 1 }
      some (l ++ [dfltCallOf tpath m d1], { d1 with obj := obj })
    else some (l, d)

/-- the hashed branch when no port is selected: hash outside `remap`, or `hard_match`
    failed -/
def missLoc (dflt : Bool) (tpath : List Nat) (obj : List Nat) (m : Bytes) (d : RtData) : Out :=
  if dflt then
    let d1 := { d with nmatches := d.nmatches + 1 }
    some ([dfltCallOf tpath m d1], { d1 with obj := obj })
  else some ([], d)

/-- `Ports::dispatch(m, d, false)` for a table with a location buffer (`d.loc`, `d.loc_size`
    both non-zero), given its names, and the two loops as functions of `old_end` and `d`:
    `lin oldEnd d` = the linear loop, `hsh oldEnd k key en d` = the code behind a
    successful `hard_match` for `ports[k]` (`key = fixed[k]`, `en = enump[k]`). -/
def enterLoc (mk : List Bytes → Option Matcher) (names : List Bytes) (dflt : Bool)
    (tpath : List Nat) (m : Bytes) (d : RtData)
    (lin : Nat → RtData → ScanOut)
    (hsh : Nat → Nat → Bytes → Bool → RtData → Out) : Out :=
  let obj := d.obj
  -- if(d.loc[0] == 0) { memset(d.loc, 0, d.loc_size); d.loc[0] = '/'; }
  let d0 := if d.locStr.isEmpty then { d with loc := some [47], locHigh := max d.locHigh d.locSize } else d
  let oldEnd := d0.locStr.length
  match mk names with
  | none => none
  | some pm =>
    if pm.pos.isEmpty then finishLoc dflt tpath obj m (lin oldEnd d0)
    else
      match lookup pm m with
      | none => none
      | some .outside => missLoc dflt tpath obj m d0
      | some (.slot _ false) => missLoc dflt tpath obj m d0
      | some (.slot k true) =>
        match pm.fixed[k]?, pm.enump[k]? with
        | some key, some en => hsh oldEnd k key en d0
        | _, _ => none

mutual
/-- the loop `for(unsigned i=0; i<elms; ++i)` of the branch without hash, from port `i` on -/
def scanLoc (mk : List Bytes → Option Matcher) :
    Table → List Nat → Nat → List Nat → Nat → Bytes → RtData → Bool → ScanOut
  | .nil, _, _, _, _, _, d, mt => some ([], d, mt)
  | .leaf name rest, tpath, i, obj, oldEnd, m, d, mt =>
    match Match.full (name ++ [0]) m with
    | none => none
    | some (false, _) => scanLoc mk rest tpath (i + 1) obj oldEnd m d mt
    | some (true, none) => none                  -- rtosc_match always writes *path_end when it returns true
    | some (true, some mEnd) =>
      let d1 := { d with nmatches := d.nmatches + 1 }
      -- append the path
      let d2 := if hasChar 35 name then d1.setLoc (d1.locStr.take oldEnd ++ copyTo m mEnd)
                else d1.setLoc (d1.locStr ++ upToColon name)
      let d3 := { d2 with port := some (tpath ++ [i]) }
      prepend (callOf (tpath ++ [i]) true m d3)
        (scanLoc mk rest tpath (i + 1) obj oldEnd m (RtData.cutLoc { d3 with obj := obj } oldEnd) true)
  | .node name child cdflt rest, tpath, i, obj, oldEnd, m, d, mt =>
    match Match.full (name ++ [0]) m with
    | none => none
    | some (false, _) => scanLoc mk rest tpath (i + 1) obj oldEnd m d mt
    | some (true, none) => none
    | some (true, some mEnd) =>
      let d2 := if hasChar 35 name then d.setLoc (d.locStr.take oldEnd ++ copyTo m mEnd)
                else d.setLoc (d.locStr ++ upToColon name)
      let d3 := { d2 with port := some (tpath ++ [i]) }
      match snip m with
      | none => none
      | some m' =>
        let cobj := tpath ++ [i]
        prepend (callOf (tpath ++ [i]) false m d3)
          (andThen
            (enterLoc mk child.names cdflt (tpath ++ [i]) m' { d3 with obj := cobj }
              (fun oe dd => scanLoc mk child (tpath ++ [i]) 0 cobj oe m' dd false)
              (fun oe k key en dd => hashedAt mk child (tpath ++ [i]) 0 k cobj oe key en m' dd))
            (fun d4 => scanLoc mk rest tpath (i + 1) obj oldEnd m (RtData.cutLoc { d4 with obj := obj } oldEnd) true))

/-- the code behind a successful `hard_match(port_num, m)`, acting on `ports[k]`
    (found by walking to index `k`; `none`: `k` is no index of the vector) -/
def hashedAt (mk : List Bytes → Option Matcher) :
    Table → List Nat → Nat → Nat → List Nat → Nat → Bytes → Bool → Bytes → RtData → Out
  | .nil, _, _, _, _, _, _, _, _, _ => none
  | .leaf name rest, tpath, i, k, obj, oldEnd, key, en, m, d =>
    if i = k then
      let d1 := { d with nmatches := d.nmatches + 1 }
      let d2 := if en then
                  d1.setLoc (d1.locStr.take oldEnd ++ copyComp m ++ (if hasChar 47 name then [47] else []))
                else d1.setLoc (d1.locStr.take oldEnd ++ key)
      let d3 := { d2 with port := some (tpath ++ [i]) }
      some ([callOf (tpath ++ [i]) true m d3], RtData.cutLoc { d3 with obj := obj } oldEnd)
    else hashedAt mk rest tpath (i + 1) k obj oldEnd key en m d
  | .node name child cdflt rest, tpath, i, k, obj, oldEnd, key, en, m, d =>
    if i = k then
      let d2 := if en then
                  d.setLoc (d.locStr.take oldEnd ++ copyComp m ++ (if hasChar 47 name then [47] else []))
                else d.setLoc (d.locStr.take oldEnd ++ key)
      let d3 := { d2 with port := some (tpath ++ [i]) }
      match snip m with
      | none => none
      | some m' =>
        let cobj := tpath ++ [i]
        match enterLoc mk child.names cdflt (tpath ++ [i]) m' { d3 with obj := cobj }
            (fun oe dd => scanLoc mk child (tpath ++ [i]) 0 cobj oe m' dd false)
            (fun oe k' key' en' dd => hashedAt mk child (tpath ++ [i]) 0 k' cobj oe key' en' m' dd) with
        | none => none
        | some (l, d4) => some (callOf (tpath ++ [i]) false m d3 :: l, RtData.cutLoc { d4 with obj := obj } oldEnd)
    else hashedAt mk rest tpath (i + 1) k obj oldEnd key en m d
end

/-- `P.dispatch(msg, d, base)` -/
def dispatch (mk : List Bytes → Option Matcher) (P : Ports) (msg : Bytes) (d : RtData) (base : Bool) : Out :=
  let obj := d.obj
  -- if(base_dispatch) { d.nmatches = 0; d.message = m; if(m && *m == '/') m++; if(d.loc) d.loc[0] = 0; }
  let start : Option (Bytes × RtData) :=
    if base then
      match msg with
      | [] => none
      | c :: r =>
        let m := if c = 47 then r else c :: r
        let d1 := { d with nmatches := 0 }
        some (m, match d1.loc with
                 | none => d1
                 | some _ => { d1 with loc := some [], locHigh := max d1.locHigh 1 })
    else some (msg, d)
  match start with
  | none => none
  | some (m, d) =>
    if d.loc.isNone || d.locSize == 0 then
      finishNoLoc P.dflt [] obj m (scanNoLoc P.tab [] 0 obj m d false)
    else
      enterLoc mk P.tab.names P.dflt [] m d
        (fun oe dd => scanLoc mk P.tab [] 0 obj oe m dd false)
        (fun oe k key en dd => hashedAt mk P.tab [] 0 k obj oe key en m dd)

/-- the real code: tables as `refreshMagic` builds them -/
def dispatchReal (P : Ports) (msg : Bytes) (d : RtData) (base : Bool) : Out :=
  dispatch (matcherOf realSearch) P msg d base

end Rtosc.Ports
