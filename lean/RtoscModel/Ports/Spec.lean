/-
  C04 — the specification: which callbacks belong to a message, stated level by level
  with the C05 specification of one name (`PathSpec`, Match/Spec.lean) and without any
  reference to how `Ports::dispatch` looks ports up.

  A port tree with *structured* names (`Pat`: literal text, `#N`, optional trailing '/',
  optional `:types`) is a `PTable`; `PTable.render` is the table the code sees.

  `Answers t i tpath addr tags w` — callback `w` belongs to the message (addr, tags) in
  table `t` (whose first port has index `i`, and whose path is `tpath`):
    * the callback of a port whose name admits the message at this level, and, if the
      port has a sub-table, whatever belongs to the message in the sub-table at the next
      level (the address behind its first component);
    * the default handler of a reached sub-table in which no port admits the message.
-/
import RtoscModel.Match.Spec
import RtoscModel.Ports.Tree
namespace Rtosc.Ports
open Rtosc Rtosc.Match

inductive PTable where
  | nil
  | leaf (p : Pat) (rest : PTable)
  | node (p : Pat) (child : PTable) (cdflt : Bool) (rest : PTable)
deriving Repr, DecidableEq, Inhabited

structure PPorts where
  tab : PTable
  dflt : Bool
deriving Repr, DecidableEq, Inhabited

def PTable.render : PTable → Table
  | .nil => .nil
  | .leaf p r => .leaf p.render r.render
  | .node p c d r => .node p.render c.render d r.render

def PPorts.render (P : PPorts) : Ports := { tab := P.tab.render, dflt := P.dflt }

/-- "its type tags are admitted by the port's argument specification" (C05,
    `types_exact`): no specification, or the type string is one of the alternatives, or
    it extends the last alternative (which is not empty) -/
def TypesAdmit (p : Pat) (tags : Bytes) : Prop :=
  ∀ ts, p.types = some ts → tags ∈ ts ∨ ∃ l, ts.getLast? = some l ∧ l ≠ [] ∧ l <+: tags

/-- one name admits a message at one level -/
def Admits (p : Pat) (addr tags : Bytes) : Prop := PathSpec p addr ∧ TypesAdmit p tags

/-- the next level of an address: what is left behind its first component -/
def levelTail (addr : Bytes) : Bytes := (addr.dropWhile (· != 47)).drop 1

/-- some port of the table admits the message -/
def PTable.anyAdmits : PTable → Bytes → Bytes → Prop
  | .nil, _, _ => False
  | .leaf p r, a, t => Admits p a t ∨ r.anyAdmits a t
  | .node p _ _ r, a, t => Admits p a t ∨ r.anyAdmits a t

def Answers : PTable → Nat → List Nat → Bytes → Bytes → Who → Prop
  | .nil, _, _, _, _, _ => False
  | .leaf p r, i, tp, a, t, w =>
    (Admits p a t ∧ w = .port (tp ++ [i])) ∨ Answers r (i + 1) tp a t w
  | .node p c cd r, i, tp, a, t, w =>
    (Admits p a t ∧
      (w = .port (tp ++ [i]) ∨ Answers c 0 (tp ++ [i]) (levelTail a) t w ∨
       (cd = true ∧ ¬ c.anyAdmits (levelTail a) t ∧ w = .dflt (tp ++ [i]))))
    ∨ Answers r (i + 1) tp a t w

/-- the callbacks that belong to a message dispatched at the root -/
def AnswersRoot (P : PPorts) (addr tags : Bytes) (w : Who) : Prop :=
  Answers P.tab 0 [] addr tags w ∨ (P.dflt = true ∧ ¬ P.tab.anyAdmits addr tags ∧ w = .dflt [])

/-! ### the trees the property quantifies over (decidable) -/

def Seg.isAlts : Seg → Bool
  | .alts _ => true
  | _ => false

def Seg.noSlash : Seg → Bool
  | .lit s => !s.contains 47
  | _ => true

/-- a port name "using literal text and `#N` enumerations": a non-empty C05 pattern of the
    documented form without `{}` groups (any byte C05's `litChar` allows, also >= 127) -/
def nameWf (p : Pat) : Bool :=
  p.wf0 && !p.segs.isEmpty && p.segs.all (fun s => !Seg.isAlts s)

/-- the name of a port with a sub-table: one component and a trailing '/'
    (`SNIP` cuts exactly one component) -/
def nodeNameWf (p : Pat) : Bool := nameWf p && p.sub && p.segs.all Seg.noSlash

def PTable.wf : PTable → Bool
  | .nil => true
  | .leaf p r => nameWf p && r.wf
  | .node p c _ r => nodeNameWf p && c.wf && r.wf

def PTable.WF (t : PTable) : Prop := t.wf = true
instance (t : PTable) : Decidable t.WF := by unfold PTable.WF; infer_instance

end Rtosc.Ports
