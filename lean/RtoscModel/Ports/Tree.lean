/-
  C04 — port tables (include/rtosc/ports.h: `struct Port`, `struct Ports`).

  A `Ports` object is a `std::vector<Port>` plus an optional `default_handler`.  A `Port`
  is a name (pattern, C string), a pointer to a sub-table (`Port::ports`, may be NULL) and
  a callback.  Two kinds of callbacks are modelled:
    * a port without sub-table (`leaf`) has a plain callback that only records what it
      was handed;
    * a port with a sub-table (`node`) has the recursion callback of port-sugar.h
      (`rRecurCb`: `data.obj = <child object>; SNIP; <child table>.dispatch(msg, data)`).
  The table is a plain inductive type (ports in table order) so that every function over
  it is structurally recursive: `rest` is the remainder of the vector, `child` the
  sub-table, `cdflt` says whether the sub-table has a default handler.

  Identity of a port (what `RtData::port` points to, what a callback log names): the list
  of table indices leading to it from the root table (`[2,0]` = port 0 of the sub-table of
  port 2).  Identity of the runtime object (`RtData::obj`): the path of the *table* it
  belongs to — the recursion callback of the port with path `p` hands down object `p`.
  No Mathlib import: linked into drv_dispatch.
-/
import RtoscModel.Basic
namespace Rtosc.Ports
open Rtosc

inductive Table where
  | nil
  | leaf (name : Bytes) (rest : Table)
  | node (name : Bytes) (child : Table) (cdflt : Bool) (rest : Table)
deriving Repr, DecidableEq, Inhabited

/-- a `Ports` object: the vector of ports and whether `default_handler` is set -/
structure Ports where
  tab : Table
  dflt : Bool
deriving Repr, DecidableEq, Inhabited

/-- `ports[i].name` for all i, in table order -/
def Table.names : Table → List Bytes
  | .nil => []
  | .leaf n r => n :: r.names
  | .node n _ _ r => n :: r.names

/-- `ports.size()` -/
def Table.length : Table → Nat
  | .nil => 0
  | .leaf _ r => r.length + 1
  | .node _ _ _ r => r.length + 1

/-- number of ports in the whole tree -/
def Table.total : Table → Nat
  | .nil => 0
  | .leaf _ r => r.total + 1
  | .node _ c _ r => c.total + r.total + 1

/-- nesting depth (a table without sub-tables has depth 1) -/
def Table.depth : Table → Nat
  | .nil => 1
  | .leaf _ r => r.depth
  | .node _ c _ r => max (c.depth + 1) r.depth

/-- `strchr(s, c) != NULL` for a C string given by its content -/
def hasChar (c : UInt8) (s : Bytes) : Bool := s.contains c

/-- the part of a name in front of the first ':' — what `scat` copies
    (`while(*src && *src!=':') *dest++ = *src++;`) -/
def upToColon (s : Bytes) : Bytes := s.takeWhile (· != 58)

/-- one entry of the callback log: what a callback was handed -/
inductive Who where
  | port (path : List Nat)        -- the callback of the port with this path
  | dflt (table : List Nat)       -- the default handler of the table with this path
deriving Repr, DecidableEq

structure Call where
  who : Who
  /-- a port without sub-table, or a default handler (what `RtData::matches` counts) -/
  isLeaf : Bool
  /-- the `msg` argument: suffix of the message buffer -/
  m : Bytes
  /-- `d.loc` as a C string (`none`: NULL) -/
  loc : Option Bytes
  /-- `d.obj` -/
  obj : List Nat
  /-- `d.port` -/
  dport : Option (List Nat)
deriving Repr, DecidableEq

/-- the fields of `RtData` that `Ports::dispatch` reads or writes -/
structure RtData where
  /-- `loc` as a C string; `none` = NULL.  Bytes behind the terminator are not modelled:
      every write of `dispatch` into `loc` ends with a terminator. -/
  loc : Option Bytes
  locSize : Nat
  /-- ghost: highest index written into `loc`, plus one.  `locHigh ≤ locSize` means that
      no write left the buffer (`dispatch` itself never compares with `loc_size`). -/
  locHigh : Nat
  obj : List Nat
  nmatches : Nat
  port : Option (List Nat)
deriving Repr, DecidableEq

end Rtosc.Ports
