/-
  C04 — the recursion callbacks of include/rtosc/port-sugar.h for enumerated sub-trees:
  `rRecursCb` / `rRecurspCb` (`rBOILS_BEGIN … data.obj = &obj->name[idx]; SNIP;
  <child>::ports.dispatch(msg, data);`).

  `Ports/Dispatch.lean` models the hand-down of the object by the path of the port
  (`rRecurCb`: one object per sub-tree port).  A port `name#N/` stands for N objects; which
  of them the callback hands down is computed from the message by `rBOILS_BEGIN`
  (`recursIdx`).  `objIdx` walks a root-to-table path and collects the element index each
  enumerated port on it selects — what the leaf callbacks of the harness' sugar tree
  (`R` lines of engine `dispatch`) print next to the path.
  No Mathlib import: linked into drv_dispatch.
-/
import RtoscModel.Ports.Dispatch
namespace Rtosc.Ports.Sugar
open Rtosc Rtosc.Ports Rtosc.Match

/-- `while(*pp && *pp != '#' && *pp == *mm) ++pp, ++mm;` — `name` is the port's name
    without its terminator; result: did `pp` stop at a '#', and `mm`.
    `none`: the message buffer ended. -/
def boilsScan : Bytes → Bytes → Option (Bool × Bytes)
  | [], mm => some (false, mm)
  | p :: ps, mm =>
    if p = 35 then some (true, mm)
    else match mm with
      | [] => none
      | c :: ms => if p = c then boilsScan ps ms else some (false, c :: ms)

/-- `for(mm = msg; *mm && !isdigit(*mm); ++mm);` -/
def firstDigit : Bytes → Option Bytes
  | [] => none
  | c :: r => if c = 0 || isDigit c then some (c :: r) else firstDigit r

/-- `atoi(mm)` for `mm` at a digit or at the terminator: the value of the run of digits
    (no sign or white space can stand there; values stay below the port's N < 2^31
    whenever `rtosc_match` accepted the message).  `none`: the buffer ended. -/
def atoiRun : Bytes → Nat → Option Nat
  | [], _ => none
  | c :: r, acc => if isDigit c then atoiRun r (acc * 10 + (c.toNat - 48)) else some acc

/-- `rBOILS_BEGIN`: the index behind the place where the port's name has its '#'; for a
    name without '#' (or a message that leaves the name before it) the first digit of the
    message -/
def recursIdx (name msg : Bytes) : Option Nat :=
  match boilsScan name msg with
  | none => none
  | some (true, mm) => atoiRun mm 0
  | some (false, _) =>
    match firstDigit msg with
    | none => none
    | some mm => atoiRun mm 0

/-- `ports[i]` -/
def entryAt : Table → Nat → Option (Bytes × Option Table)
  | .nil, _ => none
  | .leaf n _, 0 => some (n, none)
  | .node n c _ _, 0 => some (n, some c)
  | .leaf _ r, i + 1 => entryAt r i
  | .node _ _ _ r, i + 1 => entryAt r i

/-- for the table reached from `T` by the path `p` (port indices) while `m` is dispatched:
    per port of the path, its index and — for a port `name#N/` — the element `rRecursCb` /
    `rRecurspCb` select (`&obj->name[idx]`); `none`: no such path / the buffer ended -/
def objIdx (T : Table) (m : Bytes) : List Nat → Option (List (Nat × Option Nat))
  | [] => some []
  | i :: rest =>
    match entryAt T i with
    | some (name, some child) =>
      let idx : Option (Option Nat) :=
        if hasChar 35 name then (recursIdx name m).map some else some none
      match idx, snip m with
      | some ix, some m' => (objIdx child m' rest).map ((i, ix) :: ·)
      | _, _ => none
    | _ => none

end Rtosc.Ports.Sugar
