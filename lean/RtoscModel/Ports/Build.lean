/-
  C04 — the two table constructors of src/cpp/ports.cpp that copy ports of existing tables
  and rebuild the lookup tables (`refreshMagic`): `ClonePorts` and `MergePorts`.

  A table is handled as the list of its ports (`Entry`, in vector order); `Table.entries` /
  `Table.ofEntries` convert.  Which *callback* a port of the new table carries is part of
  the result: `ClonePorts` gives every copied port the callback of the clone list (never
  the one of the source table), `MergePorts` copies the ports wholesale.  In the model the
  identity of a callback is the position of its port in the table that is dispatched, so
  the result is just the new list of entries; the harness gives every port of a *source*
  table that must not survive a callback of its own kind (`X…`), which no model output
  ever contains.
  No Mathlib import: linked into drv_dispatch.
-/
import RtoscModel.Ports.Tree
namespace Rtosc.Ports

/-- one `Port`: name, and for a port with a sub-table the sub-table and whether that has a
    default handler -/
inductive Entry where
  | leaf (name : Bytes)
  | node (name : Bytes) (child : Table) (cdflt : Bool)
deriving Repr, DecidableEq, Inhabited

def Entry.name : Entry → Bytes
  | .leaf n => n
  | .node n _ _ => n

def Table.entries : Table → List Entry
  | .nil => []
  | .leaf n r => .leaf n :: r.entries
  | .node n c d r => .node n c d :: r.entries

def Table.ofEntries : List Entry → Table
  | [] => .nil
  | .leaf n :: r => .leaf n (Table.ofEntries r)
  | .node n c d :: r => .node n c d (Table.ofEntries r)

/-- `for(auto &p:ports_.ports) if(!strcmp(p.name, to_clone.name)) clone_port = &p;` — there
    is no `break`: the *last* port of the source with that name -/
def findClone (src : List Entry) (name : Bytes) : Option Entry :=
  src.foldl (fun acc p => if p.name = name then some p else acc) none

/-- `ClonePorts(src, {{name, cb}, …})` for the names of the clone list in list order (the
    entry `"*"`, which sets the default handler, is not part of `list`): every name becomes
    `{clone_port->name, clone_port->metadata, clone_port->ports, to_clone.cb}`.
    `none`: a name that the source does not have (`assert(false)`). -/
def clonePorts (src : List Entry) : List Bytes → Option (List Entry)
  | [] => some []
  | n :: ns =>
    match findClone src n, clonePorts src ns with
    | some p, some r => some (p :: r)
    | _, _ => none

/-- inner loops of `MergePorts`: `for(auto &p:to_clone->ports) { already_there = ∃ pp ∈ ports,
    !strcmp(pp.name, p.name); if(!already_there) ports.push_back(p); }` -/
def mergeOne (acc : List Entry) : List Entry → List Entry
  | [] => acc
  | p :: ps => mergeOne (if acc.any (fun pp => pp.name = p.name) then acc else acc ++ [p]) ps

/-- `MergePorts({&t1, &t2, …})` -/
def mergePorts (parts : List (List Entry)) : List Entry :=
  parts.foldl mergeOne []

end Rtosc.Ports
