/-
  C04 — the perfect-hash lookup of src/cpp/ports.cpp:
  `do_hash` (both overloads), `count_dups`, `find_pos`, `find_assoc`, `find_remap`,
  the two `generate_minimal_hash`, `Ports::refreshMagic`, and `Port_Matcher`
  (`fixed`, `arg_spec`, `pos`, `assoc`, `remap`, `enump`, `hard_match`), plus the part of
  `Ports::dispatch` that computes the hash of a message and picks the candidate port.

  The model mirrors the code with these repairs applied (see fixes/):
    C04-01  `hard_match` requires the address to end where the name ends unless the name
            ends in '/' (it was a prefix test)
    C04-02  `generate_minimal_hash` falls back to the linear search when `find_assoc`
            leaves two names with the same hash value (there was no check)
    C04-03  tables with a name that has further path components behind a '/' are not
            hashed (the hash of a message is taken over its first component only)
    C04-04  `dispatch` indexes `assoc` only with characters below `assoc.size()`
            (a byte >= 0x80 in an address read in front of the vector)
    C04-06  tables with a name that has a byte >= 127 are not hashed (`find_assoc` /
            `do_hash` index the 127-entry `assoc` with the `char`: a write in front of
            / behind the vector)

  The heuristic searches `find_pos` / `find_assoc` are modelled executably (`findPos`,
  `findAssoc`), but everything that is proved about dispatching is proved for an
  *arbitrary* search (`Search`): the guards of `generate_minimal_hash` and `hard_match`
  carry the correctness, not the heuristic.
  No Mathlib import: linked into drv_dispatch.
-/
import RtoscModel.Ports.Tree
import RtoscModel.Match.Copies
namespace Rtosc.Ports.Hash
open Rtosc Rtosc.Ports

/-- `std::numeric_limits<int>::max()` -/
def intMax : Nat := 2147483647

/-! ### `do_hash`, `count_dups` -/

/-- `do_hash(strs, pos)` for one string: the tuple (length, s[p] for every p in `pos`
    with p < length) -/
def tupleOf (pos : List Nat) (s : Bytes) : List Nat :=
  s.length :: pos.filterMap (fun p => (s[p]?).map (·.toNat))

/-- `do_hash(strs, pos, assoc)` for one string: `length + Σ assoc[s[p]]` over the p in
    `pos` with p < length.  A character that is no index of `assoc` contributes nothing:
    in `Ports::dispatch` that is the repaired code (C04-04); in `find_assoc`/`find_remap`
    the code indexes unguardedly, but since C04-06 only tables whose names have no byte
    >= 127 get that far (`highByte`; the unrepaired code: `matcherOfUnfixed`, `keysInRange`). -/
def hashStr (pos assoc : List Nat) (s : Bytes) : Nat :=
  s.length + (pos.filterMap (fun p => (s[p]?).bind (fun c => assoc[c.toNat]?))).sum

/-- inner loop of `count_dups`: `x = t[i]`, the lists are `t[i+1..]` and `mark[i+1..]`;
    returns the number of increments of `dups` and the updated marks -/
def dupInner {α : Type} [DecidableEq α] (x : α) : List α → List Bool → Nat × List Bool
  | y :: r, k :: mr =>
    let res := dupInner x r mr
    if x = y then (res.1 + 1, true :: res.2) else (res.1, k :: res.2)
  | _, mr => (0, mr)

/-- outer loop of `count_dups` over `t[i..]` with `mark[i..]` -/
def dupOuter {α : Type} [DecidableEq α] : List α → List Bool → Nat
  | x :: r, k :: mr =>
    if k then dupOuter r mr
    else
      let res := dupInner x r mr
      res.1 + dupOuter r res.2
  | _, _ => 0

/-- `count_dups(t)` -/
def countDups {α : Type} [DecidableEq α] (t : List α) : Nat :=
  dupOuter t (List.replicate t.length false)

/-! ### `find_pos` -/

/-- one pass `for(int i=0; i<N; ++i)` of `find_pos`; the pair is (pos_best, pos_best_val) -/
def posRound (strs : List Bytes) (pos : List Nat) : List Nat → Nat × Nat → Nat × Nat
  | [], b => b
  | i :: is, b =>
    if pos.contains i then posRound strs pos is b
    else
      let d := countDups (strs.map (tupleOf (pos ++ [i])))
      if d < b.2 then posRound strs pos is (i, d) else posRound strs pos is b

/-- the `while(true)` loop of `find_pos`.  Every iteration that does not `break` lowers
    `current_dups`, so `current_dups + 1` iterations suffice (`posLoop_fuel`).
    `pos_best` starts as -1 in the code; it is only read after it was assigned. -/
def posLoop (strs : List Bytes) (N : Nat) : Nat → List Nat → Nat → Nat × Nat → List Nat
  | 0, pos, _, _ => pos
  | f + 1, pos, cur, b =>
    let b' := posRound strs pos (List.range N) b
    if b'.2 ≥ cur then pos else posLoop strs N f (pos ++ [b'.1]) b'.2 b'

def maxLen (strs : List Bytes) : Nat := strs.foldl (fun n w => max n w.length) 0

/-- `find_pos(strs)` -/
def findPos (strs : List Bytes) : List Nat :=
  let pos := posLoop strs (maxLen strs) (strs.length + 1) [] strs.length (0, intMax)
  if countDups (strs.map (tupleOf pos)) ≠ 0 then [] else pos

/-! ### `find_assoc` -/

/-- `useful_chars`: the characters of the names in order of first appearance -/
def usefulChars (strs : List Bytes) : List UInt8 :=
  (strs.flatten.foldl (fun acc c => if acc.contains c then acc else c :: acc) []).reverse

/-- `for(int j=0; j<100; ++j)`; the pair is (assoc_best, assoc_best_val) -/
def assocInner (strs : List Bytes) (pos assoc : List Nat) (i : Nat) : List Nat → Nat × Nat → Nat × Nat
  | [], b => b
  | j :: js, b =>
    let d := countDups (strs.map (hashStr pos (assoc.set i j)))
    if d < b.2 then assocInner strs pos assoc i js (j, d) else assocInner strs pos assoc i js b

/-- `for(int i:useful_chars)` -/
def assocChars (strs : List Bytes) (pos : List Nat) : List UInt8 → List Nat → Nat × Nat → List Nat × (Nat × Nat)
  | [], a, b => (a, b)
  | c :: cs, a, b =>
    let b' := assocInner strs pos a c.toNat (List.range 100) (b.1, intMax)
    assocChars strs pos cs (a.set c.toNat b'.1) b'

/-- `for(int k=0; k<4; ++k)` -/
def assocRounds (strs : List Bytes) (pos : List Nat) (useful : List UInt8) :
    Nat → List Nat → Nat → Nat × Nat → List Nat
  | 0, a, _, _ => a
  | k + 1, a, cur, b =>
    let r := assocChars strs pos useful a b
    if r.2.2 ≥ cur then r.1 else assocRounds strs pos useful k r.1 r.2.2 r.2

/-- `find_assoc(strs, pos)` -/
def findAssoc (strs : List Bytes) (pos : List Nat) : List Nat :=
  assocRounds strs pos (usefulChars strs) 4 (List.replicate 127 0) strs.length (0, intMax)

/-! ### `find_remap` -/

/-- `for(i…) remap[hashed[i]] = i;` from index `i` on -/
def remapFill : List Nat → Nat → List Nat → List Nat
  | [], _, r => r
  | h :: hs, i, r => remapFill hs (i + 1) (r.set h i)

/-- `find_remap(strs, pos, assoc)` -/
def findRemap (strs : List Bytes) (pos assoc : List Nat) : List Nat :=
  let hashed := strs.map (hashStr pos assoc)
  let n := hashed.foldl (fun n h => max n (h + 1)) 0
  remapFill hashed 0 (List.replicate n 0)

/-! ### `Port_Matcher`, `generate_minimal_hash`, `refreshMagic` -/

structure Matcher where
  fixed : List Bytes
  /-- `arg_spec[i]`: NULL, or the pointer to the ':' inside the name (the rest of the
      name's C string, terminator included) -/
  argSpec : List (Option Bytes)
  pos : List Nat
  assoc : List Nat
  remap : List Nat
  enump : List Bool
deriving Repr, DecidableEq

/-- the two heuristic searches -/
structure Search where
  findPos : List Bytes → List Nat
  findAssoc : List Bytes → List Nat → List Nat

def realSearch : Search := { findPos := findPos, findAssoc := findAssoc }

/-- `tmp = name; idx = tmp.find(':'); if(idx > 0) { arg = name+idx; tmp = tmp.substr(0,idx); }` -/
def splitName (name : Bytes) : Bytes × Option Bytes :=
  let k := name.takeWhile (· != 58)
  if k.length < name.length ∧ 0 < k.length then (k, some (name.drop k.length ++ [0])) else (name, none)

/-- C04-03: `slash = strchr(name,'/'); slash && slash[1] && slash[1] != ':'` -/
def innerSlash (name : Bytes) : Bool :=
  match name.dropWhile (· != 47) with
  | _ :: c :: _ => c != 58
  | _ => false

/-- C04-06: `for(const char *c = name; *c; ++c) if((unsigned char)*c >= 127)` — a byte that
    is no index of the 127-entry `assoc` -/
def highByte (name : Bytes) : Bool := name.any (· ≥ 127)

/-- all characters of the keys are indices of the 127-entry `assoc` (as `char`: 0..126) -/
def keysInRange (keys : List Bytes) : Bool := keys.all (·.all (· < 127))

/-- `refreshMagic()`: a fresh `Port_Matcher`, `generate_minimal_hash(*this, *impl)`, then
    `enump[i] = strchr(name_i,'#')`.  Total since C04-06: the construction indexes `assoc`
    only with characters of names that passed the `highByte` guard.  (The `Option` is kept
    for the table-construction functions the theorems quantify over.) -/
def matcherOf (S : Search) (names : List Bytes) : Option Matcher :=
  let base : Matcher := { fixed := [], argSpec := [], pos := [], assoc := [], remap := [],
                          enump := names.map (hasChar 35) }
  if names.any (fun n => hasChar 35 n || innerSlash n || highByte n) then some base   -- `if(enump) return;`
  else
    let ks := names.map splitName
    let keys := ks.map (·.1)
    let m1 : Matcher := { base with fixed := keys, argSpec := ks.map (·.2) }
    if keys.isEmpty then some m1                                           -- `if(str.empty()) return;`
    else
      let pos := S.findPos keys
      if pos.isEmpty then some m1                                          -- "Failed to generate minimal hash"
      else
        let assoc := S.findAssoc keys pos
        if countDups (keys.map (hashStr pos assoc)) ≠ 0 then
          some { m1 with assoc := assoc }                                  -- C04-02: `pm.pos.clear(); return;`
        else some { m1 with pos := pos, assoc := assoc, remap := findRemap keys pos assoc }

/-! ### the lookup in `Ports::dispatch` -/

/-- `while(*tmp && *tmp != '/') tmp++; if(*tmp == '/') tmp++; len = tmp-m;` -/
def firstLen : Bytes → Option Nat
  | [] => none
  | c :: r => if c = 0 then some 0 else if c = 47 then some 1 else (firstLen r).map (· + 1)

/-- `strncmp(msg, key, key.length()) == 0` -/
def strncmpEq : Bytes → Bytes → Option Bool
  | [], _ => some true
  | _ :: _, [] => none
  | c :: k, d :: m => if c = d then (if c = 0 then some true else strncmpEq k m) else some false

/-- `Port_Matcher::hard_match(i, msg)` (with C04-01) -/
def hardMatch (pm : Matcher) (i : Nat) (m : Bytes) : Option Bool :=
  match pm.fixed[i]? with
  | none => none
  | some key =>
    match strncmpEq key m with
    | none => none
    | some false => some false
    | some true =>
      match m[key.length]? with
      | none => none
      | some c =>
        if c ≠ 0 ∧ (key.isEmpty ∨ key.getLast? ≠ some 47) then some false
        else
          match pm.argSpec[i]? with
          | none => none
          | some none => some true
          | some (some spec) => Match.portMatcherArgs spec m

inductive Lookup where
  /-- `t >= remap.size()` -/
  | outside
  /-- `port_num = remap[t]` and the result of `hard_match(port_num, m)` -/
  | slot (k : Nat) (hit : Bool)
deriving Repr, DecidableEq

/-- the hash of the message's first component, the candidate port, `hard_match` -/
def lookup (pm : Matcher) (m : Bytes) : Option Lookup :=
  match firstLen m with
  | none => none
  | some len =>
    let t := hashStr pm.pos pm.assoc (m.take len)
    match pm.remap[t]? with
    | none => some .outside
    | some k => (hardMatch pm k m).map (Lookup.slot k)

/-! ### tables built once (the driver's use of `matcherOf`) -/

/-- `f` with its results for the listed tables precomputed: the same function
    (`cachedMk_eq`, Props/C04.lean) -/
def cachedMk (f : List Bytes → Option Matcher) (cache : List (List Bytes × Option Matcher))
    (names : List Bytes) : Option Matcher :=
  match cache.lookup names with
  | some r => r
  | none => f names

def buildCache (f : List Bytes → Option Matcher) (tables : List (List Bytes)) :
    List (List Bytes × Option Matcher) :=
  tables.map (fun n => (n, f n))

/-! ### the unrepaired code, for the record (`…_counterexample` in Props/C04.lean) -/

/-- `hard_match` before C04-01: `strncmp` only, a prefix test -/
def hardMatchUnfixed (pm : Matcher) (i : Nat) (m : Bytes) : Option Bool :=
  match pm.fixed[i]? with
  | none => none
  | some key =>
    match strncmpEq key m with
    | none => none
    | some false => some false
    | some true =>
      match pm.argSpec[i]? with
      | none => none
      | some none => some true
      | some (some spec) => Match.portMatcherArgs spec m

/-- the lookup with the unrepaired `hard_match` (characters below 127: the unguarded
    index of C04-04 makes no difference) -/
def lookupUnfixed (pm : Matcher) (m : Bytes) : Option Lookup :=
  match firstLen m with
  | none => none
  | some len =>
    let t := hashStr pm.pos pm.assoc (m.take len)
    match pm.remap[t]? with
    | none => some .outside
    | some k => (hardMatchUnfixed pm k m).map (Lookup.slot k)

/-- `refreshMagic` before C04-02 / C04-03 / C04-06: only '#' keeps a table from being hashed,
    what `find_assoc` returns is used unchecked, and `none` = `find_assoc` indexes `assoc`
    with a byte >= 127 of a name (a write outside the vector) -/
def matcherOfUnfixed (S : Search) (names : List Bytes) : Option Matcher :=
  let base : Matcher := { fixed := [], argSpec := [], pos := [], assoc := [], remap := [],
                          enump := names.map (hasChar 35) }
  if names.any (hasChar 35) then some base
  else
    let ks := names.map splitName
    let keys := ks.map (·.1)
    let m1 : Matcher := { base with fixed := keys, argSpec := ks.map (·.2) }
    if keys.isEmpty then some m1
    else
      let pos := S.findPos keys
      if pos.isEmpty then some m1
      else if !keysInRange keys then none
      else
        let assoc := S.findAssoc keys pos
        some { m1 with pos := pos, assoc := assoc, remap := findRemap keys pos assoc }

end Rtosc.Ports.Hash
