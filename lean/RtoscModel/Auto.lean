/-
  C19 — model of rtosc::AutomationMgr (src/cpp/automations.cpp, include/rtosc/automations.h)
  as repaired by fixes/C19-clearslot.patch, fixes/C19-nrpn-init.patch,
  fixes/C19-nrpn-partial.patch and fixes/C19-int-log-scale.patch.

  Two layers:
  * the bookkeeping (learn queue numbering, controller bindings, which automation emits to
    which address with which type) is modelled exactly over `Int`/`Bool`/`List`;
  * the numeric part (updateMapping, the map + clamp in setSlotSub, the controller value
    scaling in handleMidi) is written over an abstract carrier `F` with a record `Arith F`
    of the operations the code performs (`float` operations `…32`, `double` operations
    `…64`, the `double → float` conversion, `roundf`, `(int)`, `logf`, `expf`).  The driver
    instantiates it with IEEE-754 binary32/binary64 arithmetic over `Rat`
    (RtoscModel/AutoFloat.lean); the theorems assume only order laws (Proofs/AutoLemmas.lean)
    or use exact rational arithmetic (`default_gain_linear`).

  Undefined behaviour of the C++ code (slot index not range-checked by createBinding, sub
  index not range-checked by setSlotSubPath, `atof(NULL)`) is an explicit `none`.
  Not modelled because nothing the property observes depends on it: `name`, `active`,
  `relative`, `param_base_value`, `param_step`, `damaged`, `active_slot`, control points 0
  and 2 (constants 0 and 1, never read).  The control points 1 and 3 are only read for a
  `used` automation and every path that sets `used` runs updateMapping first.

  Ghost state (nothing in the code, nothing reads it in the model): `Automation.bound`
  remembers the arguments of the createBinding / setSlotSubPath call that filled the
  automation — the address that was passed and what `apropos` found for it — so that the
  theorems can speak about "the bound parameter".  It is set where the code sets
  `used = true` and dropped where the code sets `used = false`.
-/
import RtoscModel.Basic
namespace Rtosc.Auto
open Rtosc

/-- The arithmetic the code performs.  All values live in one carrier (every `float` is a
    `double`); `le` is `<=` on non-NaN values, so the C test `x > y` is `!le x y`. -/
structure Arith (F : Type) where
  le : F → F → Bool
  zero : F
  one : F
  half : F
  two : F
  hundred : F
  ofInt : Int → F
  add32 : F → F → F
  sub32 : F → F → F
  mul32 : F → F → F
  add64 : F → F → F
  sub64 : F → F → F
  mul64 : F → F → F
  div64 : F → F → F
  to32 : F → F
  roundf : F → F
  toInt : F → Int
  logf : F → F
  expf : F → F

/-- `x > y` in C on non-NaN values -/
@[inline] def Arith.gt {F} (A : Arith F) (x y : F) : Bool := !A.le x y

/-- What createBinding / setSlotSubPath read from the port `apropos(path)` returned:
    `strstr(name, ":f")`, `strstr(name, ":T")`, `atof` of the metadata values (`none`: key
    absent), `meta["scale"] && strstr(meta["scale"], "log")`, the two flags. -/
structure PortInfo (F : Type) where
  hasF : Bool
  hasT : Bool
  min : Option F
  max : Option F
  logmin : Option F
  scaleLog : Bool
  internal : Bool
  noLearn : Bool

structure Automation (F : Type) where
  used : Bool
  path : Bytes
  ty : Char
  pmin : F
  pmax : F
  logScale : Bool
  cp1 : F
  cp3 : F
  gain : F
  offset : F
  /-- ghost: address and port of the call that bound this automation (see the header) -/
  bound : Option (Bytes × PortInfo F) := none

structure Slot (F : Type) where
  used : Bool
  learning : Int
  midiCC : Int
  midiNrpn : Int
  current : F
  autos : List (Automation F)

structure Mgr (F : Type) where
  slots : List (Slot F)
  perSlot : Nat
  learnLen : Int
  parhi : Int
  parlo : Int
  valhi : Int
  vallo : Int

/-- value of a message argument -/
inductive Val (F : Type) where
  | none
  | int (n : Int)
  | flt (x : F)

/-- a message handed to `backend`: address, type tag (the whole type string is this one
    character), value; `expArg` is the argument of `expf` when the value is the result of
    `expf` (log-scale parameter) — an observation aid for the driver, not part of the message -/
structure Msg (F : Type) where
  addr : Bytes
  ty : Char
  val : Val F
  expArg : Option F := none

variable {F : Type}

def Automation.init (A : Arith F) : Automation F :=
  { used := false, path := [], ty := Char.ofNat 0, pmin := A.zero, pmax := A.zero, logScale := false,
    cp1 := A.zero, cp3 := A.zero, gain := A.hundred, offset := A.zero, bound := none }

def Slot.init (A : Arith F) (perSlot : Nat) : Slot F :=
  { used := false, learning := -1, midiCC := -1, midiNrpn := -1, current := A.zero,
    autos := List.replicate perSlot (Automation.init A) }

/-- `AutomationMgr::AutomationMgr(slots, per_slot, control_points)` (with the NRPN registers
    initialised, fixes/C19-nrpn-init.patch) -/
def Mgr.init (A : Arith F) (nslots perSlot : Nat) : Mgr F :=
  { slots := List.replicate nslots (Slot.init A perSlot), perSlot := perSlot, learnLen := 0,
    parhi := -1, parlo := -1, valhi := -1, vallo := -1 }

/-- `slot_id >= nslots || slot_id < 0` -/
def Mgr.slotOob (m : Mgr F) (s : Int) : Bool := decide (s ≥ m.slots.length) || decide (s < 0)
/-- `sub >= per_slot || sub < 0` -/
def Mgr.subOob (m : Mgr F) (j : Int) : Bool := decide (j ≥ m.perSlot) || decide (j < 0)

/-- the control points updateMapping computes from min/max/gain/offset:
    `center = (mn+mx)*(0.5 + offset/100.0); range = (mx-mn)*gain/100.0;
     cp[1] = center-range/2.0; cp[3] = center+range/2.0` -/
def mapping (A : Arith F) (mn mx gain offset : F) : F × F :=
  let center := A.to32 (A.mul64 (A.add32 mn mx) (A.add64 A.half (A.div64 offset A.hundred)))
  let range := A.to32 (A.div64 (A.mul32 (A.sub32 mx mn) gain) A.hundred)
  (A.to32 (A.sub64 center (A.div64 range A.two)), A.to32 (A.add64 center (A.div64 range A.two)))

def Automation.remap (A : Arith F) (au : Automation F) : Automation F :=
  let cp := mapping A au.pmin au.pmax au.gain au.offset
  { au with cp1 := cp.1, cp3 := cp.2 }

def modifyAuto (m : Mgr F) (s j : Nat) (f : Automation F → Automation F) : Mgr F :=
  { m with slots := m.slots.modify s (fun sl => { sl with autos := sl.autos.modify j f }) }

/-- `AutomationMgr::updateMapping(slot_id, sub)` -/
def updateMapping (A : Arith F) (m : Mgr F) (s j : Int) : Mgr F :=
  if m.slotOob s || m.subOob j then m
  else modifyAuto m s.toNat j.toNat (Automation.remap A)

/-- `v > mx ? mx : (v < mn ? mn : v)` -/
def clamp (A : Arith F) (mn mx v : F) : F :=
  if A.gt v mx then mx else if A.gt mn v then mn else v

/-- the body of `setSlotSub` for one automation: what is passed to `backend` -/
def emit (A : Arith F) (au : Automation F) (value : F) : List (Msg F) :=
  if !au.used then []
  else
    let v := A.add32 (A.mul32 value (A.sub32 au.cp3 au.cp1)) au.cp1
    if au.ty = 'i' then
      let c := clamp A au.pmin au.pmax v
      -- repaired (fixes/C19-int-log-scale.patch): a log-scale integer goes back through expf
      if au.logScale then
        [{ addr := au.path, ty := 'i', val := .int (A.toInt (A.roundf (A.expf c))), expArg := some c }]
      else [{ addr := au.path, ty := 'i', val := .int (A.toInt (A.roundf c)) }]
    else if au.ty = 'f' then
      let c := clamp A au.pmin au.pmax v
      if au.logScale then [{ addr := au.path, ty := 'f', val := .flt (A.expf c), expArg := some c }]
      else [{ addr := au.path, ty := 'f', val := .flt c }]
    else if au.ty = 'T' || au.ty = 'F' then
      [{ addr := au.path, ty := if A.gt v A.half then 'T' else 'F', val := .none }]
    else []

/-- `AutomationMgr::setSlotSub(slot_id, par, value)`: emits, changes nothing -/
def setSlotSub (A : Arith F) (m : Mgr F) (s j : Int) (value : F) : List (Msg F) :=
  if m.slotOob s || m.subOob j then []
  else match m.slots[s.toNat]? with
    | none => []
    | some sl => match sl.autos[j.toNat]? with
      | none => []
      | some au => emit A au value

/-- the messages of `for(i<per_slot) setSlotSub(slot_id, i, value)` -/
def slotMsgs (A : Arith F) (sl : Slot F) (value : F) : List (Msg F) :=
  sl.autos.flatMap (fun au => emit A au value)

/-- `AutomationMgr::setSlot(slot_id, value)` -/
def setSlot (A : Arith F) (m : Mgr F) (s : Int) (value : F) : Mgr F × List (Msg F) :=
  if m.slotOob s then (m, [])
  else match m.slots[s.toNat]? with
    | none => (m, [])
    | some sl =>
      ({ m with slots := m.slots.set s.toNat { sl with current := value } }, slotMsgs A sl value)

/-- `AutomationMgr::clearSlotSub` on one automation -/
def Automation.clear (A : Arith F) (au : Automation F) : Automation F :=
  { au with used := false, path := [], ty := Char.ofNat 0, pmin := A.zero, pmax := A.zero,
            gain := A.hundred, offset := A.zero, bound := none }

/-- `AutomationMgr::clearSlotSub(slot_id, sub)` -/
def clearSlotSub (A : Arith F) (m : Mgr F) (s j : Int) : Mgr F :=
  if m.slotOob s || m.subOob j then m
  else modifyAuto m s.toNat j.toNat (Automation.clear A)

/-- renumbering loop of clearSlot: `if(slots[i].learning > L) slots[i].learning--` -/
def decAbove (L : Int) (sl : Slot F) : Slot F :=
  if sl.learning > L then { sl with learning := sl.learning - 1 } else sl

/-- `AutomationMgr::clearSlot(slot_id)` (repaired: the queue is only renumbered when the
    cleared slot was waiting, fixes/C19-clearslot.patch) -/
def clearSlot (A : Arith F) (m : Mgr F) (s : Int) : Mgr F :=
  if m.slotOob s then m
  else match m.slots[s.toNat]? with
    | none => m
    | some sl =>
      let waiting := decide (sl.learning > 0)
      let slots1 := if waiting then m.slots.map (decAbove sl.learning) else m.slots
      let len1 := if waiting then m.learnLen - 1 else m.learnLen
      let slots2 := slots1.modify s.toNat (fun x =>
        { x with used := false, learning := -1, midiCC := -1, midiNrpn := -1, current := A.zero,
                 autos := x.autos.map (Automation.clear A) })
      { m with slots := slots2, learnLen := len1 }

/-- the part of createBinding / setSlotSubPath that fills the automation from the port -/
def bindInfo (A : Arith F) (au : Automation F) (path : Bytes) (p : PortInfo F) : Option (Automation F) :=
  let ty : Char := if p.hasF then 'f' else if p.hasT then 'T' else 'i'
  let mm : Option (F × F) :=
    if ty = 'T' then some (A.zero, A.one)
    else match p.min, p.max with
      | some mn, some mx => some (A.to32 mn, A.to32 mx)
      | _, _ => none                                             -- atof(NULL)
  match mm with
  | none => none
  | some (mn, mx) =>
    let au1 := { au with used := true, ty := ty, path := path.take 127, bound := some (path, p) }
    if p.scaleLog then
      let lo := match p.logmin with
        | some l => A.to32 l                                      -- logf(double): converted to float
        | none => mn
      some { au1 with logScale := true, pmin := A.logf lo, pmax := A.logf mx }
    else
      some { au1 with logScale := false, pmin := mn, pmax := mx }

/-- the three early returns shared by createBinding and setSlotSubPath -/
def portUsable (port : Option (PortInfo F)) : Option (PortInfo F) :=
  match port with
  | none => none                                                 -- port does not exist
  | some p =>
    if !(p.min.isSome && p.max.isSome) && !p.hasT then none      -- no bounds known
    else if p.internal || p.noLearn then none                    -- unlearnable
    else some p

/-- index of the first automation with `used == false` -/
def firstFree : List (Automation F) → Nat → Option Nat
  | [], _ => none
  | au :: r, i => if au.used = false then some i else firstFree r (i + 1)

/-- `AutomationMgr::createBinding(slot, path, start_midi_learn)`; `port` is what
    `p->apropos(path)` finds.  `none` = undefined behaviour (slot out of range, atof(NULL)). -/
def createBinding (A : Arith F) (m : Mgr F) (slot : Int) (path : Bytes) (port : Option (PortInfo F))
    (learn : Bool) : Option (Mgr F) :=
  match portUsable port with
  | none => some m
  | some p =>
    if m.slotOob slot then none
    else match m.slots[slot.toNat]? with
      | none => none
      | some sl =>
        match firstFree sl.autos 0 with
        | none => some m
        | some ind =>
          match sl.autos[ind]? with
          | none => none
          | some au =>
            match bindInfo A au path p with
            | none => none
            | some au1 =>
              let au2 := Automation.remap A { au1 with gain := A.hundred, offset := A.zero }
              let startLearn := learn && decide (sl.learning = -1) && decide (sl.midiCC = -1)
              let sl1 := { sl with used := true, autos := sl.autos.set ind au2,
                                   learning := if startLearn then m.learnLen + 1 else sl.learning }
              some { m with slots := m.slots.set slot.toNat sl1,
                            learnLen := if startLearn then m.learnLen + 1 else m.learnLen }

/-- `AutomationMgr::setSlotSubPath(slot, ind, path)` (`ind` is not range-checked) -/
def setSlotSubPath (A : Arith F) (m : Mgr F) (slot ind : Int) (path : Bytes) (port : Option (PortInfo F)) :
    Option (Mgr F) :=
  if m.slotOob slot then some m
  else match portUsable port with
    | none => some m
    | some p =>
      if m.subOob ind then none
      else match m.slots[slot.toNat]? with
        | none => none
        | some sl =>
          match sl.autos[ind.toNat]? with
          | none => none
          | some au =>
            match bindInfo A au path p with
            | none => none
            | some au1 =>
              let sl1 := { sl with used := true, autos := sl.autos.set ind.toNat (Automation.remap A au1) }
              some { m with slots := m.slots.set slot.toNat sl1 }

/-- `setSlotSubGain(slot, sub, f)` -/
def setSlotSubGain (m : Mgr F) (s j : Int) (x : F) : Mgr F :=
  if m.slotOob s || m.subOob j then m
  else modifyAuto m s.toNat j.toNat (fun au => { au with gain := x })

/-- `setSlotSubOffset(slot, sub, f)` -/
def setSlotSubOffset (m : Mgr F) (s j : Int) (x : F) : Mgr F :=
  if m.slotOob s || m.subOob j then m
  else modifyAuto m s.toNat j.toNat (fun au => { au with offset := x })

/-! ### handleMidi -/

def C_dataentryhi : Int := 6
def C_dataentrylo : Int := 38
def C_nrpnhi : Int := 99
def C_nrpnlo : Int := 98

/-- `AutomationMgr::setparameternumber(type, value)` -/
def setParameterNumber (m : Mgr F) (type val : Int) : Mgr F :=
  if type = C_nrpnhi then { m with parhi := val, valhi := -1, vallo := -1 }
  else if type = C_nrpnlo then { m with parlo := val, valhi := -1, vallo := -1 }
  else if type = C_dataentryhi then
    if m.parhi ≥ 0 ∧ m.parlo ≥ 0 then { m with valhi := val } else m
  else if type = C_dataentrylo then
    if m.parhi ≥ 0 ∧ m.parlo ≥ 0 then { m with vallo := val } else m
  else m

/-- `getnrpn(...) == 0` -/
def nrpnComplete (m : Mgr F) : Bool :=
  !(decide (m.parhi < 0) || decide (m.parlo < 0) || decide (m.valhi < 0) || decide (m.vallo < 0))

/-- `for(i<nslots) if(sel(slots[i]) == par_id) setSlot(i, value)`: all slots bound to the
    controller are driven, in index order.  (setSlot only changes `current_state`.) -/
def driveBound (A : Arith F) (sel : Slot F → Int) (parId : Int) (value : F) :
    List (Slot F) → List (Slot F) × List (Msg F)
  | [] => ([], [])
  | sl :: r =>
    let (r', ms) := driveBound A sel parId value r
    if sel sl = parId then ({ sl with current := value } :: r', slotMsgs A sl value ++ ms)
    else (sl :: r', ms)

def anyBound (sel : Slot F → Int) (parId : Int) (slots : List (Slot F)) : Bool :=
  slots.any (fun sl => sel sl = parId)

/-- index of the first slot with `learning == 1` -/
def findHead : List (Slot F) → Nat → Option Nat
  | [], _ => none
  | sl :: r, i => if sl.learning = 1 then some i else findHead r (i + 1)

/-- the loop after "No bound CC, now to see if there's something to learn" -/
def serveLearn (A : Arith F) (m : Mgr F) (isNrpn : Bool) (parId : Int) (val : Int) : Mgr F × List (Msg F) :=
  match findHead m.slots 0 with
  | none => (m, [])
  | some i =>
    let slots1 := m.slots.modify i (fun sl =>
      if isNrpn then { sl with learning := -1, midiNrpn := parId }
      else { sl with learning := -1, midiCC := parId })
    let slots2 := slots1.map (fun sl => if sl.learning > 1 then { sl with learning := sl.learning - 1 } else sl)
    let m1 := { m with slots := slots2, learnLen := m.learnLen - 1 }
    setSlot A m1 i (A.to32 (A.div64 (A.ofInt val) (A.ofInt 127)))

/-- `AutomationMgr::handleMidi(channel, type, val)` (repaired: an incomplete (N)RPN sequence
    neither drives nor teaches anything, fixes/C19-nrpn-partial.patch) -/
def handleMidi (A : Arith F) (m : Mgr F) (channel type val : Int) : Mgr F × List (Msg F) :=
  if type = C_dataentryhi ∨ type = C_dataentrylo ∨ type = C_nrpnhi ∨ type = C_nrpnlo then
    let m1 := setParameterNumber m type val
    if nrpnComplete m1 then
      let parId := m1.parhi * 128 + m1.parlo
      let value := m1.valhi * 128 + m1.vallo
      if anyBound (·.midiNrpn) parId m1.slots then
        let (sl', ms) := driveBound A (·.midiNrpn) parId (A.to32 (A.div64 (A.ofInt value) (A.ofInt 16383))) m1.slots
        ({ m1 with slots := sl' }, ms)
      else serveLearn A m1 true parId val
    else (m1, [])
  else
    let parId := channel * 128 + type
    if anyBound (·.midiCC) parId m.slots then
      let (sl', ms) := driveBound A (·.midiCC) parId (A.to32 (A.div64 (A.ofInt val) (A.ofInt 127))) m.slots
      ({ m with slots := sl' }, ms)
    else serveLearn A m false parId val

/-! ### operation histories -/

/-- the operations of the property's quantifier -/
inductive Op (F : Type) where
  | bind (slot : Int) (path : Bytes) (port : Option (PortInfo F)) (learn : Bool)
  | setPath (slot sub : Int) (path : Bytes) (port : Option (PortInfo F))
  | clearSlot (slot : Int)
  | clearSub (slot sub : Int)
  | gain (slot sub : Int) (x : F)        -- setSlotSubGain; updateMapping
  | offset (slot sub : Int) (x : F)      -- setSlotSubOffset; updateMapping
  | setSlot (slot : Int) (x : F)
  | setSub (slot sub : Int) (x : F)
  | midi (channel type val : Int)

/-- one operation: new state and the messages handed to `backend`; `none` = undefined behaviour -/
def step (A : Arith F) (m : Mgr F) : Op F → Option (Mgr F × List (Msg F))
  | .bind s path port learn => (createBinding A m s path port learn).map (·, [])
  | .setPath s j path port => (setSlotSubPath A m s j path port).map (·, [])
  | .clearSlot s => some (clearSlot A m s, [])
  | .clearSub s j => some (clearSlotSub A m s j, [])
  | .gain s j x => some (updateMapping A (setSlotSubGain m s j x) s j, [])
  | .offset s j x => some (updateMapping A (setSlotSubOffset m s j x) s j, [])
  | .setSlot s x => some (setSlot A m s x)
  | .setSub s j x => some (m, setSlotSub A m s j x)
  | .midi c t v => some (handleMidi A m c t v)

/-- a whole history: final state and the messages of every step -/
def run (A : Arith F) (m : Mgr F) : List (Op F) → Option (Mgr F × List (List (Msg F)))
  | [] => some (m, [])
  | op :: ops =>
    match step A m op with
    | none => none
    | some (m1, ms) =>
      match run A m1 ops with
      | none => none
      | some (m2, mss) => some (m2, ms :: mss)

end Rtosc.Auto
