/-
  C19 — specification side: what the property says, stated without the code's structure.

  * the learn queue is an abstract FIFO list of slot ids (`absStep`); the implementation's
    per-slot numbers must be the positions in that list (`QueueRel`, `qpos`);
  * a message emitted for an automation must go to its address, carry its type and a value
    inside the bound range (`MsgOK`), and be monotone in the slot value (`MsgLe`);
  * `Laws` collects the order facts about float arithmetic that the range/monotonicity
    theorems assume (they are hypotheses, never axioms).
-/
import RtoscModel.Auto
namespace Rtosc.Auto
open Rtosc
variable {F : Type}

/-! ### abstract learn queue -/

/-- learning number the abstract queue `Q` (slot ids, oldest request first) assigns to slot
    `i`: position + 1 (1 = next to be served), or -1 when `i` is not waiting -/
def qpos : List Nat → Nat → Int
  | [], _ => -1
  | q :: Q, i => if q = i then 1 else (if qpos Q i = -1 then -1 else qpos Q i + 1)

/-- the bookkeeping observables of a slot: (learning, midi_cc, midi_nrpn) -/
abbrev Key := Int × Int × Int
def key (sl : Slot F) : Key := (sl.learning, sl.midiCC, sl.midiNrpn)
def keys (m : Mgr F) : List Key := m.slots.map key

/-- the slot numbering `ks` with queue-length register `len` represents the abstract queue
    `Q`: pending slots hold exactly 1..k in request order, all others hold -1 -/
structure QueueRel (ks : List Key) (len : Int) (Q : List Nat) : Prop where
  nodup : Q.Nodup
  bound : ∀ q ∈ Q, q < ks.length
  len : len = Q.length
  num : ∀ (i : Nat) (k : Key), ks[i]? = some k → k.1 = qpos Q i

def Refines (m : Mgr F) (Q : List Nat) : Prop := QueueRel (keys m) m.learnLen Q

/-- createBinding gets as far as binding the parameter: the port is usable, the slot exists
    and has a free sub-automation -/
def bindSucceeds (m : Mgr F) (s : Int) (port : Option (PortInfo F)) : Bool :=
  (portUsable port).isSome && !m.slotOob s &&
    (match m.slots[s.toNat]? with
     | some sl => (firstFree sl.autos 0).isSome
     | none => false)

def slotCC (m : Mgr F) (s : Int) : Int := ((m.slots[s.toNat]?).map (·.midiCC)).getD (-1)

/-- the controller a MIDI event carries a value for: `(true, id)` for a completed NRPN,
    `(false, channel*128+cc)` for a plain controller, nothing while an (N)RPN sequence is
    incomplete -/
def controllerOf (m : Mgr F) (c t v : Int) : Option (Bool × Int) :=
  if t = C_dataentryhi ∨ t = C_dataentrylo ∨ t = C_nrpnhi ∨ t = C_nrpnlo then
    let m1 := setParameterNumber m t v
    if nrpnComplete m1 then some (true, m1.parhi * 128 + m1.parlo) else none
  else some (false, c * 128 + t)

def bindingOf (isNrpn : Bool) (sl : Slot F) : Int := if isNrpn then sl.midiNrpn else sl.midiCC

def isBoundTo (m : Mgr F) (isNrpn : Bool) (id : Int) : Bool :=
  m.slots.any (fun sl => bindingOf isNrpn sl = id)

/-- the abstract queue operations: a successful learn request of a slot that is neither
    waiting nor bound to a CC is appended; clearing a slot removes it; a value for a
    controller no slot is bound to serves (removes) the head; nothing else touches it -/
def absStep (m : Mgr F) (op : Op F) (Q : List Nat) : List Nat :=
  match op with
  | .bind s _ port learn =>
    if bindSucceeds m s port && learn && decide (s.toNat ∉ Q) && decide (slotCC m s = -1)
    then Q ++ [s.toNat] else Q
  | .clearSlot s => if m.slotOob s then Q else Q.erase s.toNat
  | .midi c t v =>
    match controllerOf m c t v with
    | some (isNrpn, id) => if isBoundTo m isNrpn id then Q else Q.tail
    | none => Q
  | _ => Q

/-- the manager after the (N)RPN register update of the event -/
def regs (m : Mgr F) (t v : Int) : Mgr F :=
  if t = C_dataentryhi ∨ t = C_dataentrylo ∨ t = C_nrpnhi ∨ t = C_nrpnlo then setParameterNumber m t v else m

/-- the slot value a controller event stands for -/
def midiValue (A : Arith F) (m1 : Mgr F) (n : Bool) (v : Int) : F :=
  if n then A.to32 (A.div64 (A.ofInt (m1.valhi * 128 + m1.vallo)) (A.ofInt 16383))
  else A.to32 (A.div64 (A.ofInt v) (A.ofInt 127))

/-- no two slots are bound to the same controller -/
def Uniq (sel : Key → Int) (ks : List Key) : Prop :=
  ∀ (i j : Nat) (a b : Key), ks[i]? = some a → ks[j]? = some b → sel a = sel b → sel a ≠ -1 → i = j

/-! ### well-formed inputs, reachable states -/

/-- the parameter's type as its port declares it: float if the port's name mentions `:f`,
    else a toggle if it mentions `:T`, else integer -/
def portType (p : PortInfo F) : Char := if p.hasF then 'f' else if p.hasT then 'T' else 'i'

/-- the declared range of a port, as `float`s: 0..1 for a toggle, `min`..`max` otherwise; a
    log-scale port that declares `logmin` starts there -/
def portRange (A : Arith F) (p : PortInfo F) : Option (F × F) :=
  if portType p = 'T' then some (A.zero, A.one)
  else match p.min, p.max with
    | some mn, some mx =>
      some (if p.scaleLog then (p.logmin.map A.to32).getD (A.to32 mn) else A.to32 mn, A.to32 mx)
    | _, _ => none

/-- ranges are not empty: min <= max, and logmin <= max when given; a toggle port
    (`:T` and no `:f` in its name) does not declare a logarithmic scale; the lower end of the
    range of a logarithmic-scale port — `logmin` if declared, else `min`, as the `float` the code
    passes to `logf` (`portRange`) — is positive (`logf` of zero or of a negative number is
    -infinity / NaN, which this model does not represent; `log_scale_needs_positive_bound`
    in Props/C19.lean shows what an arithmetic that extends `logf` below zero makes of such a port) -/
def PortWF (A : Arith F) (p : PortInfo F) : Prop :=
  (∀ mn mx, p.min = some mn → p.max = some mx →
    A.le mn mx = true ∧ (∀ l, p.logmin = some l → A.le l mx = true)) ∧
  (p.hasF = false → p.hasT = true → p.scaleLog = false) ∧
  (p.scaleLog = true → ∀ lo hi, portRange A p = some (lo, hi) → A.le lo A.zero = false)

/-- MIDI channel and controller numbers are not negative; bound ports have non-empty ranges;
    an address fits the 128-byte `param_path` buffer (a longer one is cut off by the code) -/
def OpWF (A : Arith F) : Op F → Prop
  | .bind _ path port _ => path.length ≤ 127 ∧ ∀ p, port = some p → PortWF A p
  | .setPath _ _ path port => path.length ≤ 127 ∧ ∀ p, port = some p → PortWF A p
  | .midi c t _ => 0 ≤ c ∧ 0 ≤ t
  | _ => True

/-- states reached from a fresh manager by a history of well-formed operations, none of
    which runs into undefined behaviour -/
inductive Reachable (A : Arith F) (nslots perSlot : Nat) : Mgr F → Prop
  | init : Reachable A nslots perSlot (Mgr.init A nslots perSlot)
  | step {m m' : Mgr F} {op : Op F} {ms : List (Msg F)} :
      Reachable A nslots perSlot m → OpWF A op → step A m op = some (m', ms) →
      Reachable A nslots perSlot m'

/-! ### what may be emitted -/

/-! #### the specification: stated about the PORT that was bound, not about the automation -/

/-- what the property allows to be sent for the parameter `p` bound under the address `path`:
    exactly that address, the parameter's type, and a value inside the declared range
    `[lo,hi] = portRange p` — for integers `(int)roundf` of the bounds (the bounds themselves
    when they are integer-valued); for a log-scale parameter the bounds pass through
    `expf ∘ logf` (libm's rounding: the property's 1e-5 tolerance); true/false for toggles -/
def MsgOKPort (A : Arith F) (path : Bytes) (p : PortInfo F) (msg : Msg F) : Prop :=
  msg.addr = path ∧
  ∃ lo hi, portRange A p = some (lo, hi) ∧
  ((portType p = 'i' ∧ p.scaleLog = false ∧ msg.ty = 'i' ∧
      ∃ n, msg.val = .int n ∧ A.toInt (A.roundf lo) ≤ n ∧ n ≤ A.toInt (A.roundf hi)) ∨
   (portType p = 'i' ∧ p.scaleLog = true ∧ msg.ty = 'i' ∧
      ∃ n, msg.val = .int n ∧ A.toInt (A.roundf (A.expf (A.logf lo))) ≤ n ∧
        n ≤ A.toInt (A.roundf (A.expf (A.logf hi)))) ∨
   (portType p = 'f' ∧ p.scaleLog = false ∧ msg.ty = 'f' ∧
      ∃ x, msg.val = .flt x ∧ A.le lo x = true ∧ A.le x hi = true) ∨
   (portType p = 'f' ∧ p.scaleLog = true ∧ msg.ty = 'f' ∧
      ∃ x, msg.val = .flt x ∧ A.le (A.expf (A.logf lo)) x = true ∧ A.le x (A.expf (A.logf hi)) = true) ∨
   (portType p = 'T' ∧ (msg.ty = 'T' ∨ msg.ty = 'F') ∧ msg.val = .none))

/-! #### the same, in terms of what the automation stores (used inside the proofs) -/

/-- the message is what the stored fields of automation `au` allow: its address, its type, a
    value inside its stored range (`toInt (roundf ·)` of the bounds for integers, `expf` of the
    stored logarithmic bounds for log scale, true/false for toggles) -/
def MsgOK (A : Arith F) (au : Automation F) (msg : Msg F) : Prop :=
  msg.addr = au.path ∧
  ((au.ty = 'i' ∧ au.logScale = false ∧ msg.ty = 'i' ∧
      ∃ n, msg.val = .int n ∧ A.toInt (A.roundf au.pmin) ≤ n ∧ n ≤ A.toInt (A.roundf au.pmax)) ∨
   (au.ty = 'i' ∧ au.logScale = true ∧ msg.ty = 'i' ∧
      ∃ n, msg.val = .int n ∧ A.toInt (A.roundf (A.expf au.pmin)) ≤ n ∧
        n ≤ A.toInt (A.roundf (A.expf au.pmax))) ∨
   (au.ty = 'f' ∧ au.logScale = false ∧ msg.ty = 'f' ∧
      ∃ x, msg.val = .flt x ∧ A.le au.pmin x = true ∧ A.le x au.pmax = true) ∨
   (au.ty = 'f' ∧ au.logScale = true ∧ msg.ty = 'f' ∧
      ∃ x, msg.val = .flt x ∧ A.le (A.expf au.pmin) x = true ∧ A.le x (A.expf au.pmax) = true) ∨
   (au.ty = 'T' ∧ (msg.ty = 'T' ∨ msg.ty = 'F') ∧ msg.val = .none))

/-- `m2` is "not less" than `m1`: same address and type class, value not smaller
    (false <= true for toggles) -/
def MsgLe (A : Arith F) (m1 m2 : Msg F) : Prop :=
  m1.addr = m2.addr ∧
  match m1.val, m2.val with
  | .int a, .int b => m1.ty = m2.ty ∧ a ≤ b
  | .flt a, .flt b => m1.ty = m2.ty ∧ A.le a b = true
  | .none, .none => (m1.ty = 'T' ∨ m1.ty = 'F') ∧ (m2.ty = 'T' ∨ m2.ty = 'F') ∧ (m1.ty = 'T' → m2.ty = 'T')
  | _, _ => False

/-- message lists compared position by position -/
def MsgsLe (A : Arith F) : List (Msg F) → List (Msg F) → Prop
  | [], [] => True
  | a :: l1, b :: l2 => MsgLe A a b ∧ MsgsLe A l1 l2
  | _, _ => False

/-- the automation still holds what createBinding/setSlotSubPath filled in from the
    well-formed port `p` found under the address `path` — the call its ghost field `bound`
    remembers: address, type and range are what `bindInfo` stores for that port -/
def FromPort (A : Arith F) (au : Automation F) : Prop :=
  ∃ (au0 b : Automation F) (path : Bytes) (p : PortInfo F),
    PortWF A p ∧ portUsable (some p) = some p ∧ path.length ≤ 127 ∧ bindInfo A au0 path p = some b ∧
    au.bound = some (path, p) ∧
    au.path = b.path ∧ au.ty = b.ty ∧ au.pmin = b.pmin ∧ au.pmax = b.pmax ∧ au.logScale = b.logScale

/-- invariant of every automation: a `used` one is bound to a port and its control points are
    in sync with min/max/gain/offset; an unused one remembers no port -/
def Good (A : Arith F) (au : Automation F) : Prop :=
  (au.used = true → FromPort A au ∧ (au.cp1, au.cp3) = mapping A au.pmin au.pmax au.gain au.offset) ∧
  (au.used = false → au.bound = none)

def AllAutos (m : Mgr F) (P : Automation F → Prop) : Prop :=
  ∀ sl ∈ m.slots, ∀ au ∈ sl.autos, P au

/-! ### the binding table: which parameter every automation is bound to (ghost observable) -/

/-- per slot, per sub-automation: the address and port it is bound to, if any -/
abbrev BTable (F : Type) := List (List (Option (Bytes × PortInfo F)))
/-- the ghost fields of a manager, as a table -/
def boundsOf (m : Mgr F) : BTable F := m.slots.map (fun sl => sl.autos.map (·.bound))

/-- index of the first empty entry of a row -/
def firstNone {α : Type} : List (Option α) → Nat → Option Nat
  | [], _ => none
  | x :: r, i => if x.isNone then some i else firstNone r (i + 1)

/-- what the operations do to the binding table, as the statement reads them: createBinding on
    a usable port fills the first free sub-automation of the slot with (address, port),
    setSlotSubPath fills the named one, clearSlot empties the slot's row, clearSlotSub the
    named entry (`per` = sub-automations per slot; out-of-range indices address nothing);
    no other operation changes what anything is bound to -/
def absBind (per : Nat) (B : BTable F) : Op F → BTable F
  | .bind s path port _ =>
    match portUsable port with
    | none => B
    | some p => B.modify s.toNat (fun row =>
        match firstNone row 0 with
        | some j => row.set j (some (path, p))
        | none => row)
  | .setPath s j path port =>
    if s < 0 then B else
    match portUsable port with
    | none => B
    | some p => B.modify s.toNat (fun row => row.set j.toNat (some (path, p)))
  | .clearSlot s => if s < 0 then B else B.modify s.toNat (fun row => row.map (fun _ => none))
  | .clearSub s j =>
    if s < 0 ∨ j < 0 ∨ j ≥ (per : Int) then B
    else B.modify s.toNat (fun row => row.modify j.toNat (fun _ => none))
  | _ => B

/-! ### order laws assumed of the arithmetic -/

/-- Order facts about the float operations the code uses.  They hold of IEEE-754
    arithmetic on finite values (every operation is the exact one followed by a rounding
    that is monotone and maps 0 to 0) and of exact arithmetic. -/
structure Laws (A : Arith F) : Prop where
  le_total : ∀ x y, A.le x y = true ∨ A.le y x = true
  le_trans : ∀ x y z, A.le x y = true → A.le y z = true → A.le x z = true
  zero_le_one : A.le A.zero A.one = true
  zero_le_two : A.le A.zero A.two = true
  zero_le_hundred : A.le A.zero A.hundred = true
  sub32_nonneg : ∀ x y, A.le x y = true → A.le A.zero (A.sub32 y x) = true
  mul32_nonneg : ∀ x y, A.le A.zero x = true → A.le A.zero y = true → A.le A.zero (A.mul32 x y) = true
  mul32_mono : ∀ x y c, A.le x y = true → A.le A.zero c = true → A.le (A.mul32 x c) (A.mul32 y c) = true
  add32_mono : ∀ x y c, A.le x y = true → A.le (A.add32 x c) (A.add32 y c) = true
  div64_nonneg : ∀ x y, A.le A.zero x = true → A.le A.zero y = true → A.le A.zero (A.div64 x y) = true
  sub64_le_add64 : ∀ c h, A.le A.zero h = true → A.le (A.sub64 c h) (A.add64 c h) = true
  to32_mono : ∀ x y, A.le x y = true → A.le (A.to32 x) (A.to32 y) = true
  to32_zero : A.to32 A.zero = A.zero
  roundf_mono : ∀ x y, A.le x y = true → A.le (A.roundf x) (A.roundf y) = true
  toInt_mono : ∀ x y, A.le x y = true → A.toInt x ≤ A.toInt y
  /-- `logf` is monotone on positive arguments (the only ones `PortWF` lets reach it) -/
  logf_mono : ∀ x y, A.le x A.zero = false → A.le x y = true → A.le (A.logf x) (A.logf y) = true
  expf_mono : ∀ x y, A.le x y = true → A.le (A.expf x) (A.expf y) = true

/-! ### exact arithmetic (no rounding) over `Rat`, for the linear-map claim -/

def roundAway (x : Rat) : Rat :=
  if x < 0 then -(((-x + 1/2).floor : Int) : Rat) else (((x + 1/2).floor : Int) : Rat)

def truncInt (x : Rat) : Int := if x < 0 then -((-x).floor) else x.floor

/-- every operation is the exact rational one; `roundf` rounds halves away from zero,
    `(int)` truncates; `logf`/`expf` are not available exactly and are the identity here
    (log-scale parameters are outside `default_gain_linear`) -/
def exact : Arith Rat :=
  { le := fun x y => decide (x ≤ y)
    zero := 0, one := 1, half := 1/2, two := 2, hundred := 100
    ofInt := fun n => (n : Rat)
    add32 := (· + ·), sub32 := (· - ·), mul32 := (· * ·)
    add64 := (· + ·), sub64 := (· - ·), mul64 := (· * ·), div64 := (· / ·)
    to32 := id
    roundf := roundAway
    toInt := truncInt
    logf := id
    expf := id }

/-- the message the linear map prescribes at slot value `x` -/
def linearMsg (au : Automation Rat) (x : Rat) : Msg Rat :=
  let v := au.pmin + x * (au.pmax - au.pmin)
  if au.ty = 'i' then { addr := au.path, ty := 'i', val := .int (truncInt (roundAway v)) }
  else if au.ty = 'f' then { addr := au.path, ty := 'f', val := .flt v }
  else { addr := au.path, ty := if 1/2 < v then 'T' else 'F', val := .none }

end Rtosc.Auto
