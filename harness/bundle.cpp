// Engine `bundle` (C08): compose element trees with the real rtosc_bundle and take the result
// apart again with rtosc_bundle_p / _elements / _fetch / _size / _timetag / rtosc_message_length.
// Op / output lines: see lean/Driver/BundleEngine.lean (the two must print the same text).
//
// The readers run on an exact-size heap copy of the `ret` bytes rtosc_bundle reported, so any
// read behind the bundle aborts under ASan.  append_bundle is a static function of
// subtree-serialize.cpp: that file is #included here (and excluded from the link).  If the tree
// has no function of that name and shape any more, the harness still compiles: the call below
// then resolves to the `...` fallback and the `A` ops print `no-append-bundle` (the property
// module does not generate them in that case and says so in the evidence).
#include "bundle_common.h"
struct NoAppend {};
static NoAppend append_bundle(...) { return NoAppend(); }
#include "subtree-serialize.cpp"
using namespace vb;

static bool picked(size_t r, size_t &out) { out = r; return true; }
static bool picked(NoAppend, size_t &) { return false; }

// decomposition of the packet of `size` bytes at `p` (inside an exact-size block)
static std::string decomp(const char *p, size_t size, int depth) {
    if (depth > 20) return "!depth";
    if (!rtosc_bundle_p(p)) return "m" + hex((const unsigned char *)p, size);
    std::ostringstream o;
    o << "B" << h64(rtosc_bundle_timetag(p)) << "[";
    size_t n = rtosc_bundle_elements(p, size);
    for (size_t i = 0; i < n; ++i) {
        const char *e = rtosc_bundle_fetch(p, (unsigned)i);
        size_t es = rtosc_bundle_size(p, (unsigned)i);
        if (i) o << ",";
        if (!e) { o << "NULL"; continue; }
        size_t off = (size_t)(e - p);
        o << off << ":" << es << ":";
        if (off > size || es > size - off) { o << "!range"; continue; }
        o << rtosc_message_length(e, es) << ":" << decomp(e, es, depth + 1);
    }
    o << "]";
    return o.str();
}

static std::string readers(const unsigned char *buf, size_t ret) {
    bytes b(buf, buf + ret);
    Block x(b);
    std::ostringstream o;
    o << " p=" << rtosc_bundle_p(x.c()) << " n=" << rtosc_bundle_elements(x.c(), ret) << " tt="
      << h64(rtosc_bundle_timetag(x.c())) << " len=" << rtosc_message_length(x.c(), ret)
      << " d=" << decomp(x.c(), ret, 0);
    return o.str();
}

static std::string step(const std::string &line) {
    arm_watchdog();
    auto w = words(line);
    if (w.size() < 2) return "bad-op";
    if (w[0] == "P" && w.size() == 2) {          // rtosc_bundle_p on a plain block
        bytes m;
        if (!unhex(w[1], m)) return "bad-op";
        Block x(m);
        std::ostringstream o;
        o << "p=" << rtosc_bundle_p(x.c());
        return o.str();
    }
    bool use_arena = w[0] == "Cr" || w[0] == "Ar";
    struct ArenaScope {
        bool on;
        explicit ArenaScope(bool o) : on(o) { if (on) { arena().reset(); arena().on = true; } }
        ~ArenaScope() { arena().on = false; }
    } scope(use_arena);
    if (w[0] == "C" || w[0] == "Cr") {            // compose + decompose
        size_t i = 1;
        Node n;
        if (!parse_node(w, i, n) || i != w.size() || !n.is_bundle) return "bad-op";
        if (use_arena) run_decoy(n);
        size_t ret = 0;
        std::unique_ptr<Block> dst = build(n, &ret);
        std::ostringstream o;
        if (ret > n.cap) { o << "r=" << ret << " ret-exceeds-len"; return o.str(); }
        // observable: the `ret` bytes written (what the block holds after a failed call is C02's business)
        if (ret == 0) return "r=0";
        o << "r=" << ret << " b=" << hex(dst->p, ret);
        if (ret >= 16) {
            o << readers(dst->p, ret);
            if (n.cap >= ret + 4) o << " nz=" << rtosc_bundle_elements(dst->c(), n.cap);
        }
        return o.str();
    }
    if ((w[0] == "A" || w[0] == "Ar") && w.size() >= 3) {   // append_bundle, the way subtree_serialize uses it
        size_t max_len = (size_t)atoll(w[1].c_str());
        size_t i = 2;
        Node n;
        if (!parse_node(w, i, n) || !n.is_bundle) return "bad-op";
        if (use_arena) run_decoy(n);
        size_t len = 0;
        std::unique_ptr<Block> dst = build(n, &len);
        std::ostringstream o;
        o << "r=" << len << " a=";
        bool first = true;
        for (; i < w.size(); ++i) {
            bytes m;
            if (w[i].empty() || w[i][0] != 'm' || !unhex(w[i].substr(1), m)) return "bad-op";
            Block src(m);
            if (!picked(append_bundle(dst->c(), (const char *)src.c(), max_len, len, m.size()), len))
                return "no-append-bundle";
            o << (first ? "" : ",") << len;
            first = false;
        }
        if (first) o << "-";
        if (len > n.cap) return o.str() + " ret-exceeds-len";
        if (len == 0) return o.str();
        o << " b=" << hex(dst->p, len);
        if (len >= 16) o << readers(dst->p, len);
        return o.str();
    }
    return "bad-op";
}
int main(int argc, char **argv) { return run_lines(argc, argv, step); }
