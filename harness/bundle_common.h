// Shared by the engines `bundle` (C08) and `oscbuf` (C02): element trees on the op line,
// composing them bottom-up with the real rtosc_bundle, exact-size heap blocks, watchdog.
//
// Tree tokens (prefix order):   m<hex>                  a message, given as its bytes
//                               B<16 hex tt>:<n>:<cap>  a bundle of the next n trees, built by
//                                                       rtosc_bundle into a block of <cap> bytes
// Every message lives in an exact-size heap block; every (nested) bundle is built into a heap
// block of exactly <cap> bytes pre-filled with 0xAA and handed on as that whole block, so ASan
// sees any store behind `len` and any read behind the allocation.
//
// Arena mode (ops `Cr`, `Ar`): malloc never hands out the same address twice while ASan's
// quarantine is filling, so code that remembers something about an element *by its address*
// would never be caught with heap blocks.  In arena mode every block is carved out of one big
// region (bump allocation from the same base on every op, everything around the blocks
// poisoned, so the exact-size property is kept: ASan reports `use-after-poison`), and before
// the real composition a DECOY composition is run on the same layout: every block of the tree
// sits at the same address but holds something else (messages: the 8-byte message "/" ",";
// nested bundles: an empty bundle), and rtosc_bundle is called on all of them.
#pragma once
#include "common.h"
#include <rtosc/rtosc.h>
#include <memory>
#include <sys/time.h>
#if defined(__SANITIZE_ADDRESS__)
#include <sanitizer/asan_interface.h>
#define VB_POISON(p, n) __asan_poison_memory_region((p), (n))
#define VB_UNPOISON(p, n) __asan_unpoison_memory_region((p), (n))
#else
#define VB_POISON(p, n) ((void)0)
#define VB_UNPOISON(p, n) ((void)0)
#endif

namespace vb {
using namespace vh;

// One op line takes microseconds of CPU; two CPU-seconds mean a loop of the library does not
// terminate: SIGPROF kills the process, the runner records `crash:signal:27` for the line.
inline void arm_watchdog() {
    struct itimerval t = {{0, 0}, {2, 0}};
    setitimer(ITIMER_PROF, &t, NULL);
}

// the arena: blocks start 8-aligned (ASan's granule), 32 poisoned bytes between two blocks
struct Arena {
    unsigned char *base;
    size_t size, used;
    bool on;
    Arena() : base(NULL), size(0), used(0), on(false) {}
    void reset() {
        if (!base) { size = (size_t)16 << 20; base = (unsigned char *)malloc(size); used = size; }
        VB_POISON(base, used);
        used = 0;
    }
    unsigned char *take(size_t n) {
        uintptr_t a = ((uintptr_t)base + used + 32 + 7) & ~(uintptr_t)7;
        size_t start = (size_t)(a - (uintptr_t)base);
        if (start + n + 64 > size) return NULL;           // does not fit: the caller uses the heap
        used = start + n + 32;
        VB_UNPOISON(base + start, n);
        return base + start;
    }
};
inline Arena &arena() { static Arena a; return a; }

// block of exactly n bytes (n == 0: a pointer with no accessible byte behind it), from the heap
// or, in arena mode, from the arena
struct Block {
    unsigned char *base, *p;
    size_t n;
    Block(size_t n_, unsigned char fill) : n(n_) {
        base = NULL;
        if (arena().on && (p = arena().take(n))) { if (n) memset(p, fill, n); return; }
        if (n) { base = (unsigned char *)malloc(n); p = base; memset(p, fill, n); }
        else { base = (unsigned char *)malloc(8); p = base + 8; }
    }
    explicit Block(const bytes &b) : Block(b.size(), 0) { if (n) memcpy(p, b.data(), n); }
    ~Block() { if (base) free(base); }
    char *c() { return (char *)p; }
    Block(const Block &) = delete;
    Block &operator=(const Block &) = delete;
};

struct Node {
    bool is_bundle = false;
    bytes msg;
    uint64_t tt = 0;
    size_t cap = 0;
    std::vector<Node> kids;
};

inline bool parse_node(const std::vector<std::string> &w, size_t &i, Node &n, int depth = 0) {
    if (i >= w.size() || depth > 16) return false;
    const std::string &t = w[i++];
    if (t.empty()) return false;
    if (t[0] == 'm') { n.is_bundle = false; return unhex(t.substr(1), n.msg); }
    if (t[0] != 'B') return false;
    size_t c1 = t.find(':'), c2 = t.find(':', c1 == std::string::npos ? 0 : c1 + 1);
    if (c1 != 17 || c2 == std::string::npos) return false;
    bytes tb;
    if (!unhex(t.substr(1, 16), tb) || tb.size() != 8) return false;
    n.is_bundle = true;
    n.tt = 0;
    for (int k = 0; k < 8; ++k) n.tt = (n.tt << 8) | tb[k];
    long cnt = atol(t.substr(c1 + 1, c2 - c1 - 1).c_str());
    n.cap = (size_t)atoll(t.substr(c2 + 1).c_str());
    if (cnt < 0 || cnt > 40) return false;
    n.kids.resize((size_t)cnt);
    for (long k = 0; k < cnt; ++k)
        if (!parse_node(w, i, n.kids[(size_t)k], depth + 1)) return false;
    return true;
}

// rtosc_bundle is variadic: one literal call site per element count up to 8; 9..40 elements go
// through one call site that passes 40 pointers (the unused ones NULL; rtosc_bundle fetches `elms`)
inline size_t call_bundle(char *b, size_t len, uint64_t tt, const std::vector<const char *> &e) {
    if (e.size() > 8 && e.size() <= 40) {
        const char *p[40];
        for (size_t i = 0; i < 40; ++i) p[i] = i < e.size() ? e[i] : NULL;
        return rtosc_bundle(b, len, tt, (int)e.size(), p[0], p[1], p[2], p[3], p[4], p[5], p[6], p[7], p[8], p[9],
                            p[10], p[11], p[12], p[13], p[14], p[15], p[16], p[17], p[18], p[19], p[20], p[21], p[22],
                            p[23], p[24], p[25], p[26], p[27], p[28], p[29], p[30], p[31], p[32], p[33], p[34], p[35],
                            p[36], p[37], p[38], p[39]);
    }
    switch (e.size()) {
    case 0: return rtosc_bundle(b, len, tt, 0);
    case 1: return rtosc_bundle(b, len, tt, 1, e[0]);
    case 2: return rtosc_bundle(b, len, tt, 2, e[0], e[1]);
    case 3: return rtosc_bundle(b, len, tt, 3, e[0], e[1], e[2]);
    case 4: return rtosc_bundle(b, len, tt, 4, e[0], e[1], e[2], e[3]);
    case 5: return rtosc_bundle(b, len, tt, 5, e[0], e[1], e[2], e[3], e[4]);
    case 6: return rtosc_bundle(b, len, tt, 6, e[0], e[1], e[2], e[3], e[4], e[5]);
    case 7: return rtosc_bundle(b, len, tt, 7, e[0], e[1], e[2], e[3], e[4], e[5], e[6]);
    case 8: return rtosc_bundle(b, len, tt, 8, e[0], e[1], e[2], e[3], e[4], e[5], e[6], e[7]);
    }
    return 0;
}

// the blocks of the children of a bundle node (each built bottom-up)
struct Kids {
    std::vector<std::unique_ptr<Block>> blocks;
    std::vector<const char *> ptrs;
};

inline std::unique_ptr<Block> build(const Node &n, size_t *ret);

inline void build_kids(const Node &n, Kids &k) {
    for (const Node &c : n.kids) {
        size_t r = 0;
        k.blocks.push_back(build(c, &r));
        k.ptrs.push_back(k.blocks.back()->c());
    }
}

inline std::unique_ptr<Block> build(const Node &n, size_t *ret) {
    if (!n.is_bundle) {
        *ret = n.msg.size();
        return std::unique_ptr<Block>(new Block(n.msg));
    }
    Kids k;
    build_kids(n, k);
    std::unique_ptr<Block> dst(new Block(n.cap, 0xAA));
    *ret = call_bundle(dst->c(), n.cap, n.tt, k.ptrs);
    return dst;
}

// ---- arena mode: the decoy composition -------------------------------------------------------
// every block of the tree, allocated in the order `build` allocates them, with decoy contents;
// `calls` = the element pointers of every bundle node, in the order `build` calls rtosc_bundle
struct Decoy {
    std::vector<std::unique_ptr<Block>> blocks;
    std::vector<std::vector<const char *>> calls;
    bool ok = true;
};

inline const char *decoy_layout(const Node &n, Decoy &d, bool top) {
    static const unsigned char msg8[8] = {'/', 0, 0, 0, ',', 0, 0, 0};
    static const unsigned char bun16[16] = {'#', 'b', 'u', 'n', 'd', 'l', 'e', 0, 0, 0, 0, 0, 0, 0, 0, 7};
    if (!n.is_bundle) {
        if (n.msg.size() < 8) d.ok = false;
        d.blocks.emplace_back(new Block(n.msg.size(), 0));
        if (n.msg.size() >= 8) memcpy(d.blocks.back()->p, msg8, 8);
        return d.blocks.back()->c();
    }
    std::vector<const char *> ptrs;
    for (const Node &c : n.kids) ptrs.push_back(decoy_layout(c, d, false));
    d.calls.push_back(ptrs);
    if (!top && n.cap < 20) d.ok = false;
    d.blocks.emplace_back(new Block(n.cap, 0));
    if (n.cap >= 16) memcpy(d.blocks.back()->p, bun16, 16);
    return d.blocks.back()->c();
}

// to be called with the arena switched on and freshly reset; resets it again afterwards
inline void run_decoy(const Node &root) {
    {
        Decoy d;
        decoy_layout(root, d, true);
        if (d.ok) {
            arena().on = false;                            // the scratch destination is a heap block
            size_t need = 64;
            for (auto &b : d.blocks) need += b->n + 8;
            Block scratch(need, 0xAA);
            arena().on = true;
            for (size_t i = 0; i < d.calls.size(); ++i)
                call_bundle(scratch.c(), need, 0x5a5a5a5a5a5a5a5aULL, d.calls[i]);
            for (size_t i = d.calls.size(); i-- > 0;) {
                std::vector<const char *> r(d.calls[i].rbegin(), d.calls[i].rend());
                call_bundle(scratch.c(), need, 0xa5a5a5a5a5a5a5a5ULL, r);
            }
        }
    }
    arena().reset();
}

// whole block as hex; an all-zero block of n > 0 bytes is written z<n>
inline std::string hexz(const unsigned char *p, size_t n) {
    if (n == 0) return "-";
    bool allz = true;
    for (size_t i = 0; i < n && allz; ++i) allz = p[i] == 0;
    if (allz) { std::ostringstream o; o << "z" << n; return o.str(); }
    return hex(p, n);
}

inline std::string h64(uint64_t v) {
    unsigned char b[8];
    for (int i = 0; i < 8; ++i) b[i] = (unsigned char)(v >> (56 - 8 * i));
    return hex(b, 8);
}
} // namespace vb
