// Shared by the engines `bundle` (C08) and `oscbuf` (C02): element trees on the op line,
// composing them bottom-up with the real rtosc_bundle, exact-size heap blocks, watchdog.
//
// Tree tokens (prefix order):   m<hex>                  a message, given as its bytes
//                               B<16 hex tt>:<n>:<cap>  a bundle of the next n trees, built by
//                                                       rtosc_bundle into a block of <cap> bytes
// Every message lives in an exact-size heap block; every (nested) bundle is built into a heap
// block of exactly <cap> bytes pre-filled with 0xAA and handed on as that whole block, so ASan
// sees any store behind `len` and any read behind the allocation.
#pragma once
#include "common.h"
#include <rtosc/rtosc.h>
#include <memory>
#include <sys/time.h>

namespace vb {
using namespace vh;

// One op line takes microseconds of CPU; two CPU-seconds mean a loop of the library does not
// terminate: SIGPROF kills the process, the runner records `crash:signal:27` for the line.
inline void arm_watchdog() {
    struct itimerval t = {{0, 0}, {2, 0}};
    setitimer(ITIMER_PROF, &t, NULL);
}

// heap block of exactly n bytes (n == 0: a pointer with no accessible byte behind it)
struct Block {
    unsigned char *base, *p;
    size_t n;
    Block(size_t n_, unsigned char fill) : n(n_) {
        if (n) { base = (unsigned char *)malloc(n); p = base; memset(p, fill, n); }
        else { base = (unsigned char *)malloc(8); p = base + 8; }
    }
    explicit Block(const bytes &b) : Block(b.size(), 0) { if (n) memcpy(p, b.data(), n); }
    ~Block() { free(base); }
    char *c() { return (char *)p; }
    Block(const Block &) = delete;
    Block &operator=(const Block &) = delete;
};

struct Node {
    bool is_bundle = false;
    bytes msg;
    uint64_t tt = 0;
    size_t cap = 0;
    std::vector<Node> kids;
};

inline bool parse_node(const std::vector<std::string> &w, size_t &i, Node &n, int depth = 0) {
    if (i >= w.size() || depth > 16) return false;
    const std::string &t = w[i++];
    if (t.empty()) return false;
    if (t[0] == 'm') { n.is_bundle = false; return unhex(t.substr(1), n.msg); }
    if (t[0] != 'B') return false;
    size_t c1 = t.find(':'), c2 = t.find(':', c1 == std::string::npos ? 0 : c1 + 1);
    if (c1 != 17 || c2 == std::string::npos) return false;
    bytes tb;
    if (!unhex(t.substr(1, 16), tb) || tb.size() != 8) return false;
    n.is_bundle = true;
    n.tt = 0;
    for (int k = 0; k < 8; ++k) n.tt = (n.tt << 8) | tb[k];
    long cnt = atol(t.substr(c1 + 1, c2 - c1 - 1).c_str());
    n.cap = (size_t)atoll(t.substr(c2 + 1).c_str());
    if (cnt < 0 || cnt > 8) return false;
    n.kids.resize((size_t)cnt);
    for (long k = 0; k < cnt; ++k)
        if (!parse_node(w, i, n.kids[(size_t)k], depth + 1)) return false;
    return true;
}

// rtosc_bundle is variadic: one literal call site per element count
inline size_t call_bundle(char *b, size_t len, uint64_t tt, const std::vector<const char *> &e) {
    switch (e.size()) {
    case 0: return rtosc_bundle(b, len, tt, 0);
    case 1: return rtosc_bundle(b, len, tt, 1, e[0]);
    case 2: return rtosc_bundle(b, len, tt, 2, e[0], e[1]);
    case 3: return rtosc_bundle(b, len, tt, 3, e[0], e[1], e[2]);
    case 4: return rtosc_bundle(b, len, tt, 4, e[0], e[1], e[2], e[3]);
    case 5: return rtosc_bundle(b, len, tt, 5, e[0], e[1], e[2], e[3], e[4]);
    case 6: return rtosc_bundle(b, len, tt, 6, e[0], e[1], e[2], e[3], e[4], e[5]);
    case 7: return rtosc_bundle(b, len, tt, 7, e[0], e[1], e[2], e[3], e[4], e[5], e[6]);
    case 8: return rtosc_bundle(b, len, tt, 8, e[0], e[1], e[2], e[3], e[4], e[5], e[6], e[7]);
    }
    return 0;
}

// the blocks of the children of a bundle node (each built bottom-up)
struct Kids {
    std::vector<std::unique_ptr<Block>> blocks;
    std::vector<const char *> ptrs;
};

inline std::unique_ptr<Block> build(const Node &n, size_t *ret);

inline void build_kids(const Node &n, Kids &k) {
    for (const Node &c : n.kids) {
        size_t r = 0;
        k.blocks.push_back(build(c, &r));
        k.ptrs.push_back(k.blocks.back()->c());
    }
}

inline std::unique_ptr<Block> build(const Node &n, size_t *ret) {
    if (!n.is_bundle) {
        *ret = n.msg.size();
        return std::unique_ptr<Block>(new Block(n.msg));
    }
    Kids k;
    build_kids(n, k);
    std::unique_ptr<Block> dst(new Block(n.cap, 0xAA));
    *ret = call_bundle(dst->c(), n.cap, n.tt, k.ptrs);
    return dst;
}

// whole block as hex; an all-zero block of n > 0 bytes is written z<n>
inline std::string hexz(const unsigned char *p, size_t n) {
    if (n == 0) return "-";
    bool allz = true;
    for (size_t i = 0; i < n && allz; ++i) allz = p[i] == 0;
    if (allz) { std::ostringstream o; o << "z" << n; return o.str(); }
    return hex(p, n);
}

inline std::string h64(uint64_t v) {
    unsigned char b[8];
    for (int i = 0; i < 8; ++i) b[i] = (unsigned char)(v >> (56 - 8 * i));
    return hex(b, 8);
}
} // namespace vb
