/* C07, input generator only: libFuzzer target over the functions that face untrusted bytes.
 * tools/props/c07.py builds it from the working tree with clang -fsanitize=fuzzer,address and
 * feeds the coverage-increasing inputs libFuzzer collects (and any crash/timeout artifact) into
 * the correspondence check of engine `valid`.  Nothing is decided here. */
#include <stdint.h>
#include <stddef.h>
#include <rtosc/rtosc.h>

int LLVMFuzzerTestOneInput(const uint8_t *d, size_t n)
{
    const char *m = (const char *)d;
    rtosc_message_length(m, n);
    if(rtosc_valid_message_p(m, n)) {
        unsigned k = rtosc_narguments(m);
        for(unsigned i = 0; i < k; ++i) {
            rtosc_type(m, i);
            rtosc_argument(m, i);
        }
        rtosc_arg_itr_t it = rtosc_itr_begin(m);
        while(!rtosc_itr_end(it))
            rtosc_itr_next(&it);
    }
    return 0;
}
