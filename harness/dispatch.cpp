// Engine `dispatch` (C04).  Line protocol: see lean/Driver/DispatchEngine.lean.
//
//   D <table> <locsize> <msg>;<msg>;...  [ignored]
//
// The table is built dynamically: a subclass of rtosc::Ports (`Ports({})`, push_back,
// the protected refreshMagic()), names in exact-size heap blocks, sub-tables nested.
// `T<d>c[` / `T<d>m[`: the table that is dispatched is a copy built by the library's own
// ClonePorts (each port with its callback, the default handler as "*") resp. MergePorts
// (first half + second half) constructor — only used for tables with pairwise different names.
// Callbacks are plain logging callbacks (the sugar callbacks dereference data.loc and
// cannot be dispatched without a location buffer):
//   * a port without sub-table logs what it was handed;
//   * a port with a sub-table logs and then does what rRecurCb does:
//       data.obj = <child object>; SNIP; <child table>.dispatch(msg, data);
//   * a default handler logs.
// Every message is dispatched twice on fresh RtData objects: with a location buffer of
// <locsize> bytes (exact-size heap block) and without.
// Only observables are printed (callback log, loc, port, matches) — never the hash tables.
#include "common.h"
#include <rtosc/rtosc.h>
#include <rtosc/ports.h>
#include <rtosc/port-sugar.h>
#include <memory>
#include <functional>
using namespace vh;

static const size_t SLACK = 32;

struct Log { std::string s; bool first = true; const char *base = nullptr; };

struct TNode;
struct DynPorts : rtosc::Ports {
    DynPorts() : rtosc::Ports({}) {}
    void rebuild() { refreshMagic(); }
};
struct TNode {
    DynPorts ports;                            // the table as written in the op line
    // the table that is dispatched: `ports` itself, or a copy of it built by the library's
    // ClonePorts / MergePorts constructors (which rebuild the lookup tables)
    std::unique_ptr<rtosc::Ports> built;
    DynPorts half1, half2;
    rtosc::Ports *use = nullptr;
    std::string path;                          // "r" for the root, else indices joined by '.'
    std::vector<std::unique_ptr<TNode>> kids;
    std::vector<std::unique_ptr<Exact>> names;
};

// ClonePorts takes a std::initializer_list: build one of run-time length n <= 32
template <size_t... I> struct iseq {};
template <size_t N, size_t... I> struct gen_iseq : gen_iseq<N - 1, N - 1, I...> {};
template <size_t... I> struct gen_iseq<0, I...> { typedef iseq<I...> type; };
template <size_t... I>
static rtosc::Ports *clone_n(const rtosc::Ports &src, const std::vector<rtosc::ClonePort> &v, iseq<I...>) {
    return new rtosc::ClonePorts(src, {v[I]...});
}
template <size_t N> static rtosc::Ports *clone_sw(const rtosc::Ports &src, const std::vector<rtosc::ClonePort> &v) {
    if (v.size() == N) return clone_n(src, v, typename gen_iseq<N>::type());
    return clone_sw<N - 1>(src, v);
}
template <> rtosc::Ports *clone_sw<0>(const rtosc::Ports &src, const std::vector<rtosc::ClonePort> &v) {
    (void)v;
    return new rtosc::ClonePorts(src, {});
}

static Log *g_log = nullptr;

static TNode *g_root = nullptr;

// the path of the port a pointer designates (searched in the whole tree), "" if none
static std::string port_path(const rtosc::Port *p, TNode *t) {
    for (size_t i = 0; i < t->use->ports.size(); ++i)
        if (&t->use->ports[i] == p)
            return (t->path == "r" ? std::string("") : t->path + ".") + std::to_string(i);
    for (auto &k : t->kids) {
        if (!k) continue;
        std::string r = port_path(p, k.get());
        if (!r.empty()) return r;
    }
    return "";
}
static std::string show_port(const rtosc::Port *p) {
    if (!p) return "-";
    std::string r = port_path(p, g_root);
    return "P" + (r.empty() ? std::string("?") : r);
}

static void log_call(char kind, const std::string &who, const char *m, rtosc::RtData &d) {
    Log &L = *g_log;
    if (!L.first) L.s += ";";
    L.first = false;
    L.s += kind;
    L.s += who;
    L.s += "@" + std::to_string((long)(m - L.base)) + ",";
    L.s += d.loc ? hexs(d.loc) : std::string("NULL");
    L.s += ",";
    L.s += d.obj ? ((TNode *)d.obj)->path : std::string("?");
    L.s += ",";
    L.s += show_port(d.port);
}

// parse T<d>[entry,...]; returns position behind the table or npos
static size_t parse_table(const std::string &s, size_t i, TNode &t, const std::string &path) {
    t.path = path;
    if (i + 2 >= s.size() || s[i] != 'T') return std::string::npos;
    bool dflt = s[i + 1] == '1';
    char mode = 'd';                           // d: as written, c: via ClonePorts, m: via MergePorts
    i += 2;
    if (s[i] == 'c' || s[i] == 'm') mode = s[i++];
    if (i >= s.size() || s[i] != '[') return std::string::npos;
    ++i;
    size_t idx = 0;
    while (i < s.size() && s[i] != ']') {
        if (s[i] == ',') { ++i; continue; }
        char k = s[i++];
        if (k != 'L' && k != 'N') return std::string::npos;
        size_t j = i;
        while (j < s.size() && hexval(s[j]) >= 0) ++j;
        std::string hx = s.substr(i, j - i);
        if (hx.empty() && j < s.size() && s[j] == '-') { hx = "-"; ++j; }
        bytes nm;
        if (!unhex(hx, nm)) return std::string::npos;
        nm.push_back(0);
        t.names.emplace_back(new Exact(nm));
        const char *name = t.names.back()->c();
        std::string ppath = (path == "r" ? std::string("") : path + ".") + std::to_string(idx);
        i = j;
        if (k == 'L') {
            t.kids.emplace_back(nullptr);
            t.ports.ports.push_back({name, "", nullptr,
                [ppath](const char *m, rtosc::RtData &d) { log_call('P', ppath, m, d); }});
        } else {
            std::unique_ptr<TNode> child(new TNode);
            i = parse_table(s, i, *child, ppath);
            if (i == std::string::npos) return i;
            TNode *c = child.get();
            t.kids.push_back(std::move(child));
            t.ports.ports.push_back({name, "", c->use,
                [ppath, c](const char *msg, rtosc::RtData &data) {
                    log_call('P', ppath, msg, data);
                    data.obj = c;
                    SNIP
                    c->use->dispatch(msg, data);
                }});
        }
        ++idx;
    }
    if (i >= s.size()) return std::string::npos;
    std::string tp = path;
    std::function<void(const char *, rtosc::RtData &)> dcb =
        [tp](const char *m, rtosc::RtData &d) { log_call('D', tp, m, d); };
    t.use = &t.ports;
    if (mode == 'c' && t.ports.ports.size() <= 31) {
        // ClonePorts(src, {{name, cb}..., {"*", default handler}})
        std::vector<rtosc::ClonePort> v;
        for (auto &p : t.ports.ports) v.push_back({p.name, p.cb});
        if (dflt) v.push_back({"*", dcb});
        t.ports.rebuild();
        t.built.reset(clone_sw<32>(t.ports, v));
        t.use = t.built.get();
    } else if (mode == 'm') {
        // MergePorts({&first half, &second half})
        size_t h = t.ports.ports.size() / 2;
        for (size_t j = 0; j < t.ports.ports.size(); ++j)
            (j < h ? t.half1 : t.half2).ports.push_back(t.ports.ports[j]);
        t.half1.rebuild();
        t.half2.rebuild();
        t.built.reset(new rtosc::MergePorts({&t.half1, &t.half2}));
        if (dflt) t.built->default_handler = dcb;
        t.use = t.built.get();
    } else {
        if (dflt) t.ports.default_handler = dcb;
        t.ports.rebuild();
    }
    return i + 1;
}

static bool known_tag(unsigned char t) { return t && strchr("ifcrmsSbhdtTFNI", t); }
static size_t zero_arg_size(unsigned char t) {
    if (strchr("ifcrmsSb", t)) return 4;
    if (strchr("hdt", t)) return 8;
    return 0;
}
// message for (address, tags) with all-zero arguments, followed by SLACK zero bytes
static void build_msg(const bytes &addr, const bytes &tags, bytes &out) {
    size_t n = addr.size() + (4 - addr.size() % 4);
    n += 1 + tags.size();
    n += 4 - n % 4;
    bool all_known = true;
    for (unsigned char t : tags) { n += zero_arg_size(t); all_known &= known_tag(t); }
    out.assign(n + SLACK, 0);
    bool plain = true;
    for (unsigned char c : addr) if (!c) plain = false;
    if (all_known && plain) {
        std::string a((const char *)addr.data(), addr.size()), t((const char *)tags.data(), tags.size());
        std::vector<rtosc_arg_t> av(tags.size() + 1);
        static unsigned char dummy = 0;
        for (size_t i = 0, j = 0; i < tags.size(); ++i) {
            rtosc_arg_t x;
            memset(&x, 0, sizeof(x));
            if (tags[i] == 's' || tags[i] == 'S') x.s = "";
            if (tags[i] == 'b') { x.b.len = 0; x.b.data = &dummy; }
            if (zero_arg_size(tags[i])) av[j++] = x;
        }
        size_t got = rtosc_amessage((char *)out.data(), n, a.c_str(), t.c_str(), av.data());
        if (got != n) { fprintf(stderr, "rtosc_amessage wrote %zu, expected %zu\n", got, n); abort(); }
    } else {
        if (!addr.empty()) memcpy(out.data(), addr.data(), addr.size());
        size_t p = addr.size() + (4 - addr.size() % 4);
        out[p] = ',';
        if (!tags.empty()) memcpy(out.data() + p + 1, tags.data(), tags.size());
    }
}

static std::string one_msg(TNode &root, size_t locsize, const std::string &tok) {
    if (tok.size() < 2) return "bad-msg";
    bool base = tok[0] == 'B';
    size_t colon = tok.find(':');
    if (colon == std::string::npos) return "bad-msg";
    bytes addr, tags;
    if (!unhex(tok.substr(1, colon - 1), addr) || !unhex(tok.substr(colon + 1), tags)) return "bad-msg";
    bytes mb;
    build_msg(addr, tags, mb);
    Exact M(mb);
    std::string out;
    {   // with location buffer
        Exact L(locsize, base ? 0xAA : 0x00);
        rtosc::RtData d;
        d.loc = L.c();
        d.loc_size = locsize;
        d.obj = &root;
        d.port = nullptr;
        Log lg;
        lg.base = M.c();
        g_log = &lg;
        root.use->dispatch(M.c(), d, base);
        g_log = nullptr;
        out += "[" + lg.s + "]m" + std::to_string(d.matches) + "p" + show_port(d.port) + "l" + hexs(d.loc);
    }
    out += "/";
    {   // without
        rtosc::RtData d;
        d.loc = nullptr;
        d.loc_size = 0;
        d.obj = &root;
        d.port = nullptr;
        Log lg;
        lg.base = M.c();
        g_log = &lg;
        root.use->dispatch(M.c(), d, base);
        g_log = nullptr;
        out += "[" + lg.s + "]p" + show_port(d.port);
    }
    return out;
}

static std::string op_D(const std::vector<std::string> &w) {
    if (w.size() < 4) return "bad-op";
    TNode root;
    g_root = &root;
    size_t e = parse_table(w[1], 0, root, "r");
    if (e != w[1].size()) return "bad-op";
    size_t locsize = (size_t)atol(w[2].c_str());
    std::string out;
    std::istringstream is(w[3]);
    std::string tok;
    bool first = true;
    while (std::getline(is, tok, ';')) {
        if (!first) out += "|";
        first = false;
        out += one_msg(root, locsize, tok);
    }
    return out;
}

static std::string step(const std::string &line) {
    auto w = words(line);
    if (w.empty()) return "bad-op";
    if (w[0] == "D") return op_D(w);
    return "bad-op";
}
int main(int argc, char **argv) { return run_lines(argc, argv, step); }
