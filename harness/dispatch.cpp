// Engine `dispatch` (C04).  Line protocol: see lean/Driver/DispatchEngine.lean.
//
//   D <table> <locsize>+<slack> <msg>;<msg>;...  [ignored]
//   R <table> <locsize>+<slack> <msg>;<msg>;...  [ignored]
//
// D: the table is built dynamically: a subclass of rtosc::Ports (`Ports({})`, push_back,
// the protected refreshMagic()), names in exact-size heap blocks, sub-tables nested.
//   T<d>c[src]{i.j...}: the table that is dispatched is built by the library's ClonePorts from
//     the source table `src` and the clone list {{src[i].name, cb}, {src[j].name, cb}, ...}
//     (+ {"*", default handler} for d = 1).  The callbacks of the clone list are the logging
//     callbacks `P<position in the clone list>`; the ports (and the default handler) of the
//     SOURCE table have callbacks of their own kind (`X...`) that must never be invoked.
//   T<d>m[all]{n1.n2...}: built by the library's MergePorts from the tables made of the
//     first n1, the next n2, ... entries.  A port that must be dropped (an earlier port has
//     the same name) has an `X` callback, the others log `P<position among the kept ones>`.
// Callbacks are plain logging callbacks:
//   * a port without sub-table logs what it was handed;
//   * a port with a sub-table logs and then does what rRecurCb does:
//       data.obj = <child object>; SNIP; <child table>.dispatch(msg, data);
//   * a default handler logs.
// R: a static tree built with the library's own recursion macros rRecur / rRecurs / rRecurp /
// rRecursp (port-sugar.h); only its ports without sub-table log, and they print the object
// they were handed as the chain of (port index, element index) that leads to it.
// Every message is dispatched twice: with a location buffer of <locsize> bytes (exact-size heap
// block) and without.  `<locsize>+<slack>`: on fresh RtData objects for every message;
// `<locsize>+<slack>+k`: the two RtData objects (and the location buffer) are set up once, before the
// first message of the line, and used for all of them — the line is an operation history on one
// RtData: what a dispatch leaves behind in it (d.obj, d.port, d.loc, d.matches) is what the next
// one starts with.  d.obj after each dispatch is printed (`o<object>`).  The message lives in an
// exact-size block of message size + <slack> bytes: a fresh heap block, or - on the `+k` lines - at one
// and the same address for all messages of the line (MsgArena below).
// Only observables are printed, in canonical form (see the driver) — never the hash tables.
#include "common.h"
#include <rtosc/rtosc.h>
#include <rtosc/ports.h>
#include <rtosc/port-sugar.h>
#include <memory>
#include <functional>
#include <algorithm>
#include <cstdarg>
#if defined(__SANITIZE_ADDRESS__)
#define VD_ASAN 1
#elif defined(__has_feature)
#if __has_feature(address_sanitizer)
#define VD_ASAN 1
#endif
#endif
#ifdef VD_ASAN
#include <sanitizer/asan_interface.h>
#define VD_POISON(p, n) __asan_poison_memory_region((p), (n))
#define VD_UNPOISON(p, n) __asan_unpoison_memory_region((p), (n))
#else
#define VD_POISON(p, n) ((void)0)
#define VD_UNPOISON(p, n) ((void)0)
#endif
using namespace vh;

// The messages of a `+k` line (operation history) all live at ONE address: malloc never hands out the
// same address twice while ASan's quarantine is filling, so code that remembers something about a
// message *by its address* (a cache keyed on the message pointer) would never be caught with heap
// blocks.  The region is poisoned except for the exact bytes of the current message (8-aligned start,
// as in harness/bundle_common.h): an access outside it is reported as `use-after-poison`.
struct MsgArena {
    unsigned char *base = nullptr;
    size_t size = 1 << 16;
    char *place(const bytes &mb) {
        if (!base) base = (unsigned char *)malloc(size);
        if (mb.size() + 256 > size) return nullptr;      // does not fit: the caller uses a heap block
        VD_POISON(base, size);
        unsigned char *at = (unsigned char *)(((uintptr_t)base + 128 + 7) & ~(uintptr_t)7);
        VD_UNPOISON(at, mb.size());
        memcpy(at, mb.data(), mb.size());
        return (char *)at;
    }
    void close() { if (base) VD_POISON(base, size); }
};
static MsgArena &msg_arena() { static MsgArena a; return a; }

struct Log {
    std::vector<std::string> calls;
    const char *base = nullptr;
    bool sugar = false;
};
static Log *g_log = nullptr;

// ---------------------------------------------------------------------------------------
// D: dynamic tables
// ---------------------------------------------------------------------------------------
struct Ast;
struct AEntry { bool node = false; bytes name; std::unique_ptr<Ast> child; };
struct Ast { bool dflt = false; char mode = 'd'; std::vector<AEntry> es; std::vector<size_t> nums; };

struct DynPorts : rtosc::Ports {
    DynPorts() : rtosc::Ports({}) {}
    void rebuild() { refreshMagic(); }
};
struct TNode {
    DynPorts src;                              // mode d: the table; mode c: the source table
    std::vector<std::unique_ptr<DynPorts>> parts;   // mode m: the tables that are merged
    std::unique_ptr<rtosc::Ports> built;       // what ClonePorts / MergePorts made
    rtosc::Ports *use = nullptr;               // the table that is dispatched
    std::string path;                          // "r" for the root, else indices joined by '.'
    std::vector<std::unique_ptr<TNode>> kids;
    std::vector<std::unique_ptr<Exact>> names;
};

// ClonePorts takes a std::initializer_list: build one of run-time length n <= 32
template <size_t... I> struct iseq {};
template <size_t N, size_t... I> struct gen_iseq : gen_iseq<N - 1, N - 1, I...> {};
template <size_t... I> struct gen_iseq<0, I...> { typedef iseq<I...> type; };
template <size_t... I>
static rtosc::Ports *clone_n(const rtosc::Ports &src, const std::vector<rtosc::ClonePort> &v, iseq<I...>) {
    return new rtosc::ClonePorts(src, {v[I]...});
}
template <size_t N> static rtosc::Ports *clone_sw(const rtosc::Ports &src, const std::vector<rtosc::ClonePort> &v) {
    if (v.size() == N) return clone_n(src, v, typename gen_iseq<N>::type());
    return clone_sw<N - 1>(src, v);
}
template <> rtosc::Ports *clone_sw<0>(const rtosc::Ports &src, const std::vector<rtosc::ClonePort> &v) {
    (void)v;
    return new rtosc::ClonePorts(src, {});
}

static TNode *g_root = nullptr;

// the path of the port a pointer designates (searched in the whole tree), "" if none
static std::string port_path(const rtosc::Port *p, TNode *t) {
    for (size_t i = 0; i < t->use->ports.size(); ++i)
        if (&t->use->ports[i] == p)
            return (t->path == "r" ? std::string("") : t->path + ".") + std::to_string(i);
    for (auto &k : t->kids) {
        if (!k) continue;
        std::string r = port_path(p, k.get());
        if (!r.empty()) return r;
    }
    return "";
}
static std::string show_port(const rtosc::Port *p) {
    if (!p) return "-";
    std::string r = port_path(p, g_root);
    return "P" + (r.empty() ? std::string("?") : r);
}

static std::string strip_slash(std::string hex) {
    if (hex.size() >= 2 && hex.compare(hex.size() - 2, 2, "2f") == 0) hex.erase(hex.size() - 2);
    return hex.empty() ? std::string("-") : hex;
}

// kind: P port, D default handler, X a callback that belongs to a source table
static void log_call(char kind, const std::string &who, const char *m, rtosc::RtData &d, bool node) {
    Log &L = *g_log;
    std::string s;
    s += kind;
    s += who;
    s += "@" + std::to_string((long)(m - L.base)) + ",";
    if (!d.loc) s += "NULL";
    else s += node ? strip_slash(hexs(d.loc)) : hexs(d.loc);
    s += ",";
    s += d.obj ? ((TNode *)d.obj)->path : std::string("?");
    s += ",";
    s += kind == 'D' ? std::string("*") : show_port(d.port);
    L.calls.push_back(s);
}

static bool parse_nums(const std::string &s, size_t &i, std::vector<size_t> &out) {
    if (i >= s.size() || s[i] != '{') return false;
    ++i;
    while (i < s.size() && s[i] != '}') {
        if (s[i] == '.') { ++i; continue; }
        if (!isdigit((unsigned char)s[i])) return false;
        size_t v = 0;
        while (i < s.size() && isdigit((unsigned char)s[i])) v = v * 10 + (s[i++] - '0');
        out.push_back(v);
    }
    if (i >= s.size()) return false;
    ++i;
    return true;
}

// parse T<d>[c|m][entry,...][{...}]; returns position behind the table or npos
static size_t parse_ast(const std::string &s, size_t i, Ast &a) {
    if (i + 2 >= s.size() || s[i] != 'T') return std::string::npos;
    a.dflt = s[i + 1] == '1';
    i += 2;
    if (s[i] == 'c' || s[i] == 'm') a.mode = s[i++];
    if (i >= s.size() || s[i] != '[') return std::string::npos;
    ++i;
    while (i < s.size() && s[i] != ']') {
        if (s[i] == ',') { ++i; continue; }
        char k = s[i++];
        if (k != 'L' && k != 'N') return std::string::npos;
        size_t j = i;
        while (j < s.size() && hexval(s[j]) >= 0) ++j;
        std::string hx = s.substr(i, j - i);
        if (hx.empty() && j < s.size() && s[j] == '-') { hx = "-"; ++j; }
        AEntry e;
        if (!unhex(hx, e.name)) return std::string::npos;
        i = j;
        if (k == 'N') {
            e.node = true;
            e.child.reset(new Ast);
            i = parse_ast(s, i, *e.child);
            if (i == std::string::npos) return i;
        }
        a.es.push_back(std::move(e));
    }
    if (i >= s.size()) return std::string::npos;
    ++i;
    if (a.mode != 'd' && !parse_nums(s, i, a.nums)) return std::string::npos;
    return i;
}

static std::string join_path(const std::string &path, size_t i) {
    return (path == "r" ? std::string("") : path + ".") + std::to_string(i);
}

typedef std::function<void(const char *, rtosc::RtData &)> cb_t;

static cb_t leaf_cb(char kind, const std::string &who) {
    return [kind, who](const char *m, rtosc::RtData &d) { log_call(kind, who, m, d, false); };
}
static cb_t node_cb(const std::string &who, TNode *c) {
    return [who, c](const char *msg, rtosc::RtData &data) {
        log_call('P', who, msg, data, true);
        data.obj = c;
        SNIP
        c->use->dispatch(msg, data);
    };
}

static bool build(const Ast &a, TNode &t, const std::string &path) {
    t.path = path;
    size_t n = a.es.size();
    // where each entry is expected in the table that is dispatched (-1: nowhere) — the
    // documented behaviour of the two constructors, computed here independently
    std::vector<long> res(n, -1);
    if (a.mode == 'd') {
        for (size_t i = 0; i < n; ++i) res[i] = (long)i;
    } else if (a.mode == 'c') {
        if (a.nums.size() > 31) return false;
        for (size_t r = 0; r < a.nums.size(); ++r) {
            size_t k = a.nums[r];
            if (k >= n) return false;
            size_t j = k;                      // the port ClonePorts picks: the last one with that name
            for (size_t q = 0; q < n; ++q) if (a.es[q].name == a.es[k].name) j = q;
            if (res[j] != -1) return false;
            res[j] = (long)r;
        }
    } else {
        size_t sum = 0;
        for (size_t v : a.nums) sum += v;
        if (sum != n || a.nums.empty() || a.nums.size() > 3) return false;
        long kept = 0;
        for (size_t i = 0; i < n; ++i) {
            bool dup = false;
            for (size_t q = 0; q < i; ++q) if (res[q] != -1 && a.es[q].name == a.es[i].name) dup = true;
            if (!dup) res[i] = kept++;
        }
    }
    std::vector<cb_t> cbs(n);
    std::vector<rtosc::Ports *> subs(n, nullptr);
    for (size_t i = 0; i < n; ++i) {
        bytes nm = a.es[i].name;
        nm.push_back(0);
        t.names.emplace_back(new Exact(nm));
        std::string ppath = res[i] >= 0 ? join_path(path, (size_t)res[i]) : "x" + join_path(path, i);
        if (a.es[i].node) {
            std::unique_ptr<TNode> child(new TNode);
            if (!build(*a.es[i].child, *child, ppath)) return false;
            subs[i] = child->use;
            cbs[i] = res[i] >= 0 ? node_cb(ppath, child.get()) : leaf_cb('X', join_path(path, i));
            t.kids.push_back(std::move(child));
        } else {
            t.kids.emplace_back(nullptr);
            cbs[i] = leaf_cb(res[i] >= 0 ? 'P' : 'X', res[i] >= 0 ? ppath : join_path(path, i));
        }
    }
    cb_t dcb = [path](const char *m, rtosc::RtData &d) { log_call('D', path, m, d, false); };
    if (a.mode == 'd') {
        for (size_t i = 0; i < n; ++i) t.src.ports.push_back({t.names[i]->c(), "", subs[i], cbs[i]});
        if (a.dflt) t.src.default_handler = dcb;
        t.src.rebuild();
        t.use = &t.src;
    } else if (a.mode == 'c') {
        // the source: every callback is a source callback
        for (size_t i = 0; i < n; ++i)
            t.src.ports.push_back({t.names[i]->c(), "", subs[i], leaf_cb('X', join_path(path, i))});
        t.src.default_handler = leaf_cb('X', path + "d");
        t.src.rebuild();
        std::vector<rtosc::ClonePort> v;
        for (size_t r = 0; r < a.nums.size(); ++r) {
            size_t j = 0;
            for (size_t q = 0; q < n; ++q) if (res[q] == (long)r) j = q;
            // the name is handed over as a string of its own, not the source's pointer
            bytes cn = a.es[a.nums[r]].name;
            cn.push_back(0);
            t.names.emplace_back(new Exact(cn));
            v.push_back({t.names.back()->c(), cbs[j]});
        }
        if (a.dflt) v.push_back({"*", dcb});
        t.built.reset(clone_sw<32>(t.src, v));
        t.use = t.built.get();
    } else {
        size_t at = 0;
        for (size_t v : a.nums) {
            t.parts.emplace_back(new DynPorts);
            for (size_t q = 0; q < v; ++q, ++at)
                t.parts.back()->ports.push_back({t.names[at]->c(), "", subs[at], cbs[at]});
            t.parts.back()->default_handler = leaf_cb('X', path + "d");
            t.parts.back()->rebuild();
        }
        if (t.parts.size() == 1) t.built.reset(new rtosc::MergePorts({t.parts[0].get()}));
        else if (t.parts.size() == 2) t.built.reset(new rtosc::MergePorts({t.parts[0].get(), t.parts[1].get()}));
        else t.built.reset(new rtosc::MergePorts({t.parts[0].get(), t.parts[1].get(), t.parts[2].get()}));
        if (a.dflt) t.built->default_handler = dcb;
        t.use = t.built.get();
    }
    return true;
}

// ---------------------------------------------------------------------------------------
// R: the static tree made with the library's recursion macros
// ---------------------------------------------------------------------------------------
struct SLeaf { int level; static const rtosc::Ports ports; };
struct SMid {
    int pad0;                                  // no member shares the address of its object
    SLeaf one; SLeaf op2s[3]; SLeaf *ptr; SLeaf *lfo1p[2]; int self;    // member names with digits: the
                                               // element index is the number behind the name's '#', not the
                                               // first number of the address
    static const rtosc::Ports ports;
};
struct STop {
    int pad0;
    SMid mid; SMid mids[4]; SMid *pm; SMid *pm2s[2]; SLeaf v9[12]; int top;
    static const rtosc::Ports ports;
};

// every object of the tree with the chain (port index[#element]) that leads to it
static std::vector<std::pair<const void *, std::string>> g_objs;
static std::string obj_chain(const void *p) {
    for (auto &o : g_objs) if (o.first == p) return o.second;
    return "?";
}
// "2#1.4#0" -> "2.4"
static std::string strip_idx(const std::string &s) {
    std::string r;
    bool skip = false;
    for (char c : s) {
        if (c == '#') skip = true;
        else if (c == '.') skip = false;
        if (!skip) r += c;
    }
    return r;
}
static void sugar_log(const rtosc::Ports *tab, rtosc::RtData &d) {
    Log &L = *g_log;
    std::string obj = obj_chain(d.obj);
    // which port of its table: the one d.port designates
    long idx = -1;
    for (size_t i = 0; i < tab->ports.size(); ++i) if (&tab->ports[i] == d.port) idx = (long)i;
    std::string who = (obj == "r" ? std::string("") : strip_idx(obj) + ".") + (idx < 0 ? std::string("?") : std::to_string(idx));
    std::string s = "P" + who + "@-,";
    s += d.loc ? hexs(d.loc) : std::string("NULL");
    s += "," + obj + ",P" + who;
    L.calls.push_back(s);
}
template <int K> static void sleaf_cb(const char *, rtosc::RtData &d) { (void)K; sugar_log(&SLeaf::ports, d); }
const rtosc::Ports SLeaf::ports = {
    {"level:", "", nullptr, sleaf_cb<0>},
    {"pan::i", "", nullptr, sleaf_cb<1>},
    {"detunevalue", "", nullptr, sleaf_cb<2>},
    {"x", "", nullptr, sleaf_cb<3>},
};
#define rObject SMid
const rtosc::Ports SMid::ports = {
    rRecur(one, "d"),
    rRecurs(op2s, 3, "d"),
    rRecurp(ptr, "d"),
    rRecursp(lfo1p, 2, "d"),
    {"self", "", nullptr, [](const char *, rtosc::RtData &d) { sugar_log(&SMid::ports, d); }},
};
#undef rObject
#define rObject STop
const rtosc::Ports STop::ports = {
    rRecur(mid, "d"),
    rRecurs(mids, 4, "d"),
    rRecurp(pm, "d"),
    rRecursp(pm2s, 2, "d"),
    rRecurs(v9, 12, "d"),
    {"top:", "", nullptr, [](const char *, rtosc::RtData &d) { sugar_log(&STop::ports, d); }},
};
#undef rObject

// the callbacks of the "name:" ports of rRecur (rRecurPtrCb) answer through RtData::reply
struct SugarData : rtosc::RtData {
    const rtosc::Ports *table_of_port() {
        for (const rtosc::Ports *t : {&STop::ports, &SMid::ports, &SLeaf::ports})
            for (auto &p : t->ports) if (&p == port) return t;
        return &STop::ports;
    }
    void reply(const char *, const char *, ...) override { sugar_log(table_of_port(), *this); }
    void reply(const char *) override { sugar_log(table_of_port(), *this); }
};

struct SWorld {
    STop top;
    SMid xm[3];                                // *pm, *pm2s[0], *pm2s[1]
    SLeaf xl[8 * 3];                           // per SMid: *ptr, *lfo1p[0], *lfo1p[1]
    size_t nl = 0;
    void reg_leaf(SLeaf *l, const std::string &c) { g_objs.push_back({l, c}); }
    void reg_mid(SMid *m, const std::string &c) {
        g_objs.push_back({m, c});
        // port indices of SMid::ports: 0 one/  1 one:  2 op2s#3/  3 ptr/  4 lfo1p#2/  5 self
        reg_leaf(&m->one, c + ".0");
        for (int k = 0; k < 3; ++k) reg_leaf(&m->op2s[k], c + ".2#" + std::to_string(k));
        m->ptr = &xl[nl++];
        reg_leaf(m->ptr, c + ".3");
        for (int k = 0; k < 2; ++k) { m->lfo1p[k] = &xl[nl++]; reg_leaf(m->lfo1p[k], c + ".4#" + std::to_string(k)); }
    }
    SWorld() {
        g_objs.push_back({&top, "r"});
        // port indices of STop::ports: 0 mid/  1 mid:  2 mids#4/  3 pm/  4 pm2s#2/  5 v9#12/  6 top:
        reg_mid(&top.mid, "0");
        for (int k = 0; k < 4; ++k) reg_mid(&top.mids[k], "2#" + std::to_string(k));
        top.pm = &xm[0];
        reg_mid(top.pm, "3");
        for (int k = 0; k < 2; ++k) { top.pm2s[k] = &xm[1 + k]; reg_mid(top.pm2s[k], "4#" + std::to_string(k)); }
        for (int k = 0; k < 12; ++k) reg_leaf(&top.v9[k], "5#" + std::to_string(k));
    }
};
static SWorld *g_world = nullptr;

static std::string ports_token(const rtosc::Ports &p) {
    std::string s = "T0[";
    bool first = true;
    for (auto &q : p.ports) {
        if (!first) s += ",";
        first = false;
        s += q.ports ? "N" : "L";
        s += hexs(q.name);
        if (q.ports) s += ports_token(*q.ports);
    }
    return s + "]";
}

// ---------------------------------------------------------------------------------------
// messages
// ---------------------------------------------------------------------------------------
static bool known_tag(unsigned char t) { return t && strchr("ifcrmsSbhdtTFNI", t); }
static size_t zero_arg_size(unsigned char t) {
    if (strchr("ifcrmsSb", t)) return 4;
    if (strchr("hdt", t)) return 8;
    return 0;
}
// message for (address, tags) with all-zero arguments, followed by `slack` zero bytes
static void build_msg(const bytes &addr, const bytes &tags, size_t slack, bytes &out) {
    size_t n = addr.size() + (4 - addr.size() % 4);
    n += 1 + tags.size();
    n += 4 - n % 4;
    bool all_known = true;
    for (unsigned char t : tags) { n += zero_arg_size(t); all_known &= known_tag(t); }
    out.assign(n + slack, 0);
    bool plain = true;
    for (unsigned char c : addr) if (!c) plain = false;
    if (all_known && plain) {
        std::string a((const char *)addr.data(), addr.size()), t((const char *)tags.data(), tags.size());
        std::vector<rtosc_arg_t> av(tags.size() + 1);
        static unsigned char dummy = 0;
        for (size_t i = 0, j = 0; i < tags.size(); ++i) {
            rtosc_arg_t x;
            memset(&x, 0, sizeof(x));
            if (tags[i] == 's' || tags[i] == 'S') x.s = "";
            if (tags[i] == 'b') { x.b.len = 0; x.b.data = &dummy; }
            if (zero_arg_size(tags[i])) av[j++] = x;
        }
        size_t got = rtosc_amessage((char *)out.data(), n, a.c_str(), t.c_str(), av.data());
        if (got != n) { fprintf(stderr, "rtosc_amessage wrote %zu, expected %zu\n", got, n); abort(); }
    } else {
        if (!addr.empty()) memcpy(out.data(), addr.data(), addr.size());
        size_t p = addr.size() + (4 - addr.size() % 4);
        out[p] = ',';
        if (!tags.empty()) memcpy(out.data() + p + 1, tags.data(), tags.size());
    }
}

static std::string show_calls(Log &lg) {
    std::sort(lg.calls.begin(), lg.calls.end());
    std::string s = "[";
    for (size_t i = 0; i < lg.calls.size(); ++i) s += (i ? ";" : "") + lg.calls[i];
    return s + "]";
}
static std::string final_loc(const char *loc) {
    if (!strcmp(loc, "") || !strcmp(loc, "/")) return "ok";
    return hexs(loc);
}

// the two RtData objects a message is dispatched with.  keep = false: fresh ones for every message;
// keep = true: made once per op line (d.obj, d.port, d.loc set before the first message, as an
// application does that sets up its RtData once) and used for every message of the line
template <class Data>
struct Pair {
    std::unique_ptr<Exact> L;
    std::unique_ptr<Data> dl, dn;
    void fresh(void *rootobj, size_t locsize, bool base) {
        L.reset(new Exact(locsize, base ? 0xAA : 0x00));
        dl.reset(new Data);
        dl->loc = L->c();
        dl->loc_size = locsize;
        dl->obj = rootobj;
        dl->port = nullptr;
        dn.reset(new Data);
        dn->loc = nullptr;
        dn->loc_size = 0;
        dn->obj = rootobj;
        dn->port = nullptr;
    }
};
static std::string show_obj_after(bool sugar, void *obj);

template <class Data>
static std::string one_msg(const rtosc::Ports &ports, void *rootobj, bool sugar, size_t locsize, size_t slack, const std::string &tok,
                           bool keep, Pair<Data> &pr) {
    if (tok.size() < 2) return "bad-msg";
    bool base = tok[0] == 'B';
    size_t colon = tok.find(':');
    if (colon == std::string::npos) return "bad-msg";
    bytes addr, tags;
    if (!unhex(tok.substr(1, colon - 1), addr) || !unhex(tok.substr(colon + 1), tags)) return "bad-msg";
    bytes mb;
    build_msg(addr, tags, slack, mb);
    // fresh RtData: a fresh exact-size heap block; a history on one RtData: every message at the same address
    std::unique_ptr<Exact> Mheap;
    char *mp = keep ? msg_arena().place(mb) : nullptr;
    if (!mp) { Mheap.reset(new Exact(mb)); mp = Mheap->c(); }
    struct Closer { bool on; ~Closer() { if (on) msg_arena().close(); } } closer{keep};
    if (!keep || !pr.dl) pr.fresh(rootobj, locsize, base);
    std::string out;
    {   // with location buffer
        Data &d = *pr.dl;
        Log lg;
        lg.base = mp;
        lg.sugar = sugar;
        g_log = &lg;
        ports.dispatch(mp, d, base);
        g_log = nullptr;
        // the statement speaks of the match count and of loc after a ROOT dispatch only, and of d.port as a
        // callback sees it: what a dispatch leaves in d.port is not printed (`p*`), d.matches and d.loc of a
        // non-base dispatch neither (`m*`, `l*`)
        out += show_calls(lg) + "m" + (base ? std::to_string(d.matches) : std::string("*")) + "p*l" +
               (base ? final_loc(d.loc) : std::string("*")) + "o" + show_obj_after(sugar, d.obj);
    }
    out += "/";
    {   // without
        Data &d = *pr.dn;
        Log lg;
        lg.base = mp;
        lg.sugar = sugar;
        g_log = &lg;
        ports.dispatch(mp, d, base);
        g_log = nullptr;
        out += show_calls(lg) + "p*o" + show_obj_after(sugar, d.obj);
    }
    return out;
}

// d.obj after the dispatch: the path of the table object (D) / the chain of the object (R)
static std::string show_obj_after(bool sugar, void *obj) {
    if (!obj) return "?";
    if (sugar) return obj_chain(obj);
    return ((TNode *)obj)->path;
}

// <locsize>+<slack>[+k]: a third field `k` = the RtData objects are kept for the whole line
static bool parse_sizes(const std::string &w, size_t &locsize, size_t &slack, bool &keep) {
    size_t plus = w.find('+');
    if (plus == std::string::npos) return false;
    locsize = (size_t)atol(w.substr(0, plus).c_str());
    slack = (size_t)atol(w.substr(plus + 1).c_str());
    size_t plus2 = w.find('+', plus + 1);
    keep = false;
    if (plus2 != std::string::npos) {
        if (w.substr(plus2 + 1) != "k") return false;
        keep = true;
    }
    return true;
}

static std::string op_D(const std::vector<std::string> &w) {
    if (w.size() < 4) return "bad-op";
    Ast ast;
    size_t e = parse_ast(w[1], 0, ast);
    if (e != w[1].size()) return "bad-op";
    TNode root;
    g_root = &root;
    if (!build(ast, root, "r")) return "bad-op";
    size_t locsize, slack;
    bool keep;
    if (!parse_sizes(w[2], locsize, slack, keep)) return "bad-op";
    std::string out;
    std::istringstream is(w[3]);
    std::string tok;
    bool first = true;
    Pair<rtosc::RtData> pr;
    while (std::getline(is, tok, ';')) {
        if (!first) out += "|";
        first = false;
        out += one_msg<rtosc::RtData>(*root.use, &root, false, locsize, slack, tok, keep, pr);
    }
    return out;
}

static std::string op_R(const std::vector<std::string> &w) {
    if (w.size() < 4) return "bad-op";
    if (!g_world) g_world = new SWorld;
    std::string want = ports_token(STop::ports);
    if (w[1] != want) return "bad-tree:" + want;
    size_t locsize, slack;
    bool keep;
    if (!parse_sizes(w[2], locsize, slack, keep)) return "bad-op";
    std::string out;
    std::istringstream is(w[3]);
    std::string tok;
    bool first = true;
    Pair<SugarData> pr;
    while (std::getline(is, tok, ';')) {
        if (!first) out += "|";
        first = false;
        out += one_msg<SugarData>(STop::ports, &g_world->top, true, locsize, slack, tok, keep, pr);
    }
    return out;
}

static std::string step(const std::string &line) {
    auto w = words(line);
    if (w.empty()) return "bad-op";
    if (w[0] == "D") return op_D(w);
    if (w[0] == "R") return op_R(w);
    return "bad-op";
}
int main(int argc, char **argv) { return run_lines(argc, argv, step); }
