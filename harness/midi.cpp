// Engine `midi` (C20): the real rtosc::MidiMapperRT and rtosc::MidiMappernRT, wired through
// two explicit FIFO queues which the op line drains in the order it prescribes, so that
// every admissible delivery order of the two halves' messages can be driven.
//
// op line:  P:<spec>[,<spec>...]  <op> <op> ...
//   spec = <sig><flags>:<min8>:<max8>[:<depth>.<pad>]
//   port k (k <= 9) is named  "p<k>" + PAD[0..pad) + signature, where the signature is chosen by <sig>:
//       i ":i"   f ":f"   I "::i"   F "::f"   j ":f:i"   g ":i:f"
//   (the spellings rtosc applications use: plain, optional-argument, both types accepted),
//   its address is "/" + depth x "d<k>/" + "p<k>" + PAD[0..pad)  (depth <= 3 nested rtosc::Ports tables,
//   pad <= 60; default 0.0, i.e. "/p<k>"), and it carries the metadata min = min8/8, max = max8/8 (written as
//   exact decimals, e.g. -3/8 -> "-0.375"); |min8|, |max8| <= 8388607 (so that every intermediate of
//   MidiBijection is exact in double).  <flags> (letters, any order) add further metadata keys the way real
//   port tables carry them:  d ":documentation=..." and p ":parameter" (no value) and L ":scale=logarithmic"
//   in front of min;  s ":shortname=sn" between min and max;  u ":unit=Hz" and l ":scale=linear" behind max.
//   ops:  m<k>c | m<k>f     MidiMappernRT::map("/p<k>", coarse | fine)
//         u<k>c | u<k>f     MidiMappernRT::unMap("/p<k>", coarse | fine)
//         x                 MidiMappernRT::clear()
//         c:<par>:<val>[:<chan>:<nrpn>]   MidiMapperRT::handleCC(par, val, chan, nrpn)   (val <= 127)
//         r                 deliver the oldest queued nRT->RT message (midi-add-watch / midi-bind) to
//                           MidiMapperRT::ports; nothing happens when the queue is empty
//         n                 deliver the oldest queued RT->nRT message (/midi-use-CC i) to
//                           MidiMappernRT::useFreeID; nothing happens when the queue is empty
// output:   one token per `c` op, in order: `-` when the backend callback received nothing, else the
//           messages it received joined by '+', each  p<k>:i:<decimal>  |  p<k>:f:<float bits, 8 hex digits>
//           where k is the port whose address the message carries (an address that is not the address of a
//           port of the line, or another argument type, is printed as X<hex of address>:<type string>).
//           A line without `c` ops prints `.`.
#include "common.h"
#include <deque>
#include <functional>
#include <rtosc/miditable.h>
#include <rtosc/ports.h>
#include <rtosc/rtosc.h>

using namespace vh;

namespace {
struct DynPorts : rtosc::Ports {
    DynPorts() : rtosc::Ports({}) {}
    void add(const char *name, const char *meta) {
        ports.push_back(rtosc::Port{name, meta, NULL, [](const char *, rtosc::RtData &) {}});
    }
    void add_dir(const char *name, const rtosc::Ports *sub) {
        ports.push_back(rtosc::Port{name, NULL, sub, [](const char *, rtosc::RtData &) {}});
    }
    void done() { refreshMagic(); }
};

std::vector<std::string> split(const std::string &s, char c) {
    std::vector<std::string> out;
    std::string cur;
    for (char ch : s) {
        if (ch == c) { out.push_back(cur); cur.clear(); }
        else cur.push_back(ch);
    }
    out.push_back(cur);
    return out;
}

bool parse_int(const std::string &s, long &v) {
    if (s.empty() || s.size() > 9) return false;
    size_t i = 0;
    bool neg = false;
    if (s[0] == '-') { neg = true; i = 1; if (s.size() == 1) return false; }
    long x = 0;
    for (; i < s.size(); ++i) {
        if (s[i] < '0' || s[i] > '9') return false;
        x = x * 10 + (s[i] - '0');
    }
    v = neg ? -x : x;
    return true;
}
bool parse_nat(const std::string &s, long &v) { return parse_int(s, v) && s[0] != '-'; }

// n/8 as an exact decimal literal
std::string eighths(long n) {
    static const char *frac[8] = {"", ".125", ".25", ".375", ".5", ".625", ".75", ".875"};
    std::string s = n < 0 ? "-" : "";
    long a = n < 0 ? -n : n;
    return s + std::to_string(a / 8) + frac[a % 8];
}

typedef std::vector<char> msgbuf;
msgbuf copy_msg(const char *m) {
    size_t n = rtosc_message_length(m, 1024);
    return msgbuf(m, m + n);
}

std::string show_backend(const char *m, const std::deque<std::string> &addrs) {
    std::string addr = m;
    // not an OSC message at all (e.g. an empty buffer): do not let the accessors scan past it
    if (addr.empty() || addr[0] != '/') return "X" + (addr.empty() ? std::string("-") : hexs(addr.c_str())) + ":?";
    std::string types = rtosc_argument_string(m);
    int k = -1;
    for (size_t i = 0; i < addrs.size(); ++i)
        if (addrs[i] == addr) k = (int)i;
    char buf[64];
    if (k >= 0 && types == "i") {
        snprintf(buf, sizeof buf, "p%d:i:%d", k, (int)rtosc_argument(m, 0).i);
        return buf;
    }
    if (k >= 0 && types == "f") {
        float f = rtosc_argument(m, 0).f;
        uint32_t u;
        memcpy(&u, &f, 4);
        snprintf(buf, sizeof buf, "p%d:f:%08x", k, (unsigned)u);
        return buf;
    }
    return "X" + hexs(addr.c_str()) + ":" + (types.empty() ? std::string("-") : types);
}

// the 64 characters long names are padded with
const char *PAD = "_long_parameter_name_for_midi_learn_with_many_characters_in_it_x";

const char *signature(char sig) {
    switch (sig) {
    case 'i': return ":i";
    case 'f': return ":f";
    case 'I': return "::i";
    case 'F': return "::f";
    case 'j': return ":f:i";
    case 'g': return ":i:f";
    }
    return NULL;
}

void meta_kv(std::string &meta, const char *key, const char *val) {
    meta += ":";
    meta += key;
    meta.push_back('\0');
    if (val) {
        meta += "=";
        meta += val;
        meta.push_back('\0');
    }
}

std::string step(const std::string &line) {
    auto w = words(line);
    if (w.empty() || w[0].size() < 3 || w[0][0] != 'P' || w[0][1] != ':') return "bad-op";
    // ---- port table ------------------------------------------------------------------
    std::deque<std::string> names, metas, addrs, dirnames;
    std::deque<DynPorts> dirs;      // nested tables (deque: stable addresses)
    DynPorts table;
    {
        auto specs = split(w[0].substr(2), ',');
        if (specs.size() > 10) return "bad-op";
        std::vector<long> depths;
        for (size_t k = 0; k < specs.size(); ++k) {
            auto f = split(specs[k], ':');
            long mn, mx, depth = 0, pad = 0;
            if ((f.size() != 3 && f.size() != 4) || f[0].empty() || !signature(f[0][0]) || !parse_int(f[1], mn) ||
                !parse_int(f[2], mx) || mn < -8388607 || mn > 8388607 || mx < -8388607 || mx > 8388607)
                return "bad-op";
            for (size_t i = 1; i < f[0].size(); ++i)
                if (!strchr("dpLsul", f[0][i])) return "bad-op";
            if (f.size() == 4) {
                auto g = split(f[3], '.');
                if (g.size() != 2 || !parse_nat(g[0], depth) || !parse_nat(g[1], pad) || depth > 3 || pad > 60)
                    return "bad-op";
            }
            const std::string flags = f[0].substr(1);
            auto has = [&](char c) { return flags.find(c) != std::string::npos; };
            std::string leaf = "p" + std::to_string(k) + std::string(PAD, PAD + pad);
            names.push_back(leaf + signature(f[0][0]));
            std::string addr = "/";
            for (long j = 0; j < depth; ++j) addr += "d" + std::to_string(k) + "/";
            addrs.push_back(addr + leaf);
            depths.push_back(depth);
            std::string meta;
            if (has('d')) meta_kv(meta, "documentation", "a parameter of the synthesizer");
            if (has('p')) meta_kv(meta, "parameter", NULL);
            if (has('L')) meta_kv(meta, "scale", "logarithmic");
            meta_kv(meta, "min", eighths(mn).c_str());
            if (has('s')) meta_kv(meta, "shortname", "sn");
            meta_kv(meta, "max", eighths(mx).c_str());
            if (has('u')) meta_kv(meta, "unit", "Hz");
            if (has('l')) meta_kv(meta, "scale", "linear");
            meta.push_back('\0');
            metas.push_back(meta);
        }
        for (size_t k = 0; k < specs.size(); ++k) {
            // innermost table first: leaf, then depth x "d<k>/" around it
            const rtosc::Ports *inner = NULL;
            dirnames.push_back("d" + std::to_string(k) + "/");
            const char *dn = dirnames.back().c_str();
            if (depths[k] == 0) {
                table.add(names[k].c_str(), metas[k].data());
                continue;
            }
            dirs.emplace_back();
            dirs.back().add(names[k].c_str(), metas[k].data());
            dirs.back().done();
            inner = &dirs.back();
            for (long j = 1; j < depths[k]; ++j) {
                dirs.emplace_back();
                dirs.back().add_dir(dn, inner);
                dirs.back().done();
                inner = &dirs.back();
            }
            table.add_dir(dn, inner);
        }
        table.done();
    }
    size_t nports = names.size();
    // ---- validate the ops before touching the implementation ----------------------------
    for (size_t i = 1; i < w.size(); ++i) {
        const std::string &t = w[i];
        if (t == "x" || t == "r" || t == "n") continue;
        if ((t[0] == 'm' || t[0] == 'u') && t.size() == 3 && t[1] >= '0' && t[1] <= '9' &&
            (size_t)(t[1] - '0') < nports && (t[2] == 'c' || t[2] == 'f'))
            continue;
        if (t[0] == 'c' && t.size() > 1 && t[1] == ':') {
            auto f = split(t.substr(2), ':');
            long a, b, c, d;
            if (f.size() == 2 && parse_nat(f[0], a) && parse_nat(f[1], b) && a <= 16383 && b <= 127) continue;
            if (f.size() == 4 && parse_nat(f[0], a) && parse_nat(f[1], b) && parse_nat(f[2], c) && parse_nat(f[3], d) &&
                a <= 16383 && b <= 127 && c <= 127 && d <= 1)
                continue;
        }
        return "bad-op";
    }
    // ---- the two halves and the two channels ------------------------------------------
    rtosc::MidiMapperRT rt;
    rtosc::MidiMappernRT nrt;
    std::deque<msgbuf> to_rt, to_nrt;
    std::vector<std::string> backend_log;
    nrt.base_ports = &table;
    nrt.rt_cb = [&](const char *m) { to_rt.push_back(copy_msg(m)); };
    rt.setFrontendCb([&](const char *m) { to_nrt.push_back(copy_msg(m)); });
    rt.setBackendCb([&](const char *m) { backend_log.push_back(show_backend(m, addrs)); });

    std::string out;
    bool any = false;
    for (size_t i = 1; i < w.size(); ++i) {
        const std::string &t = w[i];
        if (t == "x") {
            nrt.clear();
        } else if (t == "r") {
            if (to_rt.empty()) continue;
            msgbuf m = to_rt.front();
            to_rt.pop_front();
            const char *prefix = "/midi-learn/";
            if (strncmp(m.data(), prefix, strlen(prefix)) != 0) return "unexpected-rt-message:" + hexs(m.data());
            char loc[128];
            memset(loc, 0, sizeof loc);
            rtosc::RtData d;
            d.loc = loc;
            d.loc_size = sizeof loc;
            d.obj = &rt;
            d.matches = 0;
            rtosc::MidiMapperRT::ports.dispatch(m.data() + strlen(prefix), d, false);
            if (d.matches != 1) return "rt-message-not-dispatched:" + hexs(m.data());
        } else if (t == "n") {
            if (to_nrt.empty()) continue;
            msgbuf m = to_nrt.front();
            to_nrt.pop_front();
            if (strcmp(m.data(), "/midi-use-CC") != 0 || strcmp(rtosc_argument_string(m.data()), "i") != 0)
                return "unexpected-nrt-message:" + hexs(m.data());
            nrt.useFreeID(rtosc_argument(m.data(), 0).i);
        } else if (t[0] == 'm') {
            nrt.map(addrs[t[1] - '0'].c_str(), t[2] == 'c');
        } else if (t[0] == 'u') {
            nrt.unMap(addrs[t[1] - '0'].c_str(), t[2] == 'c');
        } else { // c
            auto f = split(t.substr(2), ':');
            long a = 0, b = 0, c = 1, d = 0;
            parse_nat(f[0], a);
            parse_nat(f[1], b);
            if (f.size() == 4) { parse_nat(f[2], c); parse_nat(f[3], d); }
            backend_log.clear();
            rt.handleCC((int)a, (int)b, (char)c, d != 0);
            std::string tok;
            for (auto &s : backend_log) tok += (tok.empty() ? "" : "+") + s;
            if (tok.empty()) tok = "-";
            out += (any ? " " : "") + tok;
            any = true;
        }
    }
    return any ? out : ".";
}
} // namespace

int main(int argc, char **argv) { return run_lines(argc, argv, step); }
