// Engine `pretty` (C10): print -> count -> scan -> compare, on the real code.
//
// Op line (tokens separated by single spaces):
//   <mode> <lossless> <prec> <linelength> <compress> <cols0> <addr-hex|-> <arg>*
//   <lossless> = `N`: the printers are called with opt == NULL (default_print_options; <prec> <linelength>
//         <compress> are ignored)
//   <cols0>: the printers' argument cols_used.  In mode A with cols0 > 0 the printer is given a buffer that
//         points cols0 bytes into a line the caller has already written ((cols0-1) x 'p' and one blank: the
//         printers read, and when they break the line overwrite, the separator at buffer[-1]); the output then
//         has a token `B <dec>` = that byte after printing
//   mode  A  rtosc_print_arg_vals / rtosc_count_printed_arg_vals / rtosc_scan_arg_vals
//         M  rtosc_print_message / rtosc_count_printed_arg_vals_of_msg / rtosc_scan_message
//         T  <text-hex>: only count + scan of the given text (no printing); used for witnesses
//         X  Libc stream: `X a32 <bits>` `X a64 <bits>` `X f32 <prec> <bits>` `X f64 <prec> <bits>`
//            `X sf32 <text-hex>` `X sf64 <text-hex>` `X tm <secs>` `X si <d|i|x> <width|-> <text-hex>`
//            (glibc formatting/scanning alone)
//   arg   i<dec> h<dec> c<dec> f<hex8> d<hex16> t<hex16> r<hex8> m<hex8>
//         s:<hex|-> S:<hex|-> b:<hex|-> T F N I
//         [<tydec>  ... ]      array header with element-type byte <tydec>, then the elements, then `]`
//         R<num>:<hasdelta>    range header ('-' cell) as rtosc_convert_to_range / the scanner make it; followed by
//                              delta and start value (hasdelta = 1) or by the repeated value (hasdelta = 0)
// Output line:
//   P <ret> <text-hex> [B <dec>] C <count> S <rd> <nscanned> <cell>* [A <addr-hex>] E <eq>
//   The cell array handed to the scanners is pre-filled with a byte pattern (0x00 / 0xa5 / 0xff, chosen from the
//   op line): a scanner that leaves a field of a cell unwritten shows the caller's garbage in the output.
//   cells as the arg tokens (booleans with their payload: T<val.T> F<val.T>, i.e. `T1` `F0`), plus
//   a<tydec>:<len>  (array header)  and  R<num>:<hasdelta> (range header)
//   after `C <count>` with count < 0 (syntax error reported) the line ends with `S -`.
#include "common.h"
#include <rtosc/rtosc.h>
#include <rtosc/arg-ext.h>
#include <rtosc/arg-val-cmp.h>
#include <rtosc/pretty-format.h>
#include <rtosc/rtosc-time.h>
#include <cinttypes>
#include <ctime>
#include <deque>
using namespace vh;

struct Pool {  // keeps string/blob payloads alive in exact-size blocks
    std::deque<std::vector<unsigned char>> blocks;
    unsigned char *put(const bytes &b, bool nul) {
        blocks.emplace_back(b);
        if (nul) blocks.back().push_back(0);
        if (blocks.back().empty()) blocks.back().push_back(0);
        return blocks.back().data();
    }
};

static bool parse_args(const std::vector<std::string> &w, size_t from, std::vector<rtosc_arg_val_t> &out, Pool &pool) {
    std::vector<size_t> open;
    for (size_t k = from; k < w.size(); ++k) {
        const std::string &t = w[k];
        rtosc_arg_val_t av;
        memset(&av, 0, sizeof(av));
        char c = t[0];
        const char *rest = t.c_str() + 1;
        switch (c) {
        case 'i': case 'c': av.type = c; av.val.i = (int32_t)strtoll(rest, NULL, 10); break;
        case 'h': av.type = c; av.val.h = (int64_t)strtoll(rest, NULL, 10); break;
        case 'f': { av.type = c; uint32_t u = (uint32_t)strtoull(rest, NULL, 16); memcpy(&av.val.f, &u, 4); break; }
        case 'd': { av.type = c; uint64_t u = strtoull(rest, NULL, 16); memcpy(&av.val.d, &u, 8); break; }
        case 't': av.type = c; av.val.t = strtoull(rest, NULL, 16); break;
        case 'r': av.type = c; av.val.i = (int32_t)(uint32_t)strtoull(rest, NULL, 16); break;
        case 'm': { av.type = c; uint32_t u = (uint32_t)strtoull(rest, NULL, 16);
                    av.val.m[0] = u >> 24; av.val.m[1] = (u >> 16) & 255; av.val.m[2] = (u >> 8) & 255; av.val.m[3] = u & 255; break; }
        case 's': case 'S': { bytes b; if (t.size() < 3 || !unhex(t.substr(2), b)) return false;
                    av.type = c; av.val.s = (const char *)pool.put(b, true); break; }
        case 'b': { bytes b; if (t.size() < 3 || !unhex(t.substr(2), b)) return false;
                    av.type = c; av.val.b.len = (int32_t)b.size(); av.val.b.data = pool.put(b, false); break; }
        case 'T': av.type = 'T'; av.val.T = 1; break;
        case 'F': av.type = 'F'; av.val.T = 0; break;
        case 'N': case 'I': av.type = c; break;
        case 'R': { int num = 0, hd = 0; if (sscanf(rest, "%d:%d", &num, &hd) != 2) return false;
                    av.type = '-'; rtosc_av_rep_num_set(&av, num); rtosc_av_rep_has_delta_set(&av, hd); break; }
        case '[': av.type = 'a'; rtosc_av_arr_type_set(&av, (char)atoi(rest)); open.push_back(out.size()); break;
        case ']': { if (open.empty()) return false; size_t h = open.back(); open.pop_back();
                    rtosc_av_arr_len_set(&out[h], (int32_t)(out.size() - h - 1)); continue; }
        default: return false;
        }
        out.push_back(av);
    }
    return open.empty();
}

static std::string cell(const rtosc_arg_val_t &a) {
    char buf[64];
    switch (a.type) {
    case 'i': case 'c': snprintf(buf, sizeof buf, "%c%d", a.type, a.val.i); return buf;
    case 'h': snprintf(buf, sizeof buf, "h%" PRId64, a.val.h); return buf;
    case 'f': { uint32_t u; memcpy(&u, &a.val.f, 4); snprintf(buf, sizeof buf, "f%08x", u); return buf; }
    case 'd': { uint64_t u; memcpy(&u, &a.val.d, 8); snprintf(buf, sizeof buf, "d%016" PRIx64, u); return buf; }
    case 't': snprintf(buf, sizeof buf, "t%016" PRIx64, a.val.t); return buf;
    case 'r': snprintf(buf, sizeof buf, "r%08x", (uint32_t)a.val.i); return buf;
    case 'm': snprintf(buf, sizeof buf, "m%02x%02x%02x%02x", a.val.m[0], a.val.m[1], a.val.m[2], a.val.m[3]); return buf;
    case 's': case 'S': return std::string(1, a.type) + ":" + (a.val.s ? hexs(a.val.s) : std::string("NULL"));
    case 'b': return std::string("b:") + hex(a.val.b.data, a.val.b.len > 0 ? (size_t)a.val.b.len : 0);
    // booleans bit-complete: the payload val.T (F => 0, T => 1) is what rtosc_arg_val_to_int() and
    // the range arithmetic read, so `T1` / `F0` is what a scanned boolean must look like
    case 'T': case 'F': snprintf(buf, sizeof buf, "%c%d", a.type, (int)(unsigned char)a.val.T); return buf;
    case 'N': case 'I': return std::string(1, a.type);
    case 'a': snprintf(buf, sizeof buf, "a%d:%d", (int)(unsigned char)rtosc_av_arr_type(&a), rtosc_av_arr_len(&a)); return buf;
    case '-': snprintf(buf, sizeof buf, "R%d:%d", rtosc_av_rep_num(&a), rtosc_av_rep_has_delta(&a)); return buf;
    default: snprintf(buf, sizeof buf, "?%d", (int)(unsigned char)a.type); return buf;
    }
}

static size_t TEXTCAP = 1 << 16;   // per op line: at least 64 KiB, and room for 32 characters per character of the op line (a double prints up to ~350 characters for 17)

static unsigned char g_fill = 0;   // pattern the scanned cell array is pre-filled with (set per op line)

static std::string count_scan(const char *text, bool msg, const rtosc_arg_val_t *orig, size_t norig) {
    std::ostringstream o;
    int count = msg ? rtosc_count_printed_arg_vals_of_msg(text) : rtosc_count_printed_arg_vals(text);
    o << "C " << count;
    if (count < 0) { o << " S -"; return o.str(); }
    // exact-size cell array: a scanner that writes more cells than the checker counted is caught by ASan
    rtosc_arg_val_t *sc = (rtosc_arg_val_t *)malloc(count ? sizeof(rtosc_arg_val_t) * (size_t)count : 1);
    if (count) memset(sc, g_fill, sizeof(rtosc_arg_val_t) * (size_t)count);
    const size_t sbs = TEXTCAP;
    char *strbuf = (char *)malloc(sbs);
    memset(strbuf, 0x7f, sbs);
    char addr[256];
    memset(addr, 0x7f, sizeof addr);
    size_t rd = msg ? rtosc_scan_message(text, addr, sizeof addr, sc, (size_t)count, strbuf, sbs)
                    : rtosc_scan_arg_vals(text, sc, (size_t)count, strbuf, sbs);
    o << " S " << rd << " " << count;
    for (int i = 0; i < count; ++i) o << " " << cell(sc[i]);
    if (msg) o << " A " << hexs(addr);
    if (orig) o << " E " << rtosc_arg_vals_eq(orig, sc, norig, (size_t)count, NULL);
    free(strbuf);
    free(sc);
    return o.str();
}

static std::string libc_step(const std::vector<std::string> &w) {
    char buf[1024];
    if (w.size() < 3) return "bad-op";
    const std::string &k = w[1];
    if (k == "a32") { uint32_t u = (uint32_t)strtoull(w[2].c_str(), NULL, 16); float f; memcpy(&f, &u, 4);
        snprintf(buf, sizeof buf, "%a", f); return hexs(buf); }
    if (k == "a64") { uint64_t u = strtoull(w[2].c_str(), NULL, 16); double d; memcpy(&d, &u, 8);
        snprintf(buf, sizeof buf, "%la", d); return hexs(buf); }
    if (k == "f32" && w.size() >= 4) { uint32_t u = (uint32_t)strtoull(w[3].c_str(), NULL, 16); float f; memcpy(&f, &u, 4);
        char fmt[16]; snprintf(fmt, sizeof fmt, "%%#.%df", atoi(w[2].c_str())); snprintf(buf, sizeof buf, fmt, f); return hexs(buf); }
    if (k == "f64" && w.size() >= 4) { uint64_t u = strtoull(w[3].c_str(), NULL, 16); double d; memcpy(&d, &u, 8);
        char fmt[16]; snprintf(fmt, sizeof fmt, "%%#.%dlf", atoi(w[2].c_str())); snprintf(buf, sizeof buf, fmt, d); return hexs(buf); }
    if (k == "sf32" || k == "sf64") {
        bytes t; if (!unhex(w[2], t)) return "bad-op"; t.push_back(0); Exact mem(t);
        int rd = 0; std::ostringstream o;
        if (k == "sf32") { float f = 0; int n = sscanf(mem.c(), "%f%n", &f, &rd); uint32_t u; memcpy(&u, &f, 4);
            if (n != 1) return "fail";
            snprintf(buf, sizeof buf, "%d %08x", rd, u); }
        else { double d = 0; int n = sscanf(mem.c(), "%lf%n", &d, &rd); uint64_t u; memcpy(&u, &d, 8);
            if (n != 1) return "fail";
            snprintf(buf, sizeof buf, "%d %016" PRIx64, rd, u); }
        return buf;
    }
    if (k == "si" && w.size() >= 5) {   // integer conversions: "%<w>ld" / "%<w>li" / "%<w>lx" then %n
        bytes t; if (!unhex(w[4], t)) return "bad-op"; t.push_back(0); Exact mem(t);
        std::string fmt = "%" + (w[3] == "-" ? std::string("") : w[3]) + "l" + w[2] + "%n";
        long v = 0; int rd = 0;
        int n = sscanf(mem.c(), fmt.c_str(), &v, &rd);
        if (n != 1) return "fail";
        snprintf(buf, sizeof buf, "%d %ld", rd, v);
        return buf;
    }
    if (k == "tm") { time_t t = (time_t)strtoull(w[2].c_str(), NULL, 10); struct tm *m = localtime(&t);
        strftime(buf, sizeof buf, "%Y-%m-%d %H:%M:%S", m); std::string s = hexs(buf);
        struct tm c = *m; c.tm_isdst = -1; time_t back = mktime(&c);
        snprintf(buf, sizeof buf, " %lld", (long long)back); return s + buf; }
    return "bad-op";
}

static std::string step(const std::string &line) {
    auto w = words(line);
    if (w.empty()) return "bad-op";
    if (w[0] == "X") return libc_step(w);
    { unsigned h = 0; for (unsigned char ch : line) h = h * 31 + ch;
      static const unsigned char pat[3] = {0xa5, 0x00, 0xff}; g_fill = pat[h % 3]; }
    TEXTCAP = std::max<size_t>(1 << 16, 32 * line.size() + 4096);
    if (w[0] == "T" || w[0] == "TM") {
        bytes t; if (w.size() < 2 || !unhex(w[1], t)) return "bad-op";
        t.push_back(0); Exact mem(t);
        return count_scan(mem.c(), w[0] == "TM", NULL, 0);
    }
    if (w.size() < 7 || (w[0] != "A" && w[0] != "M")) return "bad-op";
    bool msg = w[0] == "M";
    rtosc_print_options opt;
    const bool optnull = w[1] == "N";
    opt.lossless = atoi(w[1].c_str()) != 0;
    opt.floating_point_precision = atoi(w[2].c_str());
    opt.sep = " ";
    opt.linelength = atoi(w[3].c_str());
    opt.compress_ranges = atoi(w[4].c_str());
    int cols0 = atoi(w[5].c_str());
    bytes addr; if (!unhex(w[6], addr)) return "bad-op";
    addr.push_back(0);
    Pool pool;
    std::vector<rtosc_arg_val_t> args;
    if (!parse_args(w, 7, args, pool)) return "bad-op";
    // exact-size copy of the cell array: any read past the n cells is caught
    size_t n = args.size();
    rtosc_arg_val_t *cells = (rtosc_arg_val_t *)malloc(n ? n * sizeof(rtosc_arg_val_t) : 1);
    if (n) memcpy(cells, args.data(), n * sizeof(rtosc_arg_val_t));
    if (cols0 < 0 || cols0 > 4096) return "bad-op";
    // mode A with cols_used > 0: the caller's line so far stands in front of the buffer
    const size_t pre = (!msg && cols0 > 0) ? (size_t)cols0 : 0;
    char *block = (char *)malloc(TEXTCAP + pre);
    memset(block, 0x7f, TEXTCAP + pre);
    if (pre) { memset(block, 'p', pre); block[pre - 1] = ' '; }
    char *text = block + pre;
    text[0] = 0;
    const rtosc_print_options *po = optnull ? NULL : &opt;
    size_t ret = msg ? rtosc_print_message((const char *)addr.data(), cells, n, text, TEXTCAP, po, cols0)
                     : rtosc_print_arg_vals(cells, n, text, TEXTCAP, po, cols0);
    size_t len = strnlen(text, TEXTCAP);
    std::ostringstream o;
    o << "P " << ret << " " << hex((const unsigned char *)text, len) << " ";
    if (pre) o << "B " << (int)(unsigned char)text[-1] << " ";
    // the scanners get the text in an exact-size block (NUL included)
    bytes tb((unsigned char *)text, (unsigned char *)text + len);
    tb.push_back(0);
    free(block);
    {
        Exact mem(tb);
        o << count_scan(mem.c(), msg, cells, n);
    }
    free(cells);
    return o.str();
}

int main(int argc, char **argv) {
    setenv("TZ", "UTC", 1);
    tzset();
    return run_lines(argc, argv, step);
}
