// Engine `osc` (C01): one constructor call of the real library followed by every reader.
// Op line / output line: see lean/Driver/OscEngine.lean (the two must print the same text).
// Destination buffers, string and blob data and the block handed to the readers are exact-size
// heap allocations, so any store or read outside them aborts under ASan.
//
// Pointer placement: malloc returns 16-aligned blocks, which would hide every alignment computed
// from the *address* instead of the offset inside the message (OSC pads relative to the start of
// the message).  The destination of a constructor and the block handed to the readers therefore
// start at an offset 0..3 into their heap block (derived from the op line, so a replay is
// stable; all four residues occur equally often); the bytes in front are a guard that must keep
// its fill value.  The end of the block is still exact.
//
// Observables (C01's `observe_at`): return value, the message bytes buffer[0..ret), the size
// query with the NULL buffer, and every reader.  Bytes behind the message and what happens
// when the buffer is too small (beyond the return value) belong to C02 and are not printed.
#include "common.h"
#include <rtosc/rtosc.h>
#include <rtosc/arg-val.h>
#include <memory>
#include <sys/time.h>
using namespace vh;

// Watchdog: one op line takes microseconds of CPU; if the library burns two CPU-seconds on a
// line (e.g. a length loop that never terminates) SIGPROF kills the process and the runner
// records `crash:signal:27` for that line instead of hanging.  CPU time, not wall-clock time,
// so a loaded machine cannot trip it.
static void arm_watchdog() {
    struct itimerval t = {{0, 0}, {2, 0}};
    setitimer(ITIMER_PROF, &t, NULL);
}

struct Args {
    std::vector<rtosc_arg_t> a;                    // one per payload tag
    std::vector<std::unique_ptr<Exact>> strs;      // storage of string arguments (exact size, NUL included)
    std::vector<std::unique_ptr<Exact>> blobs;     // storage of blob data / midi
    std::vector<uint64_t> dbits;                   // 64-bit tokens as given (doubles in V mode)
};

static bool has_payload(char t) { return t && strchr("isbfhtdSrmc", t); }

static bool parse_args(const std::vector<std::string> &w, size_t from, Args &out) {
    size_t n = w.size() - from;
    out.a.resize(n);
    out.strs.clear();
    out.strs.resize(n);
    out.dbits.assign(n, 0);
    if (n) memset(out.a.data(), 0, n * sizeof(rtosc_arg_t));
    for (size_t k = 0; k < n; ++k) {
        const std::string &tok = w[from + k];
        if (tok.empty()) return false;
        std::string body = tok.substr(1);
        bytes b;
        switch (tok[0]) {
        case 'w':
            if (!unhex(body, b) || b.size() != 4) return false;
            out.a[k].i = (int32_t)(((uint32_t)b[0] << 24) | ((uint32_t)b[1] << 16) | ((uint32_t)b[2] << 8) | b[3]);
            break;
        case 'q': {
            if (!unhex(body, b) || b.size() != 8) return false;
            uint64_t v = 0;
            for (int i = 0; i < 8; ++i) v = (v << 8) | b[i];
            out.a[k].t = v;
            out.dbits[k] = v;
            break;
        }
        case 'm':
            if (!unhex(body, b) || b.size() != 4) return false;
            for (int i = 0; i < 4; ++i) out.a[k].m[i] = b[i];
            break;
        case 's':
            if (!unhex(body, b)) return false;
            b.push_back(0);
            out.strs[k].reset(new Exact(b));
            out.a[k].s = out.strs[k]->c();
            break;
        case 'b': {
            size_t c = body.find(':');
            if (c == std::string::npos) return false;
            long long len = atoll(body.substr(0, c).c_str());
            std::string d = body.substr(c + 1);
            out.a[k].b.len = (int32_t)len;
            if (d == "N") out.a[k].b.data = NULL;
            else {
                if (!unhex(d, b)) return false;
                out.blobs.emplace_back(new Exact(b));
                out.a[k].b.data = out.blobs.back()->p;
            }
            break;
        }
        default:
            return false;
        }
    }
    return true;
}

// x86-64 SysV: a va_list whose register save area is exhausted, so that every va_arg
// fetches the next 8-byte slot of overflow_arg_area.
struct VaTag { unsigned gp_offset, fp_offset; void *overflow_arg_area, *reg_save_area; };

static size_t call_v(char *buf, size_t cap, const char *addr, const char *tags, Args &A) {
    std::vector<uint64_t> slots;
    std::vector<std::unique_ptr<Exact>> midis;
    size_t k = 0;
    for (const char *t = tags; *t; ++t) {
        if (!has_payload(*t)) continue;
        const rtosc_arg_t &a = A.a[k];
        switch (*t) {
        case 'h': case 't': case 'd': slots.push_back(a.t); break;
        case 'f': slots.push_back(A.dbits[k]); break;                 // promoted double
        case 'i': case 'c': case 'r': slots.push_back((uint64_t)(uint32_t)a.i); break;
        case 'm': {
            bytes mb(a.m, a.m + 4);
            midis.emplace_back(new Exact(mb));
            slots.push_back((uint64_t)(uintptr_t)midis.back()->p);
            break;
        }
        case 's': case 'S': slots.push_back((uint64_t)(uintptr_t)a.s); break;
        case 'b':
            slots.push_back((uint64_t)(uint32_t)a.b.len);
            slots.push_back((uint64_t)(uintptr_t)a.b.data);
            break;
        }
        ++k;
    }
    slots.push_back(0);
    VaTag tag = {48, 304, slots.data(), NULL};
    va_list ap;
    static_assert(sizeof(ap) == sizeof(tag), "x86-64 SysV va_list expected");
    memcpy(&ap, &tag, sizeof(tag));
    return rtosc_vmessage(buf, cap, addr, tags, ap);
}

static size_t call_m(char *buf, size_t cap, const char *addr, const char *tags, Args &A) {
    size_t n = strlen(tags), k = 0;
    std::unique_ptr<rtosc_arg_val_t[]> av(new rtosc_arg_val_t[n ? n : 1]);
    memset(av.get(), 0, sizeof(rtosc_arg_val_t) * (n ? n : 1));
    for (size_t i = 0; i < n; ++i) {
        av[i].type = tags[i];
        if (has_payload(tags[i])) av[i].val = A.a[k++];
        else if (tags[i] == 'T') av[i].val.T = 1;
    }
    return rtosc_avmessage(buf, cap, addr, n, av.get());
}

// literal call sites: the compiler's own varargs lowering (registers + stack).
// Keep in sync with LITERALS in tools/props/c01.py.
static size_t call_l(int k, char *buf, size_t cap) {
    static uint8_t midi[4] = {0x90, 0x3c, 0x7f, 0x00};
    static unsigned char blob[5] = {1, 2, 3, 4, 5};
    switch (k) {
    case 0: return rtosc_message(buf, cap, "/page/poge", "TIF");
    case 1: return rtosc_message(buf, cap, "/testing", "is", 23, "this string");
    case 2: return rtosc_message(buf, cap, "/oscillator/4/frequency", "f", 440.0f);
    case 3: return rtosc_message(buf, cap, "/foo", "iisff", 1000, -1, "hello", 1.234f, 5.678f);
    case 4: return rtosc_message(buf, cap, "/dest", "[ifsbhtdScrmTFNI]", 42, 0.25f, "string", 3,
                                 (const unsigned char *)"string", (int64_t)-125, (uint64_t)22412, 0.125,
                                 "Symbol", 25, 0x12345678, midi);
    case 5: return rtosc_message(buf, cap, "/b", "bb", 5, blob, 0, (unsigned char *)NULL);
    case 6: return rtosc_message(buf, cap, "/path", "sss", "", "", "");
    case 7: return rtosc_message(buf, cap, "/dddddddddd", "dddddddddd", 1.0, 2.0, 3.0, 4.0, 5.0, 6.0, 7.0, 8.0,
                                 9.0, -0.0);
    case 8: return rtosc_message(buf, cap, "/mix", "ifdhifdhifdh", 1, 1.5f, 2.5, (int64_t)3, 4, 4.5f, 5.5,
                                 (int64_t)6, 7, 7.5f, 8.5, (int64_t)9);
    case 9: return rtosc_message(buf, cap, "/a", "[ii]", 1, 2);
    case 10: return rtosc_message(buf, cap, "/nil", "");
    case 11: return rtosc_message(buf, cap, "/x", "sSb", "abc", "abcd", 4, blob);
    }
    return 0;
}

static std::string h32(uint32_t v) {
    unsigned char b[4] = {(unsigned char)(v >> 24), (unsigned char)(v >> 16), (unsigned char)(v >> 8), (unsigned char)v};
    return hex(b, 4);
}
static std::string h64(uint64_t v) { return h32((uint32_t)(v >> 32)) + h32((uint32_t)v); }

static std::string show(const char *msg, char t, const rtosc_arg_t &v) {
    unsigned char tb = (unsigned char)t;
    std::string p = hex(&tb, 1) + ":";
    std::ostringstream o;
    switch (t) {
    case 'i': case 'c': case 'r': case 'f': return p + h32((uint32_t)v.i);
    case 'h': case 't': case 'd': return p + h64(v.t);
    case 'm': return p + hex(v.m, 4);
    case 's': case 'S':
        o << p << "@" << (v.s - msg) << ":" << hexs(v.s);
        return o.str();
    case 'b':
        o << p << (uint32_t)v.b.len << "@" << ((const char *)v.b.data - msg) << ":";
        if (v.b.len < 0) o << "?";
        else o << hex(v.b.data, (size_t)v.b.len);
        return o.str();
    case 'T': case 'F': return p + (v.T ? "1" : "0");
    default: return p + "-";
    }
}

static const unsigned char GUARD = 0xEE;

static bool guard_ok(const Exact &blk, size_t off) {
    for (size_t i = 0; i < off; ++i)
        if (blk.p[i] != GUARD) return false;
    return true;
}

static std::string readers(const bytes &blockbytes, size_t off) {
    bytes shifted(off, GUARD);                       // message at residue `off` mod 4
    shifted.insert(shifted.end(), blockbytes.begin(), blockbytes.end());
    Exact blk(shifted);
    const char *msg = blk.c() + off;
    std::ostringstream o;
    o << "len=" << rtosc_message_length(msg, blk.n - off);
    const char *as = rtosc_argument_string(msg);
    o << " as=" << (as - msg) << ":" << hexs(as);
    unsigned n = rtosc_narguments(msg);
    o << " n=" << n;
    bytes tys;
    for (unsigned i = 0; i < n; ++i) tys.push_back((unsigned char)rtosc_type(msg, i));
    o << " ty=" << hex(tys);
    std::string av;
    for (unsigned i = 0; i < n; ++i) {
        if (i) av += ",";
        av += show(msg, rtosc_type(msg, i), rtosc_argument(msg, i));
    }
    o << " av=" << (av.empty() ? "-" : av);
    std::string it;
    rtosc_arg_itr_t itr = rtosc_itr_begin(msg);
    unsigned rounds = 0;
    while (!rtosc_itr_end(itr) && rounds < 100000) {
        rtosc_arg_val_t x = rtosc_itr_next(&itr);
        if (rounds++) it += ",";
        it += show(msg, x.type, x.val);
    }
    o << " it=" << (it.empty() ? "-" : it);
    return o.str();
}

static std::string step(const std::string &line) {
    arm_watchdog();
    auto w = words(line);
    // placement of the destination / of the block the readers get: two independent residues mod 4
    size_t h = 0;
    for (char c : line) h = h * 131 + (unsigned char)c;
    size_t off_dst = h % 4, off_rd = (h / 4) % 4;
    if (w.size() >= 2 && (w[0] == "R" || w[0] == "Q")) {      // further tokens are the oracle's
        // R: rtosc_message_length of an encoded message followed by anything (value printed)
        // Q: regression witnesses outside the property (malformed bytes): only "terminates, reads
        //    inside the block, result <= n" is observed
        bytes m;
        if (!unhex(w[1], m)) return "bad-op";
        bytes shifted(off_rd, GUARD);
        shifted.insert(shifted.end(), m.begin(), m.end());
        Exact blk(shifted);
        size_t len = rtosc_message_length(blk.c() + off_rd, m.size());
        std::ostringstream o;
        if (w[0] == "R") o << "len=" << len;
        else o << (len <= m.size() ? "len<=n" : "len>n");
        return o.str();
    }
    if (w.size() < 5) return "bad-op";
    const std::string &mode = w[0];
    bytes addr, tags, rest;
    if (!unhex(w[2], addr) || !unhex(w[3], tags) || !unhex(w[4], rest)) return "bad-op";
    Args A;
    if (!parse_args(w, 5, A)) return "bad-op";
    std::string saddr((const char *)addr.data(), addr.size()), stags((const char *)tags.data(), tags.size());
    bool null_buf = w[1] == "N";
    size_t cap = null_buf ? 0 : (size_t)atoll(w[1].c_str());
    if (null_buf) off_dst = 0;
    Exact dst(off_dst + cap, 0xAA);
    memset(dst.p, GUARD, off_dst);
    char *buf = null_buf ? NULL : dst.c() + off_dst;
    size_t ret = 0, z = 0;
    if (mode == "A") {
        ret = rtosc_amessage(buf, cap, saddr.c_str(), stags.c_str(), A.a.data());
        z = rtosc_amessage(NULL, 0, saddr.c_str(), stags.c_str(), A.a.data());
    } else if (mode == "V") {
        ret = call_v(buf, cap, saddr.c_str(), stags.c_str(), A);
        z = call_v(NULL, 0, saddr.c_str(), stags.c_str(), A);
    } else if (mode == "M") {
        ret = call_m(buf, cap, saddr.c_str(), stags.c_str(), A);
        z = call_m(NULL, 0, saddr.c_str(), stags.c_str(), A);
    } else if (mode[0] == 'L') {
        int k = atoi(mode.c_str() + 1);
        ret = call_l(k, buf, cap);
        z = call_l(k, NULL, 0);
    } else
        return "bad-op";
    std::ostringstream o;
    o << "r=" << ret << " z=" << z << " b=";
    if (null_buf) o << "NULL";
    else if (ret > cap) o << "?";
    else o << hex((unsigned char *)buf, ret);         // the message bytes only ("-" when ret = 0)
    if (!guard_ok(dst, off_dst)) o << " stored-in-front-of-buffer";
    if (!null_buf && ret > cap) o << " ret-exceeds-len";
    else if (!null_buf && ret > 0) {
        bytes blk((unsigned char *)buf, (unsigned char *)buf + ret);
        blk.insert(blk.end(), rest.begin(), rest.end());
        o << " " << readers(blk, off_rd);
    }
    return o.str();
}
int main(int argc, char **argv) { return run_lines(argc, argv, step); }
