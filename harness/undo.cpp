// Engine `undo` (C15).  One op line = one whole history, run on a fresh UndoHistory.
//
//   H <tok>...   abstract events
//        R <addr-hex> <tag i|f|c> <old-hex8> <new-hex8>   recordEvent("/undo_change" "s<t><t>" addr old new)
//        S <k>                                            seekHistory(k)      (k: decimal int)
//        T <d>                                            clock += d seconds  (decimal, may be negative)
//   E <tok>...   end to end: the events come from rParam/rParamI ports (rCAPPLY), the
//                emitted messages are dispatched back into the ports (as test/undo-test.cpp does)
//        P <idx> <val-hex8>                               dispatch "<port idx>" with the value
//        S <k>, T <d>                                     as above
//
// Output: one token per op
//        R,P -> p<pos>/<size>            S -> p<pos>/<size>:<msgs>          T -> t
//   msgs = `-` or `;`-joined `<addr-hex>.<tag>.<bits-hex8>`; `E` = callback invoked with an
//   all-zero buffer.  In E mode every R/P/S token is followed by `|<a>,<bb>,<i>,<lng>` (the
//   object's fields as hex8 of the int value).
//
// time() is interposed: undo-history.cpp's `time(NULL)` resolves to the definition below.
#include "common.h"
#include <ctime>
#include <climits>
#include <cstdarg>
#include <rtosc/rtosc.h>
#include <rtosc/ports.h>
#include <rtosc/port-sugar.h>
#include <rtosc/undo-history.h>
using namespace vh;

static time_t g_clock = 1000000;
extern "C" time_t time(time_t *t)
{
    if (t) *t = g_clock;
    return g_clock;
}

static std::string hex8(uint32_t v)
{
    char b[16];
    snprintf(b, sizeof b, "%08x", v);
    return b;
}

static bool parse_hex8(const std::string &s, uint32_t &v)
{
    if (s.size() != 8) return false;
    v = 0;
    for (char c : s) {
        int h = hexval(c);
        if (h < 0) return false;
        v = v * 16 + (uint32_t)h;
    }
    return true;
}

static bool parse_int(const std::string &s, long long &v, long long lo, long long hi)
{
    if (s.empty() || s.size() > 12) return false;
    size_t i = (s[0] == '-' || s[0] == '+') ? 1 : 0;
    if (i == s.size()) return false;
    for (size_t j = i; j < s.size(); ++j)
        if (s[j] < '0' || s[j] > '9') return false;
    v = atoll(s.c_str());
    return v >= lo && v <= hi;
}

// decode a message handed to the UndoHistory callback
static std::string decode(const char *m)
{
    if (m[0] == 0 && m[4] != ',') return "E";
    const char *types = rtosc_argument_string(m);
    if (rtosc_narguments(m) != 1 || !strchr("ifc", types[0]))
        return hexs(m) + "?" + hexs(types);
    rtosc_arg_t a = rtosc_argument(m, 0);
    uint32_t bits;
    if (types[0] == 'f') memcpy(&bits, &a.f, 4);
    else bits = (uint32_t)a.i;
    return hexs(m) + "." + std::string(1, types[0]) + "." + hex8(bits);
}

// build the event message in an exact-size heap block and record it
static void record(rtosc::UndoHistory &h, const bytes &addr, char tag, uint32_t oldv, uint32_t newv)
{
    std::string a((const char *)addr.data(), addr.size());
    char types[4] = {'s', tag, tag, 0};
    rtosc_arg_t args[3];
    args[0].s = a.c_str();
    args[1].i = (int32_t)oldv;
    args[2].i = (int32_t)newv;
    size_t need = rtosc_amessage(NULL, 0, "/undo_change", types, args);
    Exact buf(need, 0xaa);
    rtosc_amessage(buf.c(), need, "/undo_change", types, args);
    h.recordEvent(buf.c());
}

static std::string posz(rtosc::UndoHistory &h)
{
    return "p" + std::to_string(h.getPos()) + "/" + std::to_string(h.size());
}

static std::string join(const std::vector<std::string> &v)
{
    if (v.empty()) return "-";
    std::string s;
    for (size_t i = 0; i < v.size(); ++i) s += (i ? ";" : "") + v[i];
    return s;
}

// ---- end-to-end object ------------------------------------------------------------
struct Object {
    Object() : a(0), bb(0), i(0), lng(0) {}
    char a;
    char bb;
    int i;
    int lng;
};
#define rObject Object
static rtosc::Ports ports = {
    rParam(a, "a"),
    rParam(bb, "bb"),
    rParamI(i, "i"),
    rParamI(lng, "lng"),
};
#undef rObject
static const char *port_name[] = {"a", "bb", "i", "lng"};
static const char port_type[] = {'c', 'c', 'i', 'i'};

struct Rt : public rtosc::RtData {
    char locbuf[128];
    char evbuf[512];
    rtosc::UndoHistory *uh;
    bool enable;
    Rt(Object *o, rtosc::UndoHistory *u) : uh(u), enable(true)
    {
        memset(locbuf, 0, sizeof locbuf);
        loc = locbuf;
        loc_size = sizeof locbuf;
        obj = o;
    }
    void reply(const char *path, const char *args, ...) override
    {
        if (strcmp(path, "/undo_change") || !enable) return;
        va_list va;
        va_start(va, args);
        size_t n = rtosc_vmessage(evbuf, sizeof evbuf, path, args, va);
        va_end(va);
        if (!n) return;
        Exact ex(bytes(evbuf, evbuf + n));
        uh->recordEvent(ex.c());
    }
    void reply(const char *) override {}
    void broadcast(const char *, const char *, ...) override {}
    void broadcast(const char *) override {}
};

static std::string store(const Object &o)
{
    return "|" + hex8((uint32_t)(int)o.a) + "," + hex8((uint32_t)(int)o.bb) + "," + hex8((uint32_t)o.i) + "," +
           hex8((uint32_t)o.lng);
}

static std::string step(const std::string &line)
{
    auto w = words(line);
    if (w.empty() || (w[0] != "H" && w[0] != "E")) return "bad-op";
    const bool e2e = w[0] == "E";
    g_clock = 1000000;
    rtosc::UndoHistory h;
    Object obj;
    Rt rt(&obj, &h);
    std::vector<std::string> msgs;
    h.setCallback([&](const char *m) {
        msgs.push_back(decode(m));
        if (e2e && m[0]) {
            rt.enable = false;
            ports.dispatch(m + 1, rt);
            rt.enable = true;
        }
    });
    std::string out;
    size_t i = 1;
    while (i < w.size()) {
        const std::string &op = w[i];
        std::string tok;
        if (op == "R" && !e2e && i + 4 < w.size()) {
            bytes addr;
            uint32_t ov, nv;
            if (!unhex(w[i + 1], addr) || w[i + 2].size() != 1 || !strchr("ifc", w[i + 2][0]) ||
                !parse_hex8(w[i + 3], ov) || !parse_hex8(w[i + 4], nv))
                return "bad-op";
            for (unsigned char c : addr)
                if (!c) return "bad-op";
            record(h, addr, w[i + 2][0], ov, nv);
            tok = posz(h);
            i += 5;
        } else if (op == "P" && e2e && i + 2 < w.size()) {
            long long idx;
            uint32_t v;
            if (!parse_int(w[i + 1], idx, 0, 3) || !parse_hex8(w[i + 2], v)) return "bad-op";
            char mbuf[64];
            char types[2] = {port_type[idx], 0};
            rtosc_message(mbuf, sizeof mbuf, port_name[idx], types, (int)(int32_t)v);
            ports.dispatch(mbuf, rt);
            tok = posz(h);
            i += 3;
        } else if (op == "S" && i + 1 < w.size()) {
            long long k;
            if (!parse_int(w[i + 1], k, INT_MIN, INT_MAX)) return "bad-op";
            msgs.clear();
            h.seekHistory((int)k);
            tok = posz(h) + ":" + join(msgs);
            i += 2;
        } else if (op == "T" && i + 1 < w.size()) {
            long long d;
            if (!parse_int(w[i + 1], d, -1000000000LL, 1000000000LL)) return "bad-op";
            g_clock += (time_t)d;
            tok = "t";
            i += 2;
        } else
            return "bad-op";
        if (e2e && tok != "t") tok += store(obj);
        out += (out.empty() ? "" : " ") + tok;
    }
    return out.empty() ? "-" : out;
}

int main(int argc, char **argv)
{
    // self-test of the clock interposition: two events for one address 1000 s apart must not merge
    {
        rtosc::UndoHistory h;
        h.setCallback([](const char *) {});
        bytes a = {'/', 'x'};
        g_clock = 5;
        record(h, a, 'i', 0, 1);
        g_clock = 1005;
        record(h, a, 'i', 1, 2);
        size_t far = h.size();
        record(h, a, 'i', 2, 3);
        if (far != 2 || h.size() != 2) {
            fprintf(stderr, "undo harness: time() interposition is not effective (sizes %zu %zu)\n", far, h.size());
            return 3;
        }
    }
    return run_lines(argc, argv, step);
}
