// Engine `undo` (C15).  One op line = one whole history, run on a fresh UndoHistory.
//
//   H <tok>...   abstract events
//        R <addr-hex> <tag i|f|c> <old-hex8> <new-hex8>   recordEvent("/undo_change" "s<t><t>" addr old new)
//        S <k>                                            seekHistory(k)      (k: decimal int)
//        T <d>                                            clock += d seconds  (decimal, may be negative)
//   E <tok>...   end to end: the events come from rParam/rParamI ports (rCAPPLY), the
//                emitted messages are dispatched back into the ports (as test/undo-test.cpp does)
//        P <idx> <val-hex8>                               dispatch "<port idx>" with the value
//        S <k>, T <d>                                     as above
//
// Output: one token per op
//        R,P -> p<pos>/<size>            S -> p<pos>/<size>:<msgs>          T -> t
//   msgs = `-` or `;`-joined `<addr-hex>.<tag>.<bits-hex8>`; `E` = callback invoked with an
//   all-zero buffer.  In E mode every R/P/S token is followed by `|<a>,<bb>,<i>,<lng>` (the
//   object's fields as hex8 of the int value).
//
// Outside the claimed domain the whole output line is `ood` (the history is still run, under
// the sanitizers, but nothing of it is compared):
//   * some recorded address is 248 bytes or longer (its set-message does not fit the
//     library's 256-byte buffer; the property makes no claim about what is emitted then);
//   * the clock is moved backwards (T with a negative step) after the first R / P of the
//     line ("recorded within two seconds" says nothing about negative ages).  Negative
//     steps *before* the first record only choose the clock origin of the line.
//
// The wall clock is interposed: time(), clock_gettime() (hence std::chrono::system_clock /
// steady_clock of libstdc++), gettimeofday() and timespec_get() all resolve to the
// definitions below and read the harness clock.
#include "common.h"
#include <ctime>
#include <climits>
#include <cstdarg>
#include <unistd.h>
#include <sys/wait.h>
#include <sys/time.h>
#include <chrono>
#include <rtosc/rtosc.h>
#include <rtosc/ports.h>
#include <rtosc/port-sugar.h>
#include <rtosc/undo-history.h>
using namespace vh;

static time_t g_clock = 1000000;
static const size_t DOMAIN_ADDR_LIMIT = 248;   // number of the property module, not read from the library
extern "C" time_t time(time_t *t) noexcept
{
    if (t) *t = g_clock;
    return g_clock;
}
extern "C" int clock_gettime(clockid_t, struct timespec *ts) noexcept
{
    if (ts) {
        ts->tv_sec = g_clock;
        ts->tv_nsec = 0;
    }
    return 0;
}
extern "C" int gettimeofday(struct timeval *tv, void *) noexcept
{
    if (tv) {
        tv->tv_sec = g_clock;
        tv->tv_usec = 0;
    }
    return 0;
}
extern "C" int timespec_get(struct timespec *ts, int base) noexcept
{
    if (ts) {
        ts->tv_sec = g_clock;
        ts->tv_nsec = 0;
    }
    return base;
}

static std::string hex8(uint32_t v)
{
    char b[16];
    snprintf(b, sizeof b, "%08x", v);
    return b;
}

static bool parse_hex8(const std::string &s, uint32_t &v)
{
    if (s.size() != 8) return false;
    v = 0;
    for (char c : s) {
        int h = hexval(c);
        if (h < 0) return false;
        v = v * 16 + (uint32_t)h;
    }
    return true;
}

static bool parse_int(const std::string &s, long long &v, long long lo, long long hi)
{
    if (s.empty() || s.size() > 12) return false;
    size_t i = (s[0] == '-' || s[0] == '+') ? 1 : 0;
    if (i == s.size()) return false;
    for (size_t j = i; j < s.size(); ++j)
        if (s[j] < '0' || s[j] > '9') return false;
    v = atoll(s.c_str());
    return v >= lo && v <= hi;
}

// decode a message handed to the UndoHistory callback
static std::string decode(const char *m)
{
    if (m[0] == 0 && m[4] != ',') return "E";
    const char *types = rtosc_argument_string(m);
    if (rtosc_narguments(m) != 1 || !strchr("ifc", types[0]))
        return hexs(m) + "?" + hexs(types);
    rtosc_arg_t a = rtosc_argument(m, 0);
    uint32_t bits;
    if (types[0] == 'f') memcpy(&bits, &a.f, 4);
    else bits = (uint32_t)a.i;
    return hexs(m) + "." + std::string(1, types[0]) + "." + hex8(bits);
}

// build the event message in an exact-size heap block and record it
static void record(rtosc::UndoHistory &h, const bytes &addr, char tag, uint32_t oldv, uint32_t newv)
{
    std::string a((const char *)addr.data(), addr.size());
    char types[4] = {'s', tag, tag, 0};
    rtosc_arg_t args[3];
    args[0].s = a.c_str();
    args[1].i = (int32_t)oldv;
    args[2].i = (int32_t)newv;
    size_t need = rtosc_amessage(NULL, 0, "/undo_change", types, args);
    Exact buf(need, 0xaa);
    rtosc_amessage(buf.c(), need, "/undo_change", types, args);
    h.recordEvent(buf.c());
}

static std::string posz(rtosc::UndoHistory &h)
{
    return "p" + std::to_string(h.getPos()) + "/" + std::to_string(h.size());
}

static std::string join(const std::vector<std::string> &v)
{
    if (v.empty()) return "-";
    std::string s;
    for (size_t i = 0; i < v.size(); ++i) s += (i ? ";" : "") + v[i];
    return s;
}

// ---- end-to-end object ------------------------------------------------------------
struct Object {
    Object() : a(0), bb(0), i(0), lng(0) {}
    char a;
    char bb;
    int i;
    int lng;
};
#define rObject Object
static rtosc::Ports ports = {
    rParam(a, "a"),
    rParam(bb, "bb"),
    rParamI(i, "i"),
    rParamI(lng, "lng"),
};
#undef rObject
static const char *port_name[] = {"a", "bb", "i", "lng"};
static const char port_type[] = {'c', 'c', 'i', 'i'};

struct Rt : public rtosc::RtData {
    char locbuf[128];
    char evbuf[512];
    rtosc::UndoHistory *uh;
    bool enable;
    Rt(Object *o, rtosc::UndoHistory *u) : uh(u), enable(true)
    {
        memset(locbuf, 0, sizeof locbuf);
        loc = locbuf;
        loc_size = sizeof locbuf;
        obj = o;
    }
    void reply(const char *path, const char *args, ...) override
    {
        if (strcmp(path, "/undo_change") || !enable) return;
        va_list va;
        va_start(va, args);
        size_t n = rtosc_vmessage(evbuf, sizeof evbuf, path, args, va);
        va_end(va);
        if (!n) return;
        Exact ex(bytes(evbuf, evbuf + n));
        uh->recordEvent(ex.c());
    }
    void reply(const char *) override {}
    void broadcast(const char *, const char *, ...) override {}
    void broadcast(const char *) override {}
};

static std::string store(const Object &o)
{
    return "|" + hex8((uint32_t)(int)o.a) + "," + hex8((uint32_t)(int)o.bb) + "," + hex8((uint32_t)o.i) + "," +
           hex8((uint32_t)o.lng);
}

static std::string step(const std::string &line)
{
    auto w = words(line);
    if (w.empty() || (w[0] != "H" && w[0] != "E")) return "bad-op";
    const bool e2e = w[0] == "E";
    g_clock = 1000000;
    rtosc::UndoHistory h;
    Object obj;
    Rt rt(&obj, &h);
    std::vector<std::string> msgs;
    h.setCallback([&](const char *m) {
        msgs.push_back(decode(m));
        if (e2e && m[0]) {
            rt.enable = false;
            ports.dispatch(m + 1, rt);
            rt.enable = true;
        }
    });
    std::string out;
    bool ood = false, recorded = false;
    size_t i = 1;
    while (i < w.size()) {
        const std::string &op = w[i];
        std::string tok;
        if (op == "R" && !e2e && i + 4 < w.size()) {
            bytes addr;
            uint32_t ov, nv;
            if (!unhex(w[i + 1], addr) || w[i + 2].size() != 1 || !strchr("ifc", w[i + 2][0]) ||
                !parse_hex8(w[i + 3], ov) || !parse_hex8(w[i + 4], nv))
                return "bad-op";
            for (unsigned char c : addr)
                if (!c) return "bad-op";
            if (addr.size() >= DOMAIN_ADDR_LIMIT) ood = true;
            recorded = true;
            record(h, addr, w[i + 2][0], ov, nv);
            tok = posz(h);
            i += 5;
        } else if (op == "P" && e2e && i + 2 < w.size()) {
            long long idx;
            uint32_t v;
            if (!parse_int(w[i + 1], idx, 0, 3) || !parse_hex8(w[i + 2], v)) return "bad-op";
            char mbuf[64];
            char types[2] = {port_type[idx], 0};
            rtosc_message(mbuf, sizeof mbuf, port_name[idx], types, (int)(int32_t)v);
            recorded = true;
            ports.dispatch(mbuf, rt);
            tok = posz(h);
            i += 3;
        } else if (op == "S" && i + 1 < w.size()) {
            long long k;
            if (!parse_int(w[i + 1], k, INT_MIN, INT_MAX)) return "bad-op";
            msgs.clear();
            h.seekHistory((int)k);
            tok = posz(h) + ":" + join(msgs);
            i += 2;
        } else if (op == "T" && i + 1 < w.size()) {
            long long d;
            if (!parse_int(w[i + 1], d, -1000000000LL, 1000000000LL)) return "bad-op";
            if (d < 0 && recorded) ood = true;
            g_clock += (time_t)d;
            tok = "t";
            i += 2;
        } else
            return "bad-op";
        if (e2e && tok != "t") tok += store(obj);
        out += (out.empty() ? "" : " ") + tok;
    }
    if (ood) return "ood";
    return out.empty() ? "-" : out;
}

// Runs the op lines in a forked worker; when the worker dies on a line (sanitizer abort,
// signal) that line's output is `crash:<how>` and a new worker continues with the next
// line, so a defect that crashes on most histories still yields one output line per op.
// After 20 crashed lines the harness re-executes itself with sanitizer symbolization
// switched off (every report otherwise spawns a symbolizer; a defect that crashes on
// thousands of histories would take a quarter of an hour).
static int run_forked(const char *file, size_t start0)
{
    std::ifstream in(file);
    std::vector<std::string> lines;
    std::string line;
    while (std::getline(in, line))
        if (!line.empty() && line[0] != '#') lines.push_back(line);
    size_t start = start0;
    int crashes = 0;
    while (start < lines.size()) {
        if (crashes >= 20 && !getenv("VH_QUIET")) {
            std::string a = std::string(getenv("ASAN_OPTIONS") ? getenv("ASAN_OPTIONS") : "") + ":symbolize=0";
            std::string u = std::string(getenv("UBSAN_OPTIONS") ? getenv("UBSAN_OPTIONS") : "") +
                            ":symbolize=0:print_stacktrace=0";
            setenv("ASAN_OPTIONS", a.c_str(), 1);
            setenv("UBSAN_OPTIONS", u.c_str(), 1);
            setenv("VH_QUIET", "1", 1);
            std::string st = std::to_string(start);
            fflush(stdout);
            execl("/proc/self/exe", "undo-harness", file, st.c_str(), (char *)NULL);
            return 4;
        }
        int fd[2];
        if (pipe(fd)) return 4;
        fflush(stdout);
        pid_t pid = fork();
        if (pid < 0) return 4;
        if (pid == 0) {
            close(fd[0]);
            FILE *o = fdopen(fd[1], "w");
            for (size_t i = start; i < lines.size(); ++i) {
                std::string out = step(lines[i]);
                fputs(out.c_str(), o);
                fputc('\n', o);
                fflush(o);
            }
            fclose(o);
            _exit(0);
        }
        close(fd[1]);
        FILE *r = fdopen(fd[0], "r");
        size_t got = 0;
        std::string cur;
        int c;
        while ((c = fgetc(r)) != EOF) {
            if (c == '\n') {
                fputs(cur.c_str(), stdout);
                fputc('\n', stdout);
                cur.clear();
                ++got;
            } else
                cur.push_back((char)c);
        }
        fclose(r);
        int st = 0;
        waitpid(pid, &st, 0);
        fflush(stdout);
        if (got >= lines.size() - start) break;
        char how[64];
        if (WIFSIGNALED(st)) snprintf(how, sizeof how, "crash:signal:%d", WTERMSIG(st));
        else snprintf(how, sizeof how, "crash:exit:%d", WIFEXITED(st) ? WEXITSTATUS(st) : -1);
        puts(how);
        fflush(stdout);
        start += got + 1;
        ++crashes;
    }
    return 0;
}

int main(int argc, char **argv)

{
    // The definition of time() above is part of this executable, so the static linker binds
    // undo-history.o's reference to it (an executable's own definition precedes libc and the
    // sanitizer runtime).  Check that the symbol really is ours.
    time_t (*volatile fp)(time_t *) = &time;
    int (*volatile fc)(clockid_t, struct timespec *) = &clock_gettime;
    int (*volatile fg)(struct timeval *, void *) = (int (*)(struct timeval *, void *)) & gettimeofday;
    g_clock = 12345;
    struct timespec ts = {0, 0};
    struct timeval tv = {0, 0};
    fc(CLOCK_REALTIME, &ts);
    fg(&tv, NULL);
    // std::chrono::system_clock::now() lives in libstdc++.so and calls clock_gettime through
    // the dynamic symbol table: the executable's definition must win there as well.
    time_t viachrono = std::chrono::system_clock::to_time_t(std::chrono::system_clock::now());
    if (fp(NULL) != 12345 || ts.tv_sec != 12345 || tv.tv_sec != 12345 || viachrono != 12345) {
        fprintf(stderr, "undo harness: clock interposition is not effective (time %ld clock_gettime %ld "
                        "gettimeofday %ld chrono %ld)\n",
                (long)fp(NULL), (long)ts.tv_sec, (long)tv.tv_sec, (long)viachrono);
        return 3;
    }
    if (argc < 2) { fprintf(stderr, "usage: %s <ops-file>\n", argv[0]); return 2; }
    return run_forked(argv[1], argc > 2 ? (size_t)atoll(argv[2]) : 0);
}
