// Engine `oscbuf` (C02): fixed-buffer discipline of message and bundle construction.
// Op / output lines: see lean/Driver/OscbufEngine.lean (the two must print the same text).
//
// Every destination is a heap block of exactly `cap` bytes (ASan red zone right behind byte
// cap-1; for cap == 0 a pointer with no accessible byte behind it).  Each call is repeated on
// a block of cap+16 bytes whose last 16 bytes are a canary: the call is told `cap`, must leave
// the canary intact and must produce the same bytes and the same return value.
#include "bundle_common.h"
#include <rtosc/thread-link.h>
#include <rtosc/ports.h>
using namespace vb;

struct Args {
    std::vector<rtosc_arg_t> a;                    // one per payload tag
    std::vector<std::string> strs;                 // storage of string arguments
    std::vector<std::unique_ptr<Block>> blobs;     // storage of blob data
    std::vector<uint64_t> dbits;                   // 64-bit tokens as given (promoted doubles)
};

static bool has_payload(char t) { return t && strchr("isbfhtdSrmc", t); }

static bool parse_args(const std::vector<std::string> &w, size_t from, Args &out) {
    size_t n = w.size() - from;
    out.a.resize(n);
    out.strs.resize(n);
    out.dbits.assign(n, 0);
    if (n) memset(out.a.data(), 0, n * sizeof(rtosc_arg_t));
    for (size_t k = 0; k < n; ++k) {
        const std::string &tok = w[from + k];
        if (tok.empty()) return false;
        std::string body = tok.substr(1);
        bytes b;
        switch (tok[0]) {
        case 'w':
            if (!unhex(body, b) || b.size() != 4) return false;
            out.a[k].i = (int32_t)(((uint32_t)b[0] << 24) | ((uint32_t)b[1] << 16) | ((uint32_t)b[2] << 8) | b[3]);
            break;
        case 'q': {
            if (!unhex(body, b) || b.size() != 8) return false;
            uint64_t v = 0;
            for (int i = 0; i < 8; ++i) v = (v << 8) | b[i];
            out.a[k].t = v;
            out.dbits[k] = v;
            break;
        }
        case 'm':
            if (!unhex(body, b) || b.size() != 4) return false;
            for (int i = 0; i < 4; ++i) out.a[k].m[i] = b[i];
            break;
        case 's':
            if (!unhex(body, b)) return false;
            out.strs[k].assign((const char *)b.data(), b.size());
            break;
        case 'b': {
            size_t c = body.find(':');
            if (c == std::string::npos) return false;
            long long len = atoll(body.substr(0, c).c_str());
            std::string d = body.substr(c + 1);
            out.a[k].b.len = (int32_t)len;
            if (d == "N") out.a[k].b.data = NULL;
            else {
                if (!unhex(d, b)) return false;
                out.blobs.emplace_back(new Block(b));
                out.a[k].b.data = out.blobs.back()->p;
            }
            break;
        }
        default:
            return false;
        }
    }
    for (size_t k = 0; k < n; ++k)
        if (w[from + k][0] == 's') out.a[k].s = out.strs[k].c_str();
    return true;
}

// x86-64 SysV: a va_list whose register save area is exhausted, so that every va_arg
// fetches the next 8-byte slot of overflow_arg_area.
struct VaTag { unsigned gp_offset, fp_offset; void *overflow_arg_area, *reg_save_area; };

static size_t call_v(char *buf, size_t cap, const char *addr, const char *tags, Args &A) {
    std::vector<uint64_t> slots;
    std::vector<std::unique_ptr<Block>> midis;
    size_t k = 0;
    for (const char *t = tags; *t; ++t) {
        if (!has_payload(*t)) continue;
        const rtosc_arg_t &a = A.a[k];
        switch (*t) {
        case 'h': case 't': case 'd': slots.push_back(a.t); break;
        case 'f': slots.push_back(A.dbits[k]); break;                 // promoted double
        case 'i': case 'c': case 'r': slots.push_back((uint64_t)(uint32_t)a.i); break;
        case 'm': {
            bytes mb(a.m, a.m + 4);
            midis.emplace_back(new Block(mb));
            slots.push_back((uint64_t)(uintptr_t)midis.back()->p);
            break;
        }
        case 's': case 'S': slots.push_back((uint64_t)(uintptr_t)a.s); break;
        case 'b':
            slots.push_back((uint64_t)(uint32_t)a.b.len);
            slots.push_back((uint64_t)(uintptr_t)a.b.data);
            break;
        }
        ++k;
    }
    slots.push_back(0);
    VaTag tag = {48, 304, slots.data(), NULL};
    va_list ap;
    static_assert(sizeof(ap) == sizeof(tag), "x86-64 SysV va_list expected");
    memcpy(&ap, &tag, sizeof(tag));
    return rtosc_vmessage(buf, cap, addr, tags, ap);
}

// one destination capacity: the call on the exact-size block, then on the canary block
template <class F> static bool one_cap(size_t cap, F call, std::ostringstream &o, std::string &guard) {
    Block dst(cap, 0xAA);
    size_t ret = call(dst.c(), cap);
    // observable: the whole block after a failed call, the `ret` bytes written after a successful one
    o << cap << ":" << ret << ":";
    if (ret == 0) o << hexz(dst.p, cap);
    else if (ret <= cap) o << hex(dst.p, ret);
    Block can(cap + 16, 0xAA);
    memset(can.p + cap, 0xC5, 16);
    size_t ret2 = call(can.c(), cap);
    bool ok = ret2 == ret && (cap == 0 || memcmp(can.p, dst.p, cap) == 0);
    for (size_t i = 0; i < 16; ++i) ok = ok && can.p[cap + i] == 0xC5;
    if (!ok && guard == "ok") { std::ostringstream g; g << "bad@" << cap; guard = g.str(); }
    return ret <= cap;
}

// literal call sites of the variadic entry points (rtosc_message, ThreadLink::write, RtData::reply,
// RtData::broadcast); `k` selects the type string.  Same list in lean/Driver/OscbufEngine.lean
// (`templates`) and tools/props/c02.py (TEMPLATES).
static const char *TEMPLATES[] = {"", "s", "isi", "ss", "b", "ifs", "sT", "hd", "c", "m", "tS", "rf", "TFNI",
                                  "iiiiiiii", "sbs", "dfhi", "[sb]i"};
static const int NTEMPLATES = 17;

#define VARIADIC_CALL(F, addr)                                                                         \
    switch (k) {                                                                                       \
    case 0: F(addr, ""); break;                                                                        \
    case 1: F(addr, "s", A.a[0].s); break;                                                             \
    case 2: F(addr, "isi", A.a[0].i, A.a[1].s, A.a[2].i); break;                                       \
    case 3: F(addr, "ss", A.a[0].s, A.a[1].s); break;                                                  \
    case 4: F(addr, "b", A.a[0].b.len, A.a[0].b.data); break;                                          \
    case 5: F(addr, "ifs", A.a[0].i, dbl(A.dbits[1]), A.a[2].s); break;                                \
    case 6: F(addr, "sT", A.a[0].s); break;                                                            \
    case 7: F(addr, "hd", A.a[0].h, dbl(A.dbits[1])); break;                                           \
    case 8: F(addr, "c", A.a[0].i); break;                                                             \
    case 9: F(addr, "m", A.a[0].m); break;                                                             \
    case 10: F(addr, "tS", A.a[0].t, A.a[1].s); break;                                                 \
    case 11: F(addr, "rf", A.a[0].i, dbl(A.dbits[1])); break;                                          \
    case 12: F(addr, "TFNI"); break;                                                                   \
    case 13: F(addr, "iiiiiiii", A.a[0].i, A.a[1].i, A.a[2].i, A.a[3].i, A.a[4].i, A.a[5].i, A.a[6].i, \
               A.a[7].i); break;                                                                       \
    case 14: F(addr, "sbs", A.a[0].s, A.a[1].b.len, A.a[1].b.data, A.a[2].s); break;                   \
    case 15: F(addr, "dfhi", dbl(A.dbits[0]), dbl(A.dbits[1]), A.a[2].h, A.a[3].i); break;             \
    case 16: F(addr, "[sb]i", A.a[0].s, A.a[1].b.len, A.a[1].b.data, A.a[2].i); break;                 \
    }

static double dbl(uint64_t bits) { double d; memcpy(&d, &bits, 8); return d; }

static bool args_fit(int k, const std::vector<std::string> &w, size_t from) {
    if (k < 0 || k >= NTEMPLATES) return false;
    size_t n = 0;
    for (const char *t = TEMPLATES[k]; *t; ++t) n += has_payload(*t);
    if (w.size() - from != n) return false;
    size_t j = from;
    for (const char *t = TEMPLATES[k]; *t; ++t) {
        if (!has_payload(*t)) continue;
        char want = (*t == 's' || *t == 'S') ? 's' : (*t == 'b') ? 'b' : (*t == 'm') ? 'm'
                    : (*t == 'i' || *t == 'c' || *t == 'r') ? 'w' : 'q';
        if (w[j].empty() || w[j][0] != want) return false;
        ++j;
    }
    return true;
}

struct Capture : rtosc::RtData {
    std::string out;
    size_t bound = 8192;                          // size of the wrapper's stack buffer (from the op line)
    void see(const char *tag, const char *msg) {
        size_t l = rtosc_message_length(msg, bound);
        std::ostringstream o;
        o << tag << "=" << l << ":" << hex((const unsigned char *)msg, l);
        out = o.str();
    }
    void reply(const char *msg) override { see("reply", msg); }
    void broadcast(const char *msg) override { see("broadcast", msg); }
    using rtosc::RtData::reply;
    using rtosc::RtData::broadcast;
};

static std::string tlink_state(rtosc::ThreadLink &tl, size_t maxmsg) {
    std::ostringstream o;
    bool has = tl.hasNext();
    o << "n=" << (has ? 1 : 0);
    if (has) {
        const char *m = tl.read();
        size_t l = rtosc_message_length(m, maxmsg);
        o << " m=" << l << ":" << hex((const unsigned char *)m, l);
    } else
        o << " w=" << hexz((const unsigned char *)tl.buffer(), maxmsg);   // nothing queued: buffer zero-filled?
    return o.str();
}

static std::string step(const std::string &line) {
    arm_watchdog();
    auto w = words(line);
    if (w.size() < 2) return "bad-op";
    if ((w[0] == "M" || w[0] == "J") && w.size() >= 6) {   // M|J <A|V|L> <lo> <hi> <addr> <tags> <arg>*
        const std::string &mode = w[1];
        const bool junk = w[0] == "J";
        size_t lo = (size_t)atoll(w[2].c_str()), hi = (size_t)atoll(w[3].c_str());
        bytes addr, tags;
        if (!unhex(w[4], addr) || !unhex(w[5], tags) || hi < lo || hi - lo > 100000) return "bad-op";
        Args A;
        if (!parse_args(w, 6, A)) return "bad-op";
        std::string saddr((const char *)addr.data(), addr.size()), stags((const char *)tags.data(), tags.size());
        int k = -1;                               // mode L: the literal call site with this type string
        if (mode == "L") {
            for (int j = 0; j < NTEMPLATES; ++j)
                if (stags == TEMPLATES[j]) k = j;
            if (junk || k < 0 || !args_fit(k, w, 6)) return "bad-op";
        }
        auto call = [&](char *b, size_t cap) -> size_t {
            if (mode == "A") return rtosc_amessage(b, cap, saddr.c_str(), stags.c_str(), A.a.data());
            if (mode == "L") {
                size_t ret = 0;
#define MSG_CALL(addr, ...) ret = rtosc_message(b, cap, addr, __VA_ARGS__)
                VARIADIC_CALL(MSG_CALL, saddr.c_str())
#undef MSG_CALL
                return ret;
            }
            return call_v(b, cap, saddr.c_str(), stags.c_str(), A);
        };
        if (mode != "A" && mode != "V" && mode != "L") return "bad-op";
        std::ostringstream o, c;
        std::string guard = "ok";
        if (junk) {
            // a type string with bytes that are no tags (outside the property's input space): only
            // "no store outside the block" is evaluated, here: exact-size blocks under ASan, the
            // canary blocks, return value not larger than the capacity
            call(NULL, 0);
            call(NULL, hi);
            std::string bad;
            for (size_t cap = lo; cap <= hi; ++cap) {
                std::ostringstream one;
                if (!one_cap(cap, call, one, guard) && bad.empty()) bad = one.str().substr(0, 60);
            }
            if (bad.empty() && guard == "ok") return "g=ok safe";
            return "g=" + guard + " unsafe@" + bad;
        }
        o << "z=" << call(NULL, 0) << " zh=" << call(NULL, hi);
        for (size_t cap = lo; cap <= hi; ++cap) {
            if (cap != lo) c << ",";
            if (!one_cap(cap, call, c, guard)) c << "!ret-exceeds-len";
        }
        o << " g=" << guard << " c=" << c.str();
        return o.str();
    }
    if (w[0] == "B" && w.size() >= 4) {           // B <lo> <hi> <tree>   (top-level capacity replaced)
        size_t lo = (size_t)atoll(w[1].c_str()), hi = (size_t)atoll(w[2].c_str());
        if (hi < lo || hi - lo > 100000) return "bad-op";
        size_t i = 3;
        Node n;
        if (!parse_node(w, i, n) || i != w.size() || !n.is_bundle) return "bad-op";
        Kids k;
        build_kids(n, k);
        auto call = [&](char *b, size_t cap) -> size_t { return call_bundle(b, cap, n.tt, k.ptrs); };
        std::ostringstream o, c;
        std::string guard = "ok";
        for (size_t cap = lo; cap <= hi; ++cap) {
            if (cap != lo) c << ",";
            if (!one_cap(cap, call, c, guard)) c << "!ret-exceeds-len";
        }
        o << "g=" << guard << " c=" << c.str();
        return o.str();
    }
    if (w[0] == "T" && w.size() >= 4) {           // T <maxmsg> <addr> <tags> <arg>*  : writeArray
        size_t maxmsg = (size_t)atoll(w[1].c_str());
        bytes addr, tags;
        if (maxmsg < 1 || !unhex(w[2], addr) || !unhex(w[3], tags)) return "bad-op";
        Args A;
        if (!parse_args(w, 4, A)) return "bad-op";
        std::string saddr((const char *)addr.data(), addr.size()), stags((const char *)tags.data(), tags.size());
        rtosc::ThreadLink tl(maxmsg, 2);
        tl.writeArray(saddr.c_str(), stags.c_str(), A.a.data());
        return tlink_state(tl, maxmsg);
    }
    if (w[0][0] == 'W' && w.size() >= 3) {        // W<k> <maxmsg> <addr> <arg>*  : ThreadLink::write(...)
        int k = atoi(w[0].c_str() + 1);
        size_t maxmsg = (size_t)atoll(w[1].c_str());
        bytes addr;
        if (maxmsg < 1 || !unhex(w[2], addr) || !args_fit(k, w, 3)) return "bad-op";
        Args A;
        if (!parse_args(w, 3, A)) return "bad-op";
        std::string saddr((const char *)addr.data(), addr.size());
        rtosc::ThreadLink tl(maxmsg, 2);
        VARIADIC_CALL(tl.write, saddr.c_str())
        return tlink_state(tl, maxmsg);
    }
    if ((w[0][0] == 'R' || w[0][0] == 'Q') && w.size() >= 4) {   // R<k> reply / Q<k> broadcast  <N> <cap> <addr> <arg>*
        int k = atoi(w[0].c_str() + 1);
        bytes addr;
        if (!unhex(w[3], addr) || !args_fit(k, w, 4)) return "bad-op";
        Args A;
        if (!parse_args(w, 4, A)) return "bad-op";
        std::string saddr((const char *)addr.data(), addr.size());
        Capture d;
        d.bound = (size_t)atoll(w[1].c_str());    // N (w[2], the capacity passed, is for the model and the oracle)
        if (w[0][0] == 'R') { VARIADIC_CALL(d.reply, saddr.c_str()) }
        else { VARIADIC_CALL(d.broadcast, saddr.c_str()) }
        return d.out.empty() ? "nothing" : d.out;
    }
    return "bad-op";
}
int main(int argc, char **argv) { return run_lines(argc, argv, step); }
