// Engine `auto` (C19): the real rtosc::AutomationMgr driven by one whole operation
// history per op line.
//
// op line:   N:<nslots>:<per_slot>  P:<kind>:<min>:<max>:<scale>:<logmin>:<flag>:<Lmin>:<Lmax>[:<address>] ...  <op> ...
//   port k has kind i | f | T and is called "<leaf>::<kind>"; its address is the optional last field
//   ("/<leaf>" or "/<dir>/<leaf>", names over [A-Za-z0-9_], one nesting level: "<dir>/" is a port
//   with its own table), default "/p<letter k>";
//   min/max/logmin are the literals as they stand in the metadata (anything atof reads; "-" = key absent),
//   scale is lin | log | -, flag is - | internal | nolearn; Lmin/Lmax (only read by the model)
//   are the float bit patterns libm's logf gives for the log-scale bounds.
//   ops:  B:s:p:l  createBinding(s, path of port p, l)        (p >= #ports: a path that does not exist)
//         H:s:j:p  setSlotSubPath(s, j, path of port p)
//         C:s      clearSlot        D:s:j  clearSlotSub
//         G:s:j:x  setSlotSubGain(s,j,x); updateMapping(s,j)   O:s:j:x  same for the offset
//         S:s:x    setSlot          U:s:j:x  setSlotSub        (x = float bit pattern, 8 hex digits)
//         M:c:t:v  handleMidi(c, t, v)
// output:    one segment per op, joined by '|':
//              <emitted messages, space separated>;<learning,midi_cc,midi_nrpn of every slot, '/' separated>
//            message = <address hex>,<whole type-tag string>[,<first argument>][,x=<bits>],#<message size>
//            first argument: decimal for 'i', float bit pattern for 'f'; x=<bits of the argument of
//            expf/exp> when the value went through libm's exponential (log-scale parameter).
//            A message with an empty address (rtosc_message failed) is printed as  -,?,#0.
// createBinding/setSlotSubPath do not range-check their slot/sub arguments (the model says
// "oob" for such a line); the harness refuses to run them: "oob".
//
// The library is linked as it is.  Its calls of libm's expf / exp are intercepted at link time
// (-Wl,--wrap=expf -Wl,--wrap=exp, see HARNESS in tools/props/c19.py) so that the argument of the
// exponential (the clamped value of a log-scale parameter) can be observed whichever spelling
// (expf(v), std::exp(v), (float)exp((double)v)) the code uses.
#include "common.h"
#include <cmath>
#include <cstdio>
#include <functional>
#include <map>
#include <memory>
#include <rtosc/automations.h>
#include <rtosc/ports.h>
#include <rtosc/rtosc.h>

namespace vhx {
static bool have_x = false;
static float last_x = 0;
} // namespace vhx
extern "C" {
float __real_expf(float);
double __real_exp(double);
float __wrap_expf(float x) { vhx::have_x = true; vhx::last_x = x; return __real_expf(x); }
double __wrap_exp(double x) { vhx::have_x = true; vhx::last_x = (float)x; return __real_exp(x); }
}

using namespace vh;

namespace {
struct DynPorts : rtosc::Ports {
    DynPorts() : rtosc::Ports({}) {}
    void add(const char *name, const char *meta, const rtosc::Ports *sub = NULL) {
        ports.push_back(rtosc::Port{name, meta, sub, [](const char *, rtosc::RtData &) {}});
    }
    // no refreshMagic(): the hash tables serve Ports::dispatch only; apropos (all the automation code
    // uses) walks the port vector, and building the tables for 100-character names costs milliseconds
};

bool name_ok(const std::string &s) {
    if (s.empty()) return false;
    for (char c : s)
        if (!((c >= 'a' && c <= 'z') || (c >= 'A' && c <= 'Z') || (c >= '0' && c <= '9') || c == '_')) return false;
    return true;
}

std::vector<std::string> split(const std::string &s, char c) {
    std::vector<std::string> out;
    std::string cur;
    for (char ch : s) {
        if (ch == c) { out.push_back(cur); cur.clear(); }
        else cur.push_back(ch);
    }
    out.push_back(cur);
    return out;
}

bool parse_int(const std::string &s, int &v) {
    if (s.empty()) return false;
    char *e = NULL;
    long l = strtol(s.c_str(), &e, 10);
    if (*e) return false;
    v = (int)l;
    return true;
}

bool parse_fbits(const std::string &s, float &f) {
    if (s.size() != 8) return false;
    uint32_t u = 0;
    for (char c : s) {
        int h = hexval(c);
        if (h < 0) return false;
        u = (u << 4) | (uint32_t)h;
    }
    memcpy(&f, &u, 4);
    return true;
}

std::string fbits(float f) {
    if (f == 0.0f) f = 0.0f; // canonical zero: the sign of zero is not an observable
    uint32_t u;
    memcpy(&u, &f, 4);
    char buf[16];
    snprintf(buf, sizeof buf, "%08x", u);
    return buf;
}

void kv(std::string &m, const char *k, const std::string &v) {
    m += ":";
    m += k;
    m.push_back('\0');
    m += "=";
    m += v;
    m.push_back('\0');
}
} // namespace

static std::string step(const std::string &line) {
    auto w = words(line);
    if (w.empty()) return "bad-op";
    auto h = split(w[0], ':');
    int nslots, per_slot;
    if (h.size() != 3 || h[0] != "N" || !parse_int(h[1], nslots) || !parse_int(h[2], per_slot)) return "bad-op";
    if (nslots < 1 || nslots > 64 || per_slot < 1 || per_slot > 16) return "bad-op";

    // ---- port table ------------------------------------------------------------------
    std::vector<std::string> names, metas, paths, dirs;
    std::vector<bool> usable; // the port passes the three early returns of createBinding
    size_t i = 1;
    for (; i < w.size() && w[i][0] == 'P'; ++i) {
        auto f = split(w[i], ':');
        if (f.size() < 7 || f[1].size() != 1) return "bad-op";
        if (names.size() >= 26) return "bad-op";
        char letter = (char)('a' + names.size());
        std::string path = std::string("/p") + letter;
        if (f.size() >= 10) path = f[9];
        // "/<leaf>" or "/<dir>/<leaf>"
        if (path.size() < 2 || path[0] != '/') return "bad-op";
        auto comp = split(path.substr(1), '/');
        if (comp.size() > 2) return "bad-op";
        for (auto &c : comp)
            if (!name_ok(c)) return "bad-op";
        dirs.push_back(comp.size() == 2 ? comp[0] : std::string());
        names.push_back(comp.back() + "::" + f[1]);
        paths.push_back(path);
        std::string m = ":parameter";
        m.push_back('\0');
        if (f[2] != "-") kv(m, "min", f[2]);
        if (f[3] != "-") kv(m, "max", f[3]);
        if (f[5] != "-") kv(m, "logmin", f[5]);
        if (f[4] == "lin") kv(m, "scale", "linear");
        else if (f[4] == "log") kv(m, "scale", "logarithmic");
        if (f[6] == "internal") { m += ":internal"; m.push_back('\0'); }
        else if (f[6] == "nolearn") { m += ":no learn"; m.push_back('\0'); }
        m.push_back('\0');
        metas.push_back(m);
        usable.push_back(f[6] == "-" && (f[1] == "T" || (f[2] != "-" && f[3] != "-")));
    }
    // one table per directory, then the root table (directories first, then the root's own leaves)
    std::map<std::string, std::unique_ptr<DynPorts>> sub;
    std::vector<std::string> dirnames; // keeps the "<dir>/" strings alive
    for (size_t k = 0; k < names.size(); ++k)
        if (!dirs[k].empty()) {
            if (!sub.count(dirs[k])) sub[dirs[k]].reset(new DynPorts);
            sub[dirs[k]]->add(names[k].c_str(), metas[k].data());
        }
    dirnames.reserve(sub.size());
    DynPorts ports;
    for (auto &kvp : sub) {
        dirnames.push_back(kvp.first + "/");
        ports.add(dirnames.back().c_str(), "", kvp.second.get());
    }
    for (size_t k = 0; k < names.size(); ++k)
        if (dirs[k].empty()) ports.add(names[k].c_str(), metas[k].data());

    rtosc::AutomationMgr *mgr = new rtosc::AutomationMgr(nslots, per_slot, 4);
    mgr->set_ports(ports);
    std::string emitted;
    mgr->backend = [&emitted](const char *msg) {
        if (!emitted.empty()) emitted += " ";
        if (!msg[0]) { // rtosc_message failed: no address, nothing behind it
            emitted += "-,?,#0";
            vhx::have_x = false;
            return;
        }
        emitted += hexs(msg);
        const char *t = rtosc_argument_string(msg);
        emitted += std::string(",") + (t[0] ? std::string(t) : std::string("?"));
        if (t[0] == 'i') emitted += "," + std::to_string(rtosc_argument(msg, 0).i);
        else if (t[0] == 'f') emitted += "," + fbits(rtosc_argument(msg, 0).f);
        if (vhx::have_x) emitted += ",x=" + fbits(vhx::last_x);
        emitted += ",#" + std::to_string(rtosc_message_length(msg, 4096));
        vhx::have_x = false;
    };

    std::string out;
    bool bad = false, oob = false;
    for (; i < w.size() && !bad && !oob; ++i) {
        auto f = split(w[i], ':');
        const std::string &o = f[0];
        int a = 0, b = 0, c = 0;
        float x = 0;
        emitted.clear();
        vhx::have_x = false;
        if (o == "B" && f.size() == 4 && parse_int(f[1], a) && parse_int(f[2], b) && parse_int(f[3], c)) {
            bool ex = b >= 0 && (size_t)b < paths.size();
            if (ex && usable[b] && (a < 0 || a >= nslots)) { oob = true; break; }
            const char *path = ex ? paths[b].c_str() : "/zz";
            mgr->createBinding(a, path, c != 0);
        } else if (o == "H" && f.size() == 4 && parse_int(f[1], a) && parse_int(f[2], b) && parse_int(f[3], c)) {
            bool ex = c >= 0 && (size_t)c < paths.size();
            if (a >= 0 && a < nslots && ex && usable[c] && (b < 0 || b >= per_slot)) { oob = true; break; }
            const char *path = ex ? paths[c].c_str() : "/zz";
            mgr->setSlotSubPath(a, b, path);
        } else if (o == "C" && f.size() == 2 && parse_int(f[1], a)) {
            mgr->clearSlot(a);
        } else if (o == "D" && f.size() == 3 && parse_int(f[1], a) && parse_int(f[2], b)) {
            mgr->clearSlotSub(a, b);
        } else if (o == "G" && f.size() == 4 && parse_int(f[1], a) && parse_int(f[2], b) && parse_fbits(f[3], x)) {
            mgr->setSlotSubGain(a, b, x);
            mgr->updateMapping(a, b);
        } else if (o == "O" && f.size() == 4 && parse_int(f[1], a) && parse_int(f[2], b) && parse_fbits(f[3], x)) {
            mgr->setSlotSubOffset(a, b, x);
            mgr->updateMapping(a, b);
        } else if (o == "S" && f.size() == 3 && parse_int(f[1], a) && parse_fbits(f[2], x)) {
            mgr->setSlot(a, x);
        } else if (o == "U" && f.size() == 4 && parse_int(f[1], a) && parse_int(f[2], b) && parse_fbits(f[3], x)) {
            mgr->setSlotSub(a, b, x);
        } else if (o == "M" && f.size() == 4 && parse_int(f[1], a) && parse_int(f[2], b) && parse_int(f[3], c)) {
            mgr->handleMidi(a, b, c);
        } else {
            bad = true;
            break;
        }
        if (!out.empty()) out += "|";
        out += emitted + ";";
        for (int s = 0; s < nslots; ++s) {
            if (s) out += "/";
            out += std::to_string(mgr->slots[s].learning) + "," + std::to_string(mgr->slots[s].midi_cc) + "," +
                   std::to_string(mgr->slots[s].midi_nrpn);
        }
    }
    delete mgr;
    if (bad) return "bad-op";
    if (oob) return "oob";
    if (out.empty()) return "-";
    return out;
}

int main(int argc, char **argv) { return run_lines(argc, argv, step); }
