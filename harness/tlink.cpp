// Engine `tlink` (C06).  See lean/Driver/TlinkEngine.lean for the line protocol.
//
// thread-link.cpp is compiled into this translation unit behind tl_sched.h, which turns
// every shared access into a call of the hooks below.  In `conc` lines the two sides of a
// ThreadLink run in two real threads which only ever move one at a time: a thread stops
// *before* each shared access ("point") and hands the baton back to the controller, which
// picks the next thread from the schedule on the op line.  `seq` lines run in the calling
// thread with the hooks inactive.  `soak` lines let the two threads run freely (that is
// what the separate -fsanitize=thread build of this file is for).
#include "tl_sched.h"
#include "thread-link.cpp"
#undef atomic
#undef memcpy
#undef memmove
#undef __builtin_memcpy
#undef __builtin_memmove
#undef copy
#undef copy_n
#undef rtosc_message_ring_length
#include "common.h"
#include <thread>
#include <sched.h>
#include <unistd.h>
#include <signal.h>
#include <sys/time.h>
#include <time.h>
using namespace vh;

// ---------------------------------------------------------------------------------------
// scheduler
// ---------------------------------------------------------------------------------------
namespace verif {
int g_next_var = 0;
static bool g_active = false;            // scheduled mode (set while no worker runs)
static thread_local int t_tid = -1;      // role of the running operation: 0 writer, 1 reader, -1 none
static thread_local int t_decoy = 0;     // > 0: inside an operation on a decoy link (no hooks at all)
static std::atomic<int> g_turn(-1);      // who may run: -1 controller, 0 writer, 1 reader
static std::string g_trace;              // written only by the thread holding the baton
static size_t g_chunk = 0;
static char *g_ring = nullptr;
static size_t g_ring_size = 0;
// memory orders weaker than the proof assumes (bit set), one word per role so that recording them adds no
// synchronisation between the two threads (an atomic here would hide the very race from ThreadSanitizer);
// read by the controller after the line, when the threads have been joined / have handed the baton back
static unsigned g_weak_bits[2] = {0, 0};
static std::atomic<bool> g_decoy_bad(false);

struct Role {                            // the role of the calling thread for the time of one operation
    int old;
    explicit Role(int r) : old(t_tid) { if (t_tid < 0) t_tid = r; }
    ~Role() { t_tid = old; }
};

static void wait_turn(int me) {
    int spins = 0;
    while (g_turn.load() != me) {
        if (++spins > 2000) sched_yield();
    }
}
// stop before a shared access and wait until the controller picks this thread again
static void point() {
    int me = t_tid;
    g_turn.store(-1);
    wait_turn(me);
}
static void ev(const char *k, long a) {
    if (!g_trace.empty()) g_trace += ",";
    g_trace += k;
    g_trace += std::to_string(a);
}
static void ev2(const char *k, long a, long b) {
    ev(k, a);
    g_trace += "+";
    g_trace += std::to_string(b);
}
static bool hooked() { return g_active && t_tid >= 0 && !t_decoy; }
// operation boundaries (begin/end of the i-th operation of the running thread)
static void mark(const char *k, long i) { if (hooked()) ev(k, i); }

// --- memory orders ----------------------------------------------------------------------
static const char *order_name(int o) {
    switch (o) {
    case (int)std::memory_order_relaxed: return "relaxed";
    case (int)std::memory_order_consume: return "consume";
    case (int)std::memory_order_acquire: return "acquire";
    case (int)std::memory_order_release: return "release";
    case (int)std::memory_order_acq_rel: return "acq_rel";
    default: return "seq_cst";
    }
}
static int order_code(int o) {
    switch (o) {
    case (int)std::memory_order_relaxed: return 0;
    case (int)std::memory_order_consume: return 1;
    case (int)std::memory_order_acquire: return 2;
    case (int)std::memory_order_release: return 3;
    case (int)std::memory_order_acq_rel: return 4;
    default: return 5;
    }
}
static int code_order(int c) {
    static const std::memory_order t[6] = {std::memory_order_relaxed, std::memory_order_consume, std::memory_order_acquire,
                                           std::memory_order_release, std::memory_order_acq_rel, std::memory_order_seq_cst};
    return (int)t[c];
}
// Only accesses made inside a ThreadLink operation count (the constructor publishes nothing).
static void check_order(int var, bool store, int o) {
    if (t_tid < 0 || t_decoy || var == V_LA) return;
    bool weak;
    if (store) weak = !(o == (int)std::memory_order_release || o == (int)std::memory_order_acq_rel || o == (int)std::memory_order_seq_cst);
    else {
        bool foreign = (t_tid == 0 && var == V_READ) || (t_tid == 1 && var == V_WRITE);
        if (!foreign) return;            // a thread may read its own index any way it likes
        weak = !(o == (int)std::memory_order_acquire || o == (int)std::memory_order_acq_rel || o == (int)std::memory_order_seq_cst);
    }
    if (weak) g_weak_bits[t_tid == 0 ? 0 : 1] |= 1u << ((store ? 12 : 0) + var * 6 + order_code(o));
}
static std::string weak_report() {
    unsigned w = g_weak_bits[0] | g_weak_bits[1];
    g_weak_bits[0] = g_weak_bits[1] = 0;
    std::string s;
    for (int st = 0; st < 2; ++st) for (int var = 0; var < 2; ++var) for (int c = 0; c < 6; ++c)
        if (w & (1u << (st * 12 + var * 6 + c))) {
            s += s.empty() ? " MO:" : ",";
            s += st ? "store-" : "load-";
            s += var == V_WRITE ? "write-" : "read-";
            s += order_name(code_order(c));
        }
    return s;
}

// a load of the *other* thread's index is a point; loads of the own index are local
void before_load(int var) {
    if (!hooked()) return;
    if ((t_tid == 0 && var == V_READ) || (t_tid == 1 && var == V_WRITE)) point();
}
void after_load(int var, long value, int order) {
    check_order(var, false, order);
    if (!hooked()) return;
    if (t_tid == 0 && var == V_READ) ev("lr", value);
    if (t_tid == 1 && var == V_WRITE) ev("lw", value);
}
void before_store(int var) {
    if (!hooked()) return;
    if (var == V_WRITE || var == V_READ) point();
}
void note_store(int var, long value, int order) {
    check_order(var, true, order);
    if (!hooked()) return;
    if (var == V_WRITE) ev("sw", value);
    else if (var == V_READ) ev("sr", value);
}

// --- decoy links ------------------------------------------------------------------------
// A ThreadLink must not share state with any other ThreadLink.  Each side owns a second, live
// link (the documented set-up has one link per direction); at every ring copy and at every
// framing step of the link under test the running thread performs a complete write + read on
// its decoy and checks the result.  State kept in function-local statics or globals of
// thread-link.cpp is thereby overwritten in the middle of the operation under test.
static rtosc::ThreadLink *g_decoy[2] = {nullptr, nullptr};
static unsigned g_decoy_n[2] = {0, 0};
static void decoy_op() {
    int side = t_tid == 0 ? 0 : 1;
    rtosc::ThreadLink *d = g_decoy[side];
    if (!d || t_decoy) return;
    ++t_decoy;
    unsigned n = ++g_decoy_n[side];
    char want[32];
    size_t len;
    if (n % 3 == 0) {
        len = rtosc_message(want, sizeof want, "/dcy/r", "i", (int)n);
        d->raw_write(want);
    } else {
        len = rtosc_message(want, sizeof want, "/dcy", "ii", (int)n, (int)side);
        d->write("/dcy", "ii", (int)n, (int)side);
    }
    bool ok = d->hasNext();
    const char *got = d->read();
    if (!ok || ::memcmp(got, want, len) != 0 || d->hasNext()) g_decoy_bad.store(true);
    --t_decoy;
}

void copy(void *dst, const void *src, size_t n) {
    char *d = (char *)dst;
    const char *s = (const char *)src;
    const char *kind = nullptr;
    long off = 0;
    if (!t_decoy && g_ring && n) {
        if (d >= g_ring && d < g_ring + g_ring_size) { kind = "ci"; off = d - g_ring; }
        else if (s >= g_ring && s < g_ring + g_ring_size) { kind = "co"; off = s - g_ring; }
    }
    if (kind && t_tid >= 0) decoy_op();
    if (!kind || !hooked()) { if (n) ::memmove(dst, src, n); return; }
    size_t k = 0;
    while (k < n) {
        size_t c = g_chunk ? (g_chunk < n - k ? g_chunk : n - k) : n - k;
        point();
        ev2(kind, off + (long)k, (long)c);
        ::memmove(d + k, s + k, c);
        k += c;
    }
}
size_t ring_length(ring_t *r) {
    if (t_decoy) return ::rtosc_message_ring_length(r);
    if (!hooked()) {
        if (t_tid >= 0) decoy_op();
        return ::rtosc_message_ring_length(r);
    }
    point();
    long off = r[0].data - g_ring, total = (long)(r[0].len + r[1].len);   // the view this operation built
    decoy_op();
    size_t len = ::rtosc_message_ring_length(r);
    ev2("fr", off, total);
    g_trace += "=";
    g_trace += std::to_string(len);
    return len;
}
} // namespace verif

// ---------------------------------------------------------------------------------------
// operations on a ThreadLink
// ---------------------------------------------------------------------------------------
struct Decoded {
    bool ok = false;
    std::string path, tags;
    std::vector<rtosc_arg_t> args;       // one per argument that carries data
    std::vector<std::string> strs;
    std::vector<bytes> blobs;
    std::vector<float> floats;
};
static size_t cstr_end(const bytes &m, size_t p) {
    while (p < m.size() && m[p]) ++p;
    return p;
}
static void decode(const bytes &m, Decoded &d) {
    size_t e = cstr_end(m, 0);
    if (e >= m.size()) return;
    d.path.assign((const char *)m.data(), e);
    size_t pos = (e / 4 + 1) * 4;
    if (pos >= m.size() || m[pos] != ',') return;
    size_t te = cstr_end(m, pos);
    if (te >= m.size()) return;
    d.tags.assign((const char *)m.data() + pos + 1, te - pos - 1);
    pos = pos + ((te - pos) / 4 + 1) * 4;
    d.strs.reserve(d.tags.size());
    d.blobs.reserve(d.tags.size());
    for (char t : d.tags) {
        rtosc_arg_t a;
        memset(&a, 0, sizeof a);
        switch (t) {
        case 'i': case 'f': case 'c': case 'r': {
            if (pos + 4 > m.size()) return;
            uint32_t v = (uint32_t)m[pos] << 24 | (uint32_t)m[pos + 1] << 16 | (uint32_t)m[pos + 2] << 8 | m[pos + 3];
            a.i = (int32_t)v;
            float f; memcpy(&f, &v, 4); d.floats.push_back(f);
            pos += 4; d.args.push_back(a); break; }
        case 'm':
            if (pos + 4 > m.size()) return;
            memcpy(a.m, &m[pos], 4); pos += 4; d.args.push_back(a); break;
        case 'h': case 't': case 'd': {
            if (pos + 8 > m.size()) return;
            uint64_t v = 0;
            for (int k = 0; k < 8; ++k) v = v << 8 | m[pos + k];
            a.t = v; pos += 8; d.args.push_back(a); break; }
        case 's': case 'S': {
            size_t se = cstr_end(m, pos);
            if (se >= m.size()) return;
            d.strs.push_back(std::string((const char *)m.data() + pos, se - pos));
            a.s = d.strs.back().c_str();
            pos = pos + ((se - pos) / 4 + 1) * 4; d.args.push_back(a); break; }
        case 'b': {
            if (pos + 4 > m.size()) return;
            uint32_t n = (uint32_t)m[pos] << 24 | (uint32_t)m[pos + 1] << 16 | (uint32_t)m[pos + 2] << 8 | m[pos + 3];
            pos += 4;
            if (pos + n > m.size()) return;
            d.blobs.push_back(bytes(m.begin() + pos, m.begin() + pos + n));
            d.blobs.back().push_back(0);
            a.b.len = (int32_t)n; a.b.data = d.blobs.back().data();
            pos += n; if (pos % 4) pos += 4 - pos % 4; d.args.push_back(a); break; }
        case 'T': case 'F': case 'N': case 'I': break;
        default: return;
        }
    }
    d.ok = pos == m.size();
}

struct Link {
    rtosc::ThreadLink *tl;
    rtosc::ThreadLink *decoy[2];
    size_t N;
    Link(size_t maxMsg, size_t nmsgs) {
        verif::g_next_var = 0;
        tl = new rtosc::ThreadLink(maxMsg, nmsgs);
        N = maxMsg * nmsgs;
        verif::g_ring = tl->ring->buffer;
        verif::g_ring_size = N;
        for (int k = 0; k < 2; ++k) {
            verif::g_next_var = 0;
            decoy[k] = new rtosc::ThreadLink(24, 3);
            verif::g_decoy[k] = decoy[k];
            verif::g_decoy_n[k] = 0;
        }
    }
    ~Link() {
        for (int k = 0; k < 2; ++k) { verif::g_decoy[k] = nullptr; delete decoy[k]; }
        delete tl; verif::g_ring = nullptr; verif::g_ring_size = 0;
    }
    // kind: 'w' write() with varargs where the shape allows, 'a' writeArray(), 'x' raw_write() of a
    // caller-owned block, 'b' the documented in-place idiom: compose the message in buffer()
    // (capacity buffer_size()) and, if that succeeded, raw_write(buffer())
    bool put(char kind, const bytes &m) {
        verif::Role role(0);
        long before = tl->ring->write.raw();
        if (kind == 'x') {
            Exact blk(m);
            tl->raw_write(blk.c());
        } else {
            Decoded d;
            decode(m, d);
            if (!d.ok) return false;
            const char *p = d.path.c_str();
            const std::string &t = d.tags;
            if (kind == 'b') {
                size_t n = rtosc_amessage(tl->buffer(), tl->buffer_size(), p, t.c_str(), d.args.data());
                if (n) tl->raw_write(tl->buffer());
            }
            else if (kind == 'w' && t == "") tl->write(p, "");
            else if (kind == 'w' && t == "i") tl->write(p, "i", d.args[0].i);
            else if (kind == 'w' && t == "ii") tl->write(p, "ii", d.args[0].i, d.args[1].i);
            else if (kind == 'w' && t == "s") tl->write(p, "s", d.args[0].s);
            else if (kind == 'w' && t == "si") tl->write(p, "si", d.args[0].s, d.args[1].i);
            else if (kind == 'w' && t == "is") tl->write(p, "is", d.args[0].i, d.args[1].s);
            // a float travels through the varargs as double; NaN payloads do not survive that, so
            // NaNs go through writeArray (same encoder, bits untouched)
            else if (kind == 'w' && t == "f" && d.floats[0] == d.floats[0]) tl->write(p, "f", (double)d.floats[0]);
            else if (kind == 'w' && t == "T") tl->write(p, "T");
            else tl->writeArray(p, t.c_str(), d.args.data());
        }
        return tl->ring->write.raw() != before;
    }
    // a read returns read_buffer; the number of fresh bytes in it is the distance the index moved
    std::string get(bool lookahead) {
        verif::Role role(1);
        long before = lookahead ? tl->ring->read_lookahead.raw() : tl->ring->read.raw();
        const char *msg = lookahead ? tl->read_lookahead() : tl->read();
        long after = lookahead ? tl->ring->read_lookahead.raw() : tl->ring->read.raw();
        size_t len = (size_t)((after - before + (long)N) % (long)N);
        return hex((const unsigned char *)msg, len);
    }
    bool has(bool lookahead) {
        verif::Role role(1);
        return lookahead ? tl->hasNextLookahead() : tl->hasNext();
    }
};

struct WOp { char kind; bytes m; };

static bool parse_wops(const std::string &t, std::vector<WOp> &out) {
    out.clear();
    if (t == "-") return true;
    std::stringstream ss(t);
    std::string tok;
    while (std::getline(ss, tok, ',')) {
        if (tok.size() < 2 || (tok[0] != 'w' && tok[0] != 'a' && tok[0] != 'x' && tok[0] != 'b')) return false;
        WOp op;
        op.kind = tok[0];
        if (!unhex(tok.substr(1), op.m)) return false;
        out.push_back(op);
    }
    return true;
}

// ---------------------------------------------------------------------------------------
// seq
// ---------------------------------------------------------------------------------------
static std::string seq_line(const std::vector<std::string> &w) {
    if (w.size() < 3) return "bad-op";
    size_t maxMsg = strtoul(w[1].c_str(), 0, 10), nmsgs = strtoul(w[2].c_str(), 0, 10);
    if (!maxMsg || !nmsgs) return "bad-op";
    Link L(maxMsg, nmsgs);
    std::string out;
    for (size_t i = 3; i < w.size(); ++i) {
        const std::string &t = w[i];
        std::string o;
        if (t == "r") o = "m" + L.get(false);
        else if (t == "l") o = "m" + L.get(true);
        else if (t == "h") o = L.has(false) ? "1" : "0";
        else if (t == "k") o = L.has(true) ? "1" : "0";
        else if (t[0] == 'w' || t[0] == 'a' || t[0] == 'x' || t[0] == 'b') {
            bytes m;
            if (!unhex(t.substr(1), m)) return "bad-op";
            o = L.put(t[0], m) ? "a" : "d";
        } else return "bad-op";
        if (!out.empty()) out += " ";
        out += o;
    }
    return out;
}

// ---------------------------------------------------------------------------------------
// conc: two persistent worker threads, one baton
// ---------------------------------------------------------------------------------------
struct Job {
    Link *L = nullptr;
    std::vector<WOp> wops;
    std::string rops;
    std::string wflags, routs;
    bool done[2] = {false, false};
    bool quit = false;
};
static Job g_job;

// Every operation is bracketed by begin/end markers in the trace (`bw<i>`/`ew<i>`, `br<i>`/`er<i>`):
// the oracle attributes shared accesses to operations by these, not by counting loads.
static void run_writer() {
    long i = 0;
    for (auto &op : g_job.wops) {
        verif::mark("bw", i);
        g_job.wflags += g_job.L->put(op.kind, op.m) ? 'a' : 'd';
        verif::mark("ew", i);
        ++i;
    }
}
static void run_reader() {
    std::string &o = g_job.routs;
    long i = 0;
    for (char c : g_job.rops) {
        if (!o.empty()) o += ",";
        verif::mark("br", i);
        switch (c) {
        case 'h': o += g_job.L->has(false) ? "h1" : "h0"; break;
        case 'k': o += g_job.L->has(true) ? "k1" : "k0"; break;
        case 'r': o += "r" + g_job.L->get(false); break;
        case 'l': o += "l" + g_job.L->get(true); break;
        }
        verif::mark("er", i);
        ++i;
    }
}
// between `conc` lines the workers must not burn CPU (the `seq` lines have a CPU-time limit and the
// machine may be busy): after a while without a job they poll every 200 us instead of spinning
static void wait_job(int tid) {
    unsigned spins = 0;
    while (verif::g_turn.load() != tid) {
        if (++spins > 200000) usleep(200);
        else if (spins > 2000) sched_yield();
    }
}
static void worker(int tid) {
    verif::t_tid = tid;
    for (;;) {
        wait_job(tid);
        if (g_job.quit) break;
        if (tid == 0) run_writer(); else run_reader();
        g_job.done[tid] = true;
        verif::g_turn.store(-1);
    }
    verif::g_turn.store(-1);
}
static std::thread *g_thr[2] = {nullptr, nullptr};
// let thread t run until its next point (or until it has finished)
static void grant(int t) {
    verif::g_turn.store(t);
    verif::wait_turn(-1);
}

static std::string conc_line(const std::vector<std::string> &w) {
    if (w.size() != 7) return "bad-op";
    size_t maxMsg = strtoul(w[1].c_str(), 0, 10), nmsgs = strtoul(w[2].c_str(), 0, 10);
    if (!maxMsg || !nmsgs) return "bad-op";
    Job &J = g_job;
    if (!parse_wops(w[4], J.wops)) return "bad-op";
    J.rops = w[5] == "-" ? "" : w[5];
    std::string sched = w[6] == "-" ? "" : w[6];
    Link L(maxMsg, nmsgs);
    J.L = &L;
    J.wflags.clear(); J.routs.clear();
    J.done[0] = J.done[1] = false;
    verif::g_chunk = strtoul(w[3].c_str(), 0, 10);
    verif::g_trace.clear();
    if (!g_thr[0]) { g_thr[0] = new std::thread(worker, 0); g_thr[1] = new std::thread(worker, 1); }
    verif::g_active = true;
    // both threads advance to their first point; everything before it is thread local
    grant(0);
    grant(1);
    for (char c : sched) {
        int t = c == 'w' ? 0 : 1;
        if (J.done[t]) continue;         // a choice naming a finished thread is skipped
        grant(t);
    }
    while (!J.done[0]) grant(0);
    while (!J.done[1]) grant(1);
    verif::g_active = false;
    std::string drain;
    for (size_t i = 0; i < L.N + 2 && L.has(false); ++i) {
        if (!drain.empty()) drain += ",";
        drain += L.get(false);
    }
    std::string out = "T " + (verif::g_trace.empty() ? std::string("-") : verif::g_trace) +
                      " W " + (J.wflags.empty() ? std::string("-") : J.wflags) +
                      " R " + (J.routs.empty() ? std::string("-") : J.routs) +
                      " D " + (drain.empty() ? std::string("-") : drain) + " F0";
    J.L = nullptr;
    return out;
}

// ---------------------------------------------------------------------------------------
// soak: two free-running threads, the reader checks the FIFO property itself
// ---------------------------------------------------------------------------------------
static bytes soak_msg(unsigned i, unsigned seed, size_t maxMsg) {
    // "/<letters>\0.. ,i\0\0 <i>" : 8 + 4*k bytes, k chosen from the message number
    unsigned x = (i * 2654435761u) ^ (seed * 40503u);
    size_t room = maxMsg >= 12 ? (maxMsg - 12) / 4 : 0;        // extra path words possible
    size_t extra = room ? (x >> 7) % (room + 1) : 0;
    std::string path = "/";
    for (size_t k = 0; k < extra * 4 + 2; ++k) path += (char)('a' + (x >> (k % 13)) % 26);
    char buf[4200];
    size_t n = rtosc_message(buf, sizeof buf, path.c_str(), "i", (int)i);
    return bytes(buf, buf + n);
}
static std::string soak_line(const std::vector<std::string> &w) {
    if (w.size() < 5) return "bad-op";
    size_t maxMsg = strtoul(w[1].c_str(), 0, 10), nmsgs = strtoul(w[2].c_str(), 0, 10);
    unsigned count = strtoul(w[3].c_str(), 0, 10), seed = strtoul(w[4].c_str(), 0, 10);
    if (maxMsg < 12 || !nmsgs || maxMsg > 4096) return "bad-op";
    Link L(maxMsg, nmsgs);
    std::string err;                       // written by the reader thread only, read after join
    std::atomic<bool> stop(false), wdone(false);
    std::thread wt([&] {
        for (unsigned i = 0; i < count && !stop.load(); ++i) {
            bytes m = soak_msg(i, seed, maxMsg);
            char kind = "waxb"[(i + seed) % 4];
            while (!L.put(kind, m)) {
                if (stop.load()) return;
                sched_yield();
            }
        }
        wdone.store(true);
    });
    // no message for 5 s of wall-clock time while the writer still has messages to send: the queue is stuck
    // (e.g. hasNext() says "nothing" while the ring is full) - a failure, not something to wait 10 minutes for
    auto now_s = [] { struct timespec ts; clock_gettime(CLOCK_MONOTONIC, &ts); return (double)ts.tv_sec + ts.tv_nsec * 1e-9; };
    std::thread rt([&] {
        unsigned next = 0, last_next = 0;
        unsigned long polls = 0;
        double last_progress = now_s();
        while (next < count && err.empty()) {
            if (next != last_next) { last_next = next; last_progress = now_s(); }
            else if ((polls & 1023) == 0 && now_s() - last_progress > 5.0) {
                err = "stalled: no message for 5 s at message " + std::to_string(next) + " (hasNext=" +
                      (L.has(false) ? "1" : "0") + ", writer " + (wdone.load() ? "done" : "not done") + ")";
                break;
            }
            if ((++polls & 15) == 0) {
                // peek along the lookahead queue: must replay next, next+1, … without consuming
                unsigned k = next;
                while (k < count && L.has(true) && err.empty()) {
                    std::string got = L.get(true);
                    if (got != hex(soak_msg(k, seed, maxMsg))) err = "lookahead " + std::to_string(k) + " got " + got;
                    ++k;
                }
                if (k > next && err.empty()) {   // resynchronise by a normal read
                    std::string got = L.get(false);
                    if (got != hex(soak_msg(next, seed, maxMsg))) err = "read-after-lookahead " + std::to_string(next) + " got " + got;
                    ++next;
                }
                continue;
            }
            if (!L.has(false)) {
                // the writer has finished and nothing is queued although messages are missing: lost
                if (wdone.load() && !L.has(false)) { err = "message " + std::to_string(next) + " lost"; break; }
                sched_yield();
                continue;
            }
            std::string got = L.get(false);
            if (got != hex(soak_msg(next, seed, maxMsg))) err = "read " + std::to_string(next) + " got " + got;
            ++next;
        }
        stop.store(true);
    });
    wt.join();
    rt.join();
    if (err.empty() && L.has(false)) err = "queue not empty at the end";
    return err.empty() ? "soak ok" : "soak FAIL " + err;
}

// A line that does not finish (a framing loop that never ends on torn data, a reader that
// waits for a message that was lost, a length computation that spins) must not hang the check.
// `seq` lines are pure computation in one thread: they get a CPU-time limit (SIGPROF, independent
// of the load of the machine); `conc`/`soak` lines a wall-clock limit (SIGALRM).  The runner
// records `crash:signal:<n>` for the line.
static void arm(int wall_s, int cpu_s) {
    alarm(wall_s);
    struct itimerval it;
    memset(&it, 0, sizeof it);
    it.it_value.tv_sec = cpu_s;
    setitimer(ITIMER_PROF, &it, nullptr);
}
static std::string step(const std::string &line) {
    auto w = words(line);
    if (w.empty()) return "bad-op";
    std::string out = "bad-op";
    verif::g_weak_bits[0] = verif::g_weak_bits[1] = 0;
    verif::g_decoy_bad.store(false);
    if (w[0] == "seq") { arm(60, 3); out = seq_line(w); }
    else if (w[0] == "conc") { arm(10, 0); out = conc_line(w); }
    else if (w[0] == "soak") { arm(600, 0); out = soak_line(w); }
    arm(0, 0);
    out += verif::weak_report();
    if (verif::g_decoy_bad.load()) out += " DECOY-BROKEN";
    return out;
}
int main(int argc, char **argv) {
    int rc = run_lines(argc, argv, step);
    if (g_thr[0]) {
        g_job.quit = true;
        for (int t = 0; t < 2; ++t) { verif::g_turn.store(t); verif::wait_turn(-1); g_thr[t]->join(); delete g_thr[t]; }
    }
    return rc;
}
