// Engine `meta` (C17).  Op lines:
//   <block-hex> <key-hex> <spec>          block of the statement     -> `P <pairs> G <get> F <find> L <len>`
//   <block-hex> <key-hex> ?               block outside the statement-> `V ok` | `V oob` | `V crash`
//   M <i> <key-hex> <spec>                block of row i of the fixed port table built with the real
//                                         macros of rtosc/port-sugar.h -> `M <block-hex> P .. G .. F .. L ..`
//   M <i> <key-hex> ? <block-hex>         same, row outside the statement (rSpecial) -> `V ok` | `V oob` | `V crash`
// The block always lives in an exact-size heap allocation so that any read past it aborts under ASan.
// Out-of-statement lines run the readers in a forked child; only the classification is reported
// (no read past the block / read past the block / any other abnormal end).
#include "common.h"
#include <rtosc/ports.h>
#include <rtosc/port-sugar.h>
#include <functional>
#include <sys/wait.h>
#include <unistd.h>
using namespace vh;

// ---------------------------------------------------------------------------------------------
// fixed port table written with the library's own macros
// ---------------------------------------------------------------------------------------------
struct MetaObj {
    unsigned char vol, pan;
    int mode, kind;
    bool on;
    float freq;
    char name[32];
    int steps[4];
    void panic(void) {}
};
#define rObject MetaObj
// every row is one port-building macro invocation; the metadata literal is whatever the header makes of it
#define C17_TABLE \
    rParam(vol, rShort("vol"), rDefault(64), "Volume of the part"), \
    rParamF(freq, rLog(0.1, 20000), rMap(unit, Hz), rDefault(440.0), "filter: cutoff = f(x)"), \
    rOption(mode, rOptions(sine, saw tooth, square), rDefault(saw tooth), "Waveform"), \
    rToggle(on, rPreset(0, true) rPreset(1, false), rDefaultDepends(mode), "Enable"), \
    rParamI(kind, rPresets(7, 8, 9), rLinear(0, 10), rLinear(1, 5), "Kind (repeated keys)"), \
    rString(name, 32, rDefaultId(unnamed), rEnabledBy(on), ""), \
    rArrayI(steps, 4, rDepends(mode, kind), rNoDefaults, rCentered, rBlobType(i), "Steps: a=b:c"), \
    rAction(panic, "Stop everything"), \
    rParam(pan, rProp(internal) rProp(alias) rMap(default 0, 0), rDoc("first doc"), "second doc"), \
    rParam(pan, rSpecial(disable), rDefault(64), "Panning")

struct Lit {                       // remembers the size of the metadata string literal
    const char *p;
    size_t n;
    template <size_t N> Lit(const char (&s)[N]) : p(s), n(N) {}
};
struct Row {
    const char *name;
    Lit meta;
    const rtosc::Ports *sub;
    std::function<void(const char *, rtosc::RtData &)> cb;
};
static const Row rows[] = {C17_TABLE};
static const rtosc::Ports table = {C17_TABLE};
#undef rObject
static const size_t nrows = sizeof(rows) / sizeof(rows[0]);

// ---------------------------------------------------------------------------------------------
static std::string readers(const rtosc::Port &port, const bytes &key0) {
    bytes key = key0;
    key.push_back(0);
    std::string P;
    for (const auto x : port.meta()) {
        if (!P.empty()) P += ",";
        P += hexs(x.title) + "=" + (x.value ? hexs(x.value) : std::string("NULL"));
    }
    if (P.empty()) P = "-";
    const char *g = port.meta()[(const char *)key.data()];
    bool f = (bool)port.meta().find((const char *)key.data());
    size_t l = port.meta().length();
    std::ostringstream o;
    o << "P " << P << " G " << (g ? hexs(g) : std::string("NULL")) << " F " << (f ? 1 : 0) << " L " << l;
    return o.str();
}

// classification only: run the readers in a child process
static std::string classify(const rtosc::Port &port, const bytes &key) {
    int fd[2];
    if (pipe(fd)) return "V crash";
    fflush(stdout);
    pid_t pid = fork();
    if (pid < 0) return "V crash";
    if (pid == 0) {
        close(fd[0]);
        dup2(fd[1], 2);
        std::string r = readers(port, key);
        _exit(r.empty() ? 3 : 0);
    }
    close(fd[1]);
    std::string err;
    char buf[4096];
    ssize_t k;
    while ((k = read(fd[0], buf, sizeof buf)) > 0) err.append(buf, (size_t)k);
    close(fd[0]);
    int st = 0;
    waitpid(pid, &st, 0);
    if (WIFEXITED(st) && WEXITSTATUS(st) == 0) return "V ok";
    if (err.find("AddressSanitizer: heap-buffer-overflow") != std::string::npos &&
        err.find("READ of size") != std::string::npos)
        return "V oob";
    return "V crash";
}

static std::string step(const std::string &line) {
    auto w = words(line);
    bytes block, key;
    if (w.size() >= 4 && w[0] == "M") {
        size_t i = (size_t)atoi(w[1].c_str());
        if (i >= nrows || i >= table.ports.size() || !unhex(w[2], key)) return "bad-op";
        const rtosc::Port &real = table.ports[i];
        if (!real.metadata || memcmp(real.metadata, rows[i].meta.p, rows[i].meta.n)) return "bad-table";
        block.assign((const unsigned char *)real.metadata, (const unsigned char *)real.metadata + rows[i].meta.n);
        Exact mem(block);
        rtosc::Port port = {real.name, mem.c(), NULL, nullptr};
        if (w[3] == "?") return classify(port, key);
        return "M " + hex(block) + " " + readers(port, key);
    }
    if (w.size() < 2 || !unhex(w[0], block) || !unhex(w[1], key)) return "bad-op";
    Exact mem(block);
    rtosc::Port port = {"p", mem.n ? mem.c() : NULL, NULL, nullptr};
    if (w.size() >= 3 && w[2] == "?") return classify(port, key);
    return readers(port, key);
}
int main(int argc, char **argv) { return run_lines(argc, argv, step); }
