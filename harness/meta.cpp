// Engine `meta` (C17): op line `<block-hex> <key-hex>`
// output `P <pairs> G <get> F <find> L <len>`; the block lives in an exact-size heap
// allocation so that any read past it aborts under ASan.
#include "common.h"
#include <rtosc/ports.h>
using namespace vh;

static std::string step(const std::string &line) {
    auto w = words(line);
    bytes block, key;
    if (w.size() < 2 || !unhex(w[0], block) || !unhex(w[1], key)) return "bad-op";
    Exact mem(block);
    key.push_back(0);
    rtosc::Port port = {"p", mem.n ? mem.c() : NULL, NULL, nullptr};
    std::string P;
    for (const auto x : port.meta()) {
        if (!P.empty()) P += ",";
        P += hexs(x.title) + "=" + (x.value ? hexs(x.value) : std::string("NULL"));
    }
    if (P.empty()) P = "-";
    const char *g = port.meta()[(const char *)key.data()];
    bool f = (bool)port.meta().find((const char *)key.data());
    size_t l = port.meta().length();
    std::ostringstream o;
    o << "P " << P << " G " << (g ? hexs(g) : std::string("NULL")) << " F " << (f ? 1 : 0) << " L " << l;
    return o.str();
}
int main(int argc, char **argv) { return run_lines(argc, argv, step); }
