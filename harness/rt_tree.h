// C03 — sample object tree that instantiates EVERY callback macro of
// include/rtosc/port-sugar.h, shared by
//   * harness/rt_entries.cpp  (translation unit compiled to LLVM IR by tools/callgraph.py:
//     the callbacks below become the address-taken `_M_invoke` thunks that the
//     call-graph model resolves the indirect call in Ports::dispatch to), and
//   * harness/rt.cpp          (dynamic engine: the same tables are dispatched for real
//     with the allocator and the mutex functions interposed).
// Nothing here allocates after static construction.
#ifndef VERIF_RT_TREE_H
#define VERIF_RT_TREE_H
#include <rtosc/rtosc.h>
#include <rtosc/ports.h>
#include <rtosc/port-sugar.h>
#include <rtosc/thread-link.h>
#include <cctype>
#include <cstdlib>
#include <cstring>

namespace rtt {
using rtosc::msg_t;
using rtosc::enum_key;

struct Leaf {
    unsigned char pc;
    float         pf;
    int           pi;
    bool          pt;
    int           po;
    char          name[12];
    static const rtosc::Ports ports;
};

struct Flag { bool on; };

struct Mid {
    unsigned char vol;
    float   freq;
    float   cross;
    int     count;
    bool    on;
    int     mode;
    int     cmode;
    float   af[4];
    bool    at[4];
    char    ai[4];
    int     ao[4];
    Flag    am[4];
    char    ps[4];
    char    str[16];
    int     acted;
    void act(void) { ++acted; }
    void acti(int x) { acted += x; }
    Leaf    sub;
    Leaf   *subp;     // may be NULL (rRecurp returns early)
    Leaf    subs[3];
    Leaf   *subsp[3];
    static const rtosc::Ports ports;
};

struct Root {
    int   level;
    bool  gate;
    Mid   mid;
    Mid  *midp;
    Mid   mids[2];
    static const rtosc::Ports ports;
};

// An RtData as an application writes it: replies are copied into a fixed buffer.
struct CapData : rtosc::RtData {
    char     last[8192];
    unsigned replies, broadcasts, arrays, chains, forwards;
    size_t   last_len;
    CapData() : replies(0), broadcasts(0), arrays(0), chains(0), forwards(0), last_len(0) { last[0] = 0; }
    void reply(const char *msg) override {
        size_t n = rtosc_message_length(msg, sizeof(last));
        if(n > sizeof(last)) n = sizeof(last);
        memcpy(last, msg, n);
        last_len = n;
        ++replies;
    }
    void reply(const char *path, const char *args, ...) override {
        va_list va;
        va_start(va, args);
        char buffer[8192];
        rtosc_vmessage(buffer, sizeof(buffer), path, args, va);
        va_end(va);
        reply(buffer);
    }
    void broadcast(const char *msg) override { reply(msg); ++broadcasts; }
    void broadcast(const char *path, const char *args, ...) override {
        va_list va;
        va_start(va, args);
        char buffer[8192];
        rtosc_vmessage(buffer, sizeof(buffer), path, args, va);
        va_end(va);
        broadcast(buffer);
    }
    void replyArray(const char *path, const char *args, rtosc_arg_t *vals) override {
        last_len = rtosc_amessage(last, sizeof(last), path, args, vals);
        ++arrays;
    }
    void broadcastArray(const char *path, const char *args, rtosc_arg_t *vals) override {
        replyArray(path, args, vals);
        ++broadcasts;
    }
    void chain(const char *msg) override { (void) msg; ++chains; }
    void chain(const char *path, const char *args, ...) override { (void) path; (void) args; ++chains; }
    void chainArray(const char *path, const char *args, rtosc_arg_t *vals) override { (void) path; (void) args; (void) vals; ++chains; }
    void forward(const char *rational) override { (void) rational; ++forwards; }
};

#ifdef RT_TREE_DEFINE
// A callback as applications write them: a functor with by-value captures that do not fit into
// std::function's local storage.  std::function puts it on the heap WHEN THE TABLE IS BUILT;
// invoking it is realtime safe, copying or destroying the std::function is not.
struct Captured { long gain, offset, scale, lo, hi; };
static std::function<void(const char *, rtosc::RtData &)> captured_callback(void)
{
    Captured c = {2, 1, 3, 0, 127};
    return [c](const char *msg, rtosc::RtData &data) {
        Mid *obj = (Mid *) data.obj;
        if(rtosc_narguments(msg))
            obj->count = (int) (rtosc_argument(msg, 0).i * c.gain + c.offset);
        data.reply(data.loc, "i", obj->count);
    };
}

#define rObject Leaf
const rtosc::Ports Leaf::ports = {
    rParam(pc, "char parameter"),
    rParamF(pf, rLinear(-1, 1), "float parameter"),
    rParamI(pi, rLinear(-100, 100), "int parameter"),
    rToggle(pt, "toggle"),
    rOption(po, rOptions(sine, saw, square), "option"),
    rString(name, 12, "string parameter"),
    rSelf(Leaf),
    rDummy(nothing),
};
#undef rObject

#define rObject Mid
const rtosc::Ports Mid::ports = {
    rParam(vol, rDefault(64), "volume"),
    rParamF(freq, rLog(1, 20000), "frequency"),
    rParamF(cross, "unbounded float"),
    rParamI(count, rLinear(0, 1000), "count"),
    rToggle(on, "switch"),
    rOption(mode, rOptions(red, blue, green, teal), rLinear(0, 3), "mode"),
    {"cmode::i:c:S", rProp(parameter) rProp(enumerated) rOptions(lo, mid, hi) rDoc("custom option"), NULL,
        rCOptionCb(obj->cmode, obj->cmode = var)},
    rArrayF(af, 4, rLinear(0, 1), "float array"),
    rArrayT(at, 4, "toggle array"),
    rArrayI(ai, 4, rLinear(0, 100), "int array"),
    rArrayOption(ao, 4, rOptions(x, y, z), "option array"),
    {"am#4::T:F", rProp(parameter) rDoc("member toggle array"), NULL, rArrayTCbMember(am, on)},
    rParams(ps, 4, "char block"),
    rString(str, 16, "string"),
    rAction(act, "action"),
    rActioni(acti, "action with int"),
    rEnabledCondition(is_on, obj->on),
    {"xfreq:f", rProp(parameter) rDoc("cross broadcast"), NULL,
        [](const char *msg, rtosc::RtData &data) {
            rObject *obj = (rObject *) data.obj;
            obj->freq = rtosc_argument(msg, 0).f;
            rCrossBroadcast(data.loc, cross)
        }},
    {"big::i", rProp(parameter) rDoc("functor with captures"), NULL, captured_callback()},
    rRecur(sub, "sub object"),
    rRecurp(subp, "sub object pointer"),
    rRecurs(subs, 3, "sub object array"),
    rRecursp(subsp, 3, "sub object pointer array"),
    rSelf(Mid),
};
#undef rObject

#define rObject Root
const rtosc::Ports Root::ports = {
    rParamI(level, "level"),
    rToggle(gate, "gate"),
    rRecur(mid, "middle"),
    rRecurp(midp, "middle pointer"),
    rRecurs(mids, 2, "middle array"),
    rSelf(Root),
};
#undef rObject
#endif // RT_TREE_DEFINE

} // namespace rtt
#endif
