// Engines `save` (C12) and `order` (C13): generated applications built from the real
// port-sugar macros (save_apps.inc, written by tools/props/saveapps.py), driven through
// Ports::dispatch, save_to_file and load_from_file.
//
// op line:  <mode> <app> <descriptor> <history> <x1> <x2>
//   history : `-` or  addr~tag~payload;addr~tag~payload…   (tags i c f T F s S; f: bit pattern,
//             s/S: hex bytes); a message with several arguments: addr~tag~payload~tag~payload…
//   sl   - - : run history, save, load into a fresh instance
//              ->  O <fields> S <lines> H <header ok> R <rc> F <fields after load>
//   bad  <kind> <arg> : as sl, but the file is damaged first (magic rver app aver parse line tok)
//              ->  O <fields> R <rc> F <fields | ->
//              tok <line>:<idx>:<hex|->  replaces (deletes) the idx-th blank-separated token of header line 0/1
//              line <k>:<msg>            inserts a message at position k; tag `-` = a message without arguments
//   meta - - : the three dependency keys of every port of the compiled tables, pre-order
//              ->  M depth,namehex,enabledByHex|-,dependsHex|-,defaultDependsHex|-;…
//   perm <seed> <max> : load every permutation of the file's messages (all if <= 6
//              messages, else <max> pseudo-random ones)
//              ->  N <msgs> P <perms> R <rc> F <fields> A <1|0> SAME <1|0> [W <perm> R <rc> F <fields>]
//              A: every load that succeeded (the file as written and each permutation tried) handed each of the
//              file's messages to the dispatcher exactly once (savefile_dispatcher_t::on_dispatch is counted)
// The descriptor token is for the model and the oracle only.
// Canonical forms: fields `addr=value` sorted, of enabled sub-trees only; lines
// `addr:value` / `addr:[v;v;…]` sorted, obtained by scanning the file text with the
// library's own scanner; values i<dec> c<dec> f<bits> T F S<hex> s<hex>; an enumeration
// symbol is printed as its index; an array line is shown with all elements of the array (the
// elements the file leaves out, because they equal the default, are taken from the saved object:
// the property does not say how much of an array a line spells out).
#include "common.h"
#include <rtosc/rtosc.h>
#include <rtosc/ports.h>
#include <rtosc/savefile.h>
#include <rtosc/pretty-format.h>
#include <rtosc/arg-val-itr.h>
#include <rtosc/arg-val.h>
#include <algorithm>
#include <climits>
#include <map>
#include <memory>
#include <set>
#include "save_apps.inc"
using namespace vh;

static const rtosc_version APPVER = {1, 2, 3};

static std::vector<std::string> split(const std::string &s, char c) {
    std::vector<std::string> out;
    size_t a = 0;
    for(;;) {
        size_t b = s.find(c, a);
        if(b == std::string::npos) { out.push_back(s.substr(a)); break; }
        out.push_back(s.substr(a, b - a));
        a = b + 1;
    }
    return out;
}

static std::string join(const std::vector<std::string> &v, const char *sep) {
    if(v.empty()) return "-";
    std::string o;
    for(size_t i = 0; i < v.size(); ++i) { if(i) o += sep; o += v[i]; }
    return o;
}

struct HMsg { std::string addr; char tag; std::string payload; std::vector<std::pair<char, std::string>> more; };

static bool parse_hist(const std::string &h, std::vector<HMsg> &out) {
    if(h == "-") return true;
    for(const std::string &m : split(h, ';')) {
        std::vector<std::string> p = split(m, '~');
        if(p.size() < 3 || p.size() % 2 != 1 || p[1].size() != 1) return false;
        HMsg hm{p[0], p[1][0], p[2], {}};
        for(size_t i = 3; i + 1 < p.size(); i += 2) {
            if(p[i].size() != 1) return false;
            hm.more.push_back({p[i][0], p[i + 1]});     // arguments behind the first
        }
        out.push_back(hm);
    }
    return true;
}

// one argument of a history entry / inserted line
static bool build_arg(char tag, const std::string &payload, rtosc_arg_val_t *av, std::string &strstore) {
    av->type = tag;
    switch(tag) {
        case 'i': case 'c': av->val.i = (int32_t)strtol(payload.c_str(), NULL, 10); return true;
        case 'f': { uint32_t b = (uint32_t)strtoul(payload.c_str(), NULL, 16); float f; memcpy(&f, &b, 4); av->val.f = f; return true; }
        case 'T': av->val.T = 1; return true;
        case 'F': av->val.T = 0; return true;
        case 's': case 'S': {
            bytes b; if(!unhex(payload.empty() ? "-" : payload, b)) return false;
            strstore.assign((const char *)b.data(), b.size());
            av->val.s = strstore.c_str();
            return true; }
    }
    return false;
}

// build the OSC message for one history entry / inserted line; avs receives the argument values
static bool build_msg(const HMsg &m, char *buf, size_t n, std::vector<rtosc_arg_val_t> &avs, std::vector<std::string> &strs) {
    avs.clear();
    if(m.tag == '-') return rtosc_message(buf, n, m.addr.c_str(), "") != 0;
    std::vector<std::pair<char, std::string>> all;
    all.push_back({m.tag, m.payload});
    all.insert(all.end(), m.more.begin(), m.more.end());
    avs.resize(all.size());
    strs.assign(all.size(), std::string());
    std::string types;
    std::vector<rtosc_arg_t> args;      // rtosc_amessage: one slot per payload-carrying tag
    for(size_t i = 0; i < all.size(); ++i) {
        if(!build_arg(all[i].first, all[i].second, &avs[i], strs[i])) return false;
        types += all[i].first;
        if(all[i].first != 'T' && all[i].first != 'F') args.push_back(avs[i].val);
    }
    args.push_back(rtosc_arg_t());
    return rtosc_amessage(buf, n, m.addr.c_str(), types.c_str(), args.data()) != 0;
}

static int dispatch(VApp &a, const char *msg) {
    char loc[1024] = "";
    rtosc::RtData d;
    d.obj = a.obj();
    d.loc = loc;
    d.loc_size = sizeof loc;
    a.ports().dispatch(msg, d, true);
    return d.matches;
}

static std::string fields(VApp &a) {
    std::vector<std::string> v;
    a.dump(v);
    std::sort(v.begin(), v.end());
    return join(v, ",");
}

static std::string canon_val(const rtosc_arg_val_t *av) {
    char t[32];
    switch(av->type) {
        case 'i': snprintf(t, sizeof t, "i%d", av->val.i); return t;
        case 'c': snprintf(t, sizeof t, "c%d", av->val.i); return t;
        case 'f': { uint32_t b; memcpy(&b, &av->val.f, 4); snprintf(t, sizeof t, "f%08x", b); return t; }
        case 'T': return "T";
        case 'F': return "F";
        case 's': { std::string h = hexs(av->val.s); return "s" + (h == "-" ? std::string() : h); }
        case 'S': { std::string h = hexs(av->val.s); return "S" + (h == "-" ? std::string() : h); }
    }
    return std::string("?") + av->type;
}

// the port of an address, matched component by component (Ports::apropos is content with a port whose name
// merely starts with the path)
static const rtosc::Port *find_port(const rtosc::Ports *tbl, const char *path) {
    while(*path == '/') ++path;
    if(!tbl || !*path) return nullptr;
    for(const rtosc::Port &p : *tbl) {
        const char *end = nullptr;
        if(strchr(p.name, '/')) {
            if(rtosc_match_path(p.name, path, &end)) {
                if(p.ports && *end) return find_port(p.ports, end);
                return &p;
            }
        } else {
            size_t len = strlen(path);
            if(rtosc_match_path(p.name, path, nullptr) || (!strncmp(p.name, path, len) && p.name[len] == '#'))
                return &p;
        }
    }
    return nullptr;
}

static void dump_meta(const rtosc::Ports *tbl, int depth, std::vector<std::string> &out) {
    if(!tbl) return;
    for(const rtosc::Port &p : *tbl) {
        std::string e = std::to_string(depth) + "," + hexs(p.name);
        for(const char *k : {"enabled by", "depends", "default depends"}) {
            const char *v = p.meta()[k];
            e += ",";
            e += v ? (*v ? hexs(v) : std::string()) : std::string("-");
        }
        out.push_back(e);
        dump_meta(p.ports, depth + 1, out);
    }
}

struct Scanned { bool ok; std::vector<std::string> chunks; std::vector<std::string> lines; };

// split the body (text behind the two header lines) into messages with the library's
// scanner, and render each canonically
static Scanned scan_body(const char *body, const rtosc::Ports *meta_of) {
    Scanned r;
    r.ok = true;
    const char *p = body;
    while(*p) {
        int nargs = rtosc_count_printed_arg_vals_of_msg(p);
        if(nargs >= 0) {
            std::vector<rtosc_arg_val_t> av(nargs + 1);
            std::vector<char> adr(8192), sb(8192);
            size_t rd = rtosc_scan_message(p, adr.data(), adr.size(), av.data(), nargs, sb.data(), sb.size());
            std::string chunk(p, rd);
            size_t b = chunk.find_first_not_of(" \t\n\r"), e = chunk.find_last_not_of(" \t\n\r");
            r.chunks.push_back(b == std::string::npos ? std::string() : chunk.substr(b, e - b + 1));
            std::string line = std::string(adr.data()) + ":";
            // an enumeration symbol and its index denote the same value: print the index
            // (the property does not say which spelling the file uses)
            if(meta_of) {
                const rtosc::Port *port = find_port(meta_of, adr.data());
                if(port) for(int k = 0; k < nargs; ++k)
                    if(av[k].type == 'S') {
                        int key = rtosc::enum_key(port->meta(), av[k].val.s);
                        if(key != INT_MIN) { av[k].type = 'i'; av[k].val.i = key; }
                    }
            }
            if(nargs > 0 && av[0].type == 'a') {
                line += "[";
                rtosc_arg_val_itr it;
                rtosc_arg_val_t tmp;
                rtosc_arg_val_itr_init(&it, av.data() + 1);
                bool first = true;
                while(it.i < (size_t)(nargs - 1)) {
                    const rtosc_arg_val_t *cur = rtosc_arg_val_itr_get(&it, &tmp);
                    if(!first) line += ";";
                    first = false;
                    line += canon_val(cur);
                    rtosc_arg_val_itr_next(&it);
                }
                line += "]";
            } else {
                rtosc_arg_val_itr it;
                rtosc_arg_val_t tmp;
                rtosc_arg_val_itr_init(&it, av.data());
                bool first = true;
                while(it.i < (size_t)nargs) {
                    const rtosc_arg_val_t *cur = rtosc_arg_val_itr_get(&it, &tmp);
                    if(!first) line += ";";
                    first = false;
                    line += canon_val(cur);
                    rtosc_arg_val_itr_next(&it);
                }
            }
            r.lines.push_back(line);
            p += rd;
        } else if(nargs == INT_MIN) {
            break;
        } else { r.ok = false; break; }
    }
    return r;
}

static std::string rc_str(int rc) { return rc < 0 ? std::string("neg") : std::to_string(rc); }

static size_t header_len(const std::string &text) {
    size_t a = text.find('\n');
    if(a == std::string::npos) return text.size();
    size_t b = text.find('\n', a + 1);
    return b == std::string::npos ? text.size() : b + 1;
}

// counts the messages load_from_file hands to the dispatcher (one on_dispatch per message of the file)
struct CountingDispatcher : rtosc::savefile_dispatcher_t {
    size_t applied = 0;
    int on_dispatch(size_t, char *, size_t, size_t nargs, rtosc_arg_val_t *) override { ++applied; return (int)nargs; }
};

static std::string load_into_fresh(int appid, const std::string &text, int &rc, size_t *applied = nullptr) {
    std::unique_ptr<VApp> b(make_app(appid));
    if(applied) {
        CountingDispatcher cd;
        rc = rtosc::load_from_file(text.c_str(), b->ports(), b->obj(), b->name(), APPVER, &cd);
        *applied = cd.applied;
    } else
        rc = rtosc::load_from_file(text.c_str(), b->ports(), b->obj(), b->name(), APPVER);
    return rc < 0 ? std::string("-") : fields(*b);
}

static uint32_t lcg(uint32_t &x) { x = (uint32_t)(((uint64_t)x * 1103515245u + 12345u) & 0x7fffffffu); return x; }

static std::string step(const std::string &line) {
    std::vector<std::string> w = words(line);
    if(w.size() < 6) return "bad-op";
    const std::string &mode = w[0];
    int appid = atoi(w[1].c_str());
    std::unique_ptr<VApp> a(make_app(appid));
    if(!a) return "bad-op";
    std::vector<HMsg> hist;
    if(!parse_hist(w[3], hist)) return "bad-op";
    char buf[2048];
    for(const HMsg &m : hist) {
        std::vector<rtosc_arg_val_t> avs; std::vector<std::string> sts;
        if(!build_msg(m, buf, sizeof buf, avs, sts)) return "bad-op";
        dispatch(*a, buf);
    }
    std::string O = fields(*a);
    std::set<std::string> written;
    std::string text = rtosc::save_to_file(a->ports(), a->obj(), a->name(), APPVER, written, {});
    size_t hl = header_len(text);
    std::string header = text.substr(0, hl), body = text.substr(hl);
    Scanned sc = scan_body(body.c_str(), &a->ports());
    if(mode == "txt") return "TXT " + hex((const unsigned char *)text.data(), text.size());   // debugging aid
    if(mode == "meta") {
        std::vector<std::string> m;
        dump_meta(&a->ports(), 0, m);
        std::string o;
        for(size_t i = 0; i < m.size(); ++i) { if(i) o += ";"; o += m[i]; }
        return "M " + o;
    }
    if(mode == "sl") {
        std::vector<std::string> ls = sc.lines;
        {   // show every array line with all elements of the array
            std::vector<std::string> fv;
            a->dump(fv);
            std::map<std::string, std::string> cur;
            for(const std::string &f : fv) { size_t e = f.find('='); cur[f.substr(0, e)] = f.substr(e + 1); }
            for(std::string &l : ls) {
                if(l.empty() || l.back() != ']') continue;
                size_t c = l.find(":[");
                if(c == std::string::npos) continue;
                std::string base = l.substr(0, c), body = l.substr(c + 2, l.size() - c - 3);
                size_t n = body.empty() ? 0 : (size_t)std::count(body.begin(), body.end(), ';') + 1;
                for(;; ++n) {
                    auto it = cur.find(base + std::to_string(n));
                    if(it == cur.end()) break;
                    if(!body.empty()) body += ";";
                    body += it->second;
                }
                l = base + ":[" + body + "]";
            }
        }
        std::sort(ls.begin(), ls.end());
        unsigned a1, a2, a3; int n1 = 0;
        char exp2[128];
        snprintf(exp2, sizeof exp2, "%% %s v1.2.3\n", a->name());
        bool hok = sscanf(header.c_str(), "%% RT OSC v%u.%u.%u savefile\n%n", &a1, &a2, &a3, &n1) == 3 && n1 > 0
                   && header.substr(n1) == exp2 && sc.ok;
        int rc;
        std::string F = load_into_fresh(appid, text, rc);
        return "O " + O + " S " + join(ls, ",") + " H " + (hok ? "1" : "0") + " R " + rc_str(rc) + " F " + F;
    }
    if(mode == "bad") {
        const std::string &kind = w[4];
        std::string t2 = text;
        if(kind == "magic") { size_t p = t2.find("RT OSC"); if(p != std::string::npos) t2.replace(p, 6, "RT OSX"); }
        else if(kind == "rver") { size_t p = t2.find(" v"); size_t e = t2.find(' ', p + 1); t2.replace(p, e - p, " v" + w[5]); }
        else if(kind == "app") { t2 = header.substr(0, header.find('\n') + 1) + "% " + w[5] + " v1.2.3\n" + body; }
        else if(kind == "aver") { t2 = header.substr(0, header.find('\n') + 1) + "% " + a->name() + " v" + w[5] + "\n" + body; }
        else if(kind == "tok") {
            std::vector<std::string> p = split(w[5], ':');
            if(p.size() != 3) return "bad-op";
            size_t ln = (size_t)atol(p[0].c_str()), idx = (size_t)atol(p[1].c_str());
            std::vector<std::string> hl = split(header, '\n');      // two lines and an empty rest
            if(ln >= hl.size()) return "bad-op";
            std::vector<std::string> tk = split(hl[ln], ' ');
            if(idx >= tk.size()) return "bad-op";
            if(p[2] == "-") tk.erase(tk.begin() + idx);
            else { bytes b; if(!unhex(p[2], b)) return "bad-op"; tk[idx].assign((const char *)b.data(), b.size()); }
            std::string nl;
            for(size_t i = 0; i < tk.size(); ++i) { if(i) nl += " "; nl += tk[i]; }
            hl[ln] = nl;
            t2.clear();
            for(size_t i = 0; i < hl.size(); ++i) { if(i) t2 += "\n"; t2 += hl[i]; }
            t2 += body;
        }
        else if(kind == "parse" || kind == "line") {
            std::string ins;
            size_t k;
            if(kind == "parse") { ins = "/zz $1"; k = (size_t)atol(w[5].c_str()); }
            else {
                size_t c = w[5].find(':');
                if(c == std::string::npos) return "bad-op";
                k = (size_t)atol(w[5].substr(0, c).c_str());
                std::vector<HMsg> one;
                if(!parse_hist(w[5].substr(c + 1), one) || one.size() != 1) return "bad-op";
                std::vector<rtosc_arg_val_t> avs; std::vector<std::string> sts;
                if(!build_msg(one[0], buf, sizeof buf, avs, sts)) return "bad-op";
                char pr[4096];
                rtosc_arg_val_t none_av;
                rtosc_print_message(one[0].addr.c_str(), avs.empty() ? &none_av : avs.data(), avs.size(), pr, sizeof pr, NULL, 0);
                ins = pr;
                while(!ins.empty() && (ins.back() == '\n' || ins.back() == ' ')) ins.pop_back();
            }
            std::vector<std::string> ch = sc.chunks;
            k %= (ch.size() + 1);
            ch.insert(ch.begin() + k, ins);
            t2 = header;
            for(size_t i = 0; i < ch.size(); ++i) { if(i) t2 += "\n"; t2 += ch[i]; }
        } else return "bad-op";
        int rc;
        std::string F = load_into_fresh(appid, t2, rc);
        return "O " + O + " R " + rc_str(rc) + " F " + F;
    }
    if(mode == "perm") {
        uint32_t seed = (uint32_t)strtoul(w[4].c_str(), NULL, 10);
        size_t maxr = (size_t)atol(w[5].c_str());
        size_t n = sc.chunks.size();
        int rc0;
        size_t applied0 = 0;
        std::string F0 = load_into_fresh(appid, text, rc0, &applied0);
        bool all_applied = rc0 < 0 || applied0 == n;
        std::vector<size_t> idx(n);
        for(size_t i = 0; i < n; ++i) idx[i] = i;
        size_t count = 0;
        std::string wit;
        auto try_perm = [&](const std::vector<size_t> &p) -> bool {
            std::string t = header;
            for(size_t i = 0; i < n; ++i) { if(i) t += "\n"; t += sc.chunks[p[i]]; }
            int rc;
            size_t applied = 0;
            std::string F = load_into_fresh(appid, t, rc, &applied);
            ++count;
            if(rc >= 0 && applied != n) all_applied = false;
            if(rc != rc0 || F != F0) {
                std::vector<std::string> ps;
                for(size_t x : p) ps.push_back(std::to_string(x));
                wit = " W " + join(ps, ".") + " R " + rc_str(rc) + " F " + F;
                return false;
            }
            return true;
        };
        bool same = true;
        if(n <= 6) {
            do { if(!try_perm(idx)) { same = false; break; } } while(std::next_permutation(idx.begin(), idx.end()));
        } else {
            uint32_t x = seed;
            for(size_t r = 0; r < maxr && same; ++r) {
                std::vector<size_t> p = idx;
                for(size_t i = n - 1; i >= 1; --i) { size_t j = lcg(x) % (i + 1); std::swap(p[i], p[j]); }
                if(!try_perm(p)) same = false;
            }
        }
        return "N " + std::to_string(n) + " P " + std::to_string(count) + " R " + rc_str(rc0) + " F " + F0
               + " A " + (all_applied ? "1" : "0") + " SAME " + (same ? "1" : "0") + wit;
    }
    return "bad-op";
}

int main(int argc, char **argv) { return run_lines(argc, argv, step); }
