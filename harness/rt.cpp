// Engine `rt` (C03): dynamic validation of the call-graph model.
//
// The process interposes malloc/calloc/realloc/free/posix_memalign/aligned_alloc/memalign/valloc,
// the operator new/delete family and pthread_mutex_lock/trylock/timedlock (+ rwlock, cond wait).
// Hits are counted ONLY inside the marked realtime section.  Everything that may allocate
// (parsing the op line, building port trees and ThreadLinks, formatting the output line) happens
// outside the section; inside the section only the entry points of harness/rt_entries.cpp run,
// on caller-provided storage.  Built WITHOUT ASan (ASan owns the allocator).
//
// op lines (tokens separated by one space, bytes in hex, `-` = empty):
//   build <cap> <addr> <types> <args> <litsig>      build/measure/read one message
//   msg <bytes> <split>                             measure/read a raw message
//   bundle <tt> <slack> <elem>;<elem>;...           build + read a bundle (elements = messages or bundles)
//   match <pattern> <msg>                           rtosc_match / rtosc_match_path
//   disp <tree> <cap|base> <loc 0|1> <base 0|1> <msg>   Ports::dispatch ; tree = sugar | sugarnull | spec
//   reply <cap|base> <path> <litsig> <types> <args> default RtData reply/broadcast forwarding
//   tlink <maxmsg> <nmsgs> <op;op;...>              ThreadLink write/read/hasNext history; element `f<o><n>` = an
//                                                   operation <o> (l/a/w = write/writeArray/raw_write) whose argument
//                                                   lies on an unreadable page is interrupted by the fault, the fault
//                                                   handler runs operation <n> (l/a/w/h/r) on the SAME link and then
//                                                   makes the page readable: an operation that waits for a lock held
//                                                   by the interrupted one never returns -> `blocked=1` (watchdog)
//   meta <leaf|mid|root> <portname> <key> <value>   metadata views
// output: `hits=<n>[ first=<symbol> <per-symbol counts>][ threw=1][ emptycb=<n>:<port>] <functional summary>`
//   threw=1   an exception left the realtime section (caught by the harness)
//   emptycb   (disp on the sugar tree, selftest) ports of the tables built with the library's own macros whose
//             callback is an empty std::function: the precondition under which the call-graph model leaves out the
//             edge Ports::dispatch -> std::__throw_bad_function_call does not hold for the library's own tables
#include "common.h"
#include "rt_entries.h"
#include <pthread.h>
#include <dlfcn.h>
#include <signal.h>
#include <setjmp.h>
#include <sys/mman.h>
#include <sys/time.h>
#include <unistd.h>
#include <map>
#include <deque>
#include <new>
using namespace vh;

// ---------------------------------------------------------------------------------------
// interposition
// ---------------------------------------------------------------------------------------
extern "C" {
void *__libc_malloc(size_t);
void  __libc_free(void *);
void *__libc_calloc(size_t, size_t);
void *__libc_realloc(void *, size_t);
void *__libc_memalign(size_t, size_t);
}

static volatile int g_rt = 0;
struct Hits {
    unsigned long malloc_, calloc_, realloc_, free_, memalign_, new_, delete_, lock_;
    const char *first;
    unsigned long total() const { return malloc_ + calloc_ + realloc_ + free_ + memalign_ + new_ + delete_ + lock_; }
};
static Hits g_hits;
#define HIT(field, name) do { if(g_rt) { g_hits.field++; if(!g_hits.first) g_hits.first = name; } } while(0)

extern "C" {
void *malloc(size_t n) { HIT(malloc_, "malloc"); return __libc_malloc(n); }
void *calloc(size_t a, size_t b) { HIT(calloc_, "calloc"); return __libc_calloc(a, b); }
void *realloc(void *p, size_t n) { HIT(realloc_, "realloc"); return __libc_realloc(p, n); }
void  free(void *p) { if(p) HIT(free_, "free"); __libc_free(p); }
int   posix_memalign(void **out, size_t al, size_t n)
{
    HIT(memalign_, "posix_memalign");
    void *p = __libc_memalign(al, n);
    if(!p) return 12;
    *out = p;
    return 0;
}
void *aligned_alloc(size_t al, size_t n) { HIT(memalign_, "aligned_alloc"); return __libc_memalign(al, n); }
void *memalign(size_t al, size_t n) { HIT(memalign_, "memalign"); return __libc_memalign(al, n); }
void *valloc(size_t n) { HIT(memalign_, "valloc"); return __libc_memalign(4096, n); }

typedef int (*mutex_fn)(pthread_mutex_t *);
typedef int (*mutex_timed_fn)(pthread_mutex_t *, const struct timespec *);
typedef int (*rwlock_fn)(pthread_rwlock_t *);
typedef int (*cond_fn)(pthread_cond_t *, pthread_mutex_t *);
static mutex_fn       real_lock, real_trylock;
static mutex_timed_fn real_timedlock;
static rwlock_fn      real_rdlock, real_wrlock;
static cond_fn        real_condwait;
static void resolve_real(void)
{
    real_lock      = (mutex_fn) dlsym(RTLD_NEXT, "pthread_mutex_lock");
    real_trylock   = (mutex_fn) dlsym(RTLD_NEXT, "pthread_mutex_trylock");
    real_timedlock = (mutex_timed_fn) dlsym(RTLD_NEXT, "pthread_mutex_timedlock");
    real_rdlock    = (rwlock_fn) dlsym(RTLD_NEXT, "pthread_rwlock_rdlock");
    real_wrlock    = (rwlock_fn) dlsym(RTLD_NEXT, "pthread_rwlock_wrlock");
    real_condwait  = (cond_fn) dlsym(RTLD_NEXT, "pthread_cond_wait");
}
int pthread_mutex_lock(pthread_mutex_t *m)
{
    HIT(lock_, "pthread_mutex_lock");
    if(!real_lock) resolve_real();
    return real_lock(m);
}
int pthread_mutex_trylock(pthread_mutex_t *m)
{
    HIT(lock_, "pthread_mutex_trylock");
    if(!real_trylock) resolve_real();
    return real_trylock(m);
}
int pthread_mutex_timedlock(pthread_mutex_t *m, const struct timespec *t)
{
    HIT(lock_, "pthread_mutex_timedlock");
    if(!real_timedlock) resolve_real();
    return real_timedlock(m, t);
}
int pthread_rwlock_rdlock(pthread_rwlock_t *l)
{
    HIT(lock_, "pthread_rwlock_rdlock");
    if(!real_rdlock) resolve_real();
    return real_rdlock(l);
}
int pthread_rwlock_wrlock(pthread_rwlock_t *l)
{
    HIT(lock_, "pthread_rwlock_wrlock");
    if(!real_wrlock) resolve_real();
    return real_wrlock(l);
}
int pthread_cond_wait(pthread_cond_t *c, pthread_mutex_t *m)
{
    HIT(lock_, "pthread_cond_wait");
    if(!real_condwait) resolve_real();
    return real_condwait(c, m);
}
} // extern "C"

static void *new_impl(size_t n, bool nothrow)
{
    HIT(new_, "operator new");
    void *p = __libc_malloc(n ? n : 1);
    if(!p && !nothrow) abort();
    return p;
}
static void delete_impl(void *p)
{
    if(p) HIT(delete_, "operator delete");
    __libc_free(p);
}
void *operator new(size_t n) { return new_impl(n, false); }
void *operator new[](size_t n) { return new_impl(n, false); }
void *operator new(size_t n, const std::nothrow_t &) noexcept { return new_impl(n, true); }
void *operator new[](size_t n, const std::nothrow_t &) noexcept { return new_impl(n, true); }
void  operator delete(void *p) noexcept { delete_impl(p); }
void  operator delete[](void *p) noexcept { delete_impl(p); }
void  operator delete(void *p, const std::nothrow_t &) noexcept { delete_impl(p); }
void  operator delete[](void *p, const std::nothrow_t &) noexcept { delete_impl(p); }
void  operator delete(void *p, size_t) noexcept { delete_impl(p); }
void  operator delete[](void *p, size_t) noexcept { delete_impl(p); }

static volatile int g_threw = 0;
#define RT_BEGIN() do { memset((void *) &g_hits, 0, sizeof(g_hits)); g_threw = 0; g_rt = 1; } while(0)
#define RT_END()   do { g_rt = 0; } while(0)

// the realtime section: an exception that leaves it is caught here and reported (threw=1); what it allocated on its
// way is counted like everything else
template<class F> static inline void rt_section(F &&f)
{
    RT_BEGIN();
    try { f(); } catch(...) { g_threw = 1; }
    RT_END();
}

static std::string hits_str(void)
{
    std::ostringstream o;
    Hits h = g_hits;
    o << "hits=" << h.total();
    if(h.total())
        o << " first=" << (h.first ? h.first : "?") << " malloc=" << h.malloc_ << " calloc=" << h.calloc_
          << " realloc=" << h.realloc_ << " free=" << h.free_ << " memalign=" << h.memalign_ << " new=" << h.new_
          << " delete=" << h.delete_ << " lock=" << h.lock_;
    if(g_threw) o << " threw=1";
    return o.str();
}

// ---------------------------------------------------------------------------------------
// helpers: arguments, va_list
// ---------------------------------------------------------------------------------------
rtt::CapData *rt_support_new_capdata(void);
rtosc::RtData *rt_support_new_rtdata(void);

struct Args {
    std::string              types;
    std::vector<rtosc_arg_t> a;
    std::deque<bytes>        store;
    bool                     ok;
};

static bool parse_args(const std::string &types_tok, const std::string &args_tok, Args &out)
{
    out.types = types_tok == "-" ? "" : types_tok;
    out.ok = false;
    std::vector<std::string> items;
    if(args_tok != "-") {
        std::string cur;
        for(char c : args_tok) {
            if(c == ',') { items.push_back(cur); cur.clear(); }
            else cur.push_back(c);
        }
        items.push_back(cur);
    }
    size_t k = 0;
    for(char t : out.types) {
        if(!strchr("ifhdtsSbmcr", t)) continue;
        if(k >= items.size()) return false;
        const std::string &it = items[k++];
        if(it.size() < 2 || it[0] != t || it[1] != ':') return false;
        std::string v = it.substr(2);
        rtosc_arg_t a;
        memset(&a, 0, sizeof(a));
        switch(t) {
            case 'i': case 'c': case 'r': a.i = (int32_t) strtoll(v.c_str(), NULL, 10); break;
            case 'h': case 't': a.h = (int64_t) strtoull(v.c_str(), NULL, 10); break;
            case 'f': { uint32_t u = (uint32_t) strtoul(v.c_str(), NULL, 16); memcpy(&a.f, &u, 4); break; }
            case 'd': { uint64_t u = strtoull(v.c_str(), NULL, 16); memcpy(&a.d, &u, 8); break; }
            case 'm': { bytes b; if(!unhex(v, b) || b.size() != 4) return false; memcpy(a.m, b.data(), 4); break; }
            case 's': case 'S': {
                bytes b; if(!unhex(v, b)) return false;
                b.push_back(0);
                out.store.push_back(b);
                a.s = (const char *) out.store.back().data();
                break;
            }
            case 'b': {
                bytes b; if(!unhex(v, b)) return false;
                size_t n = b.size();
                b.push_back(0);
                out.store.push_back(b);
                a.b.len = (int32_t) n;
                a.b.data = out.store.back().data();
                break;
            }
        }
        out.a.push_back(a);
    }
    if(k != items.size()) return false;
    if(out.a.empty()) { rtosc_arg_t z; memset(&z, 0, sizeof(z)); out.a.push_back(z); out.a.pop_back(); }
    out.ok = true;
    return true;
}

// x86-64 SysV va_list in all-overflow form: every argument is an 8-byte slot
struct VaSlots {
    uint64_t slots[256];
    int      n;
    void fill(const Args &A)
    {
        n = 0;
        size_t k = 0;
        for(char t : A.types) {
            if(!strchr("ifhdtsSbmcr", t) || n > 250) continue;
            const rtosc_arg_t &a = A.a[k++];
            switch(t) {
                case 'i': case 'c': case 'r': slots[n++] = (uint64_t)(int64_t) a.i; break;
                case 'h': case 't': slots[n++] = (uint64_t) a.h; break;
                case 'f': { double d = a.f; memcpy(&slots[n++], &d, 8); break; }
                case 'd': memcpy(&slots[n++], &a.d, 8); break;
                case 'm': slots[n++] = (uint64_t)(uintptr_t) a.m; break;
                case 's': case 'S': slots[n++] = (uint64_t)(uintptr_t) a.s; break;
                case 'b': slots[n++] = (uint64_t)(int64_t) a.b.len; slots[n++] = (uint64_t)(uintptr_t) a.b.data; break;
            }
        }
    }
    void start(va_list va)
    {
        struct RawVa { unsigned gp_offset, fp_offset; void *overflow_arg_area, *reg_save_area; };
        RawVa r = {48, 304, (void *) slots, NULL};
        static_assert(sizeof(RawVa) == sizeof(va_list), "x86-64 SysV va_list layout");
        memcpy((void *) va, &r, sizeof(r));
    }
};

static std::string hx64(uint64_t v)
{
    char b[32];
    snprintf(b, sizeof(b), "%016llx", (unsigned long long) v);
    return b;
}

static int lit_index(const std::string &types)
{
    for(int i = 0; i < rte::N_LIT_SIGS; ++i)
        if(types == rte::LIT_SIGS[i]) return i;
    return -1;
}

// ---------------------------------------------------------------------------------------
// generated port trees
// ---------------------------------------------------------------------------------------
static unsigned long g_cb = 0;
struct Big { long v[5]; };

struct DynPorts : rtosc::Ports {
    DynPorts() : rtosc::Ports({}) {}
    void add(const char *name, const char *meta, const rtosc::Ports *sub, std::function<void(rtosc::msg_t, rtosc::RtData &)> cb)
    {
        ports.push_back({name, meta, sub, cb});
    }
    void done(void) { refreshMagic(); }
};

static std::function<void(rtosc::msg_t, rtosc::RtData &)> make_cb(char kind)
{
    switch(kind) {
        case 'p':
            return [](rtosc::msg_t, rtosc::RtData &d) {
                ++g_cb;
                if(d.loc) d.reply(d.loc, "i", 1);
                else d.reply("/noloc", "s", "x");
            };
        case 'r':
            return [](rtosc::msg_t msg, rtosc::RtData &d) {
                ++g_cb;
                while(*msg && *msg != '/') ++msg;
                msg = *msg ? msg + 1 : msg;
                if(d.port->ports) d.port->ports->dispatch(msg, d);
            };
        case 'c': {
            Big big = {{1, 2, 3, 4, 5}};     // 40 bytes: stored on the heap by std::function, at construction
            return [big](rtosc::msg_t, rtosc::RtData &d) {
                g_cb += big.v[0];
                d.broadcast(d.loc ? d.loc : "/x", "i", (int) big.v[1]);
            };
        }
        case 'e':
            return [](rtosc::msg_t m, rtosc::RtData &d) {
                ++g_cb;
                d.reply(d.message ? d.message : m);
                d.chain(m);
                d.forward();
                rtosc_arg_t a[2];
                a[0].i = 7; a[1].s = "y";
                d.replyArray(d.loc ? d.loc : "/x", "is", a);
                d.broadcastArray(d.loc ? d.loc : "/x", "is", a);
            };
        default:
            return [](rtosc::msg_t, rtosc::RtData &) { ++g_cb; };
    }
}

static std::deque<std::string> g_names;
static std::map<std::string, DynPorts *> g_trees;

// spec :=  ['*' kind] '(' port { ',' port } ')'     port := hexname '.' kind [ spec ]
static DynPorts *parse_tree(const std::string &s, size_t &i, int depth)
{
    if(depth > 8) return NULL;
    DynPorts *t = new DynPorts;
    bool has_def = false;
    char def_kind = 'q';
    if(i < s.size() && s[i] == '*') {
        has_def = true;
        if(i + 1 >= s.size()) return NULL;
        def_kind = s[i + 1];
        i += 2;
    }
    if(i >= s.size() || s[i] != '(') return NULL;
    ++i;
    while(i < s.size() && s[i] != ')') {
        size_t j = i;
        while(j < s.size() && hexval(s[j]) >= 0) ++j;
        bytes nb;
        if(j == i || !unhex(s.substr(i, j - i), nb) || j + 1 >= s.size() || s[j] != '.') return NULL;
        char kind = s[j + 1];
        i = j + 2;
        DynPorts *sub = NULL;
        if(i < s.size() && (s[i] == '(' || s[i] == '*')) {
            sub = parse_tree(s, i, depth + 1);
            if(!sub) return NULL;
        }
        g_names.push_back(std::string(nb.begin(), nb.end()));
        t->add(g_names.back().c_str(), ":documentation\0=generated\0", sub, make_cb(kind));
        if(i < s.size() && s[i] == ',') ++i;
    }
    if(i >= s.size()) return NULL;
    ++i;
    if(has_def) t->default_handler = make_cb(def_kind);
    t->done();
    return t;
}

static DynPorts *get_tree(const std::string &spec)
{
    auto it = g_trees.find(spec);
    if(it != g_trees.end()) return it->second;
    size_t i = 0;
    DynPorts *t = parse_tree(spec, i, 0);
    if(t && i != spec.size()) t = NULL;
    g_trees[spec] = t;
    return t;
}

// ---------------------------------------------------------------------------------------
// the sugar tree's objects
// ---------------------------------------------------------------------------------------
static rtt::Root g_root;
static rtt::Mid  g_midp;
static rtt::Leaf g_leafs[8];
static void init_mid(rtt::Mid &m, int base)
{
    memset((void *) &m, 0, sizeof(m));
    m.vol = 64; m.freq = 440.f; m.count = 3; m.mode = 1;
    strcpy(m.str, "hello");
    m.subp = &g_leafs[base];
    for(int i = 0; i < 3; ++i) m.subsp[i] = &g_leafs[base + 1];
}
static void init_objects(void)
{
    memset((void *) g_leafs, 0, sizeof(g_leafs));
    memset((void *) &g_root, 0, sizeof(g_root));
    init_mid(g_root.mid, 0);
    init_mid(g_root.mids[0], 2);
    init_mid(g_root.mids[1], 4);
    init_mid(g_midp, 6);
    g_root.midp = &g_midp;
}

// every Port::cb of the tables built with the library's own macros (the sugar tree) must be a non-empty
// std::function: the call-graph model leaves out the edge Ports::dispatch -> std::__throw_bad_function_call under
// exactly this precondition
static unsigned long g_ports_checked = 0, g_empty_cb = 0;
static std::string   g_first_empty;
static void scan_callbacks(const rtosc::Ports *p, const std::string &prefix, int depth)
{
    if(!p || depth > 8) return;
    for(const rtosc::Port &port : *p) {
        ++g_ports_checked;
        if(!port.cb) {
            if(!g_empty_cb) g_first_empty = prefix + port.name;
            ++g_empty_cb;
        }
        if(port.ports) scan_callbacks(port.ports, prefix + port.name, depth + 1);
    }
}
static std::string empty_cb_str(void)
{
    if(!g_empty_cb) return "";
    return " emptycb=" + std::to_string(g_empty_cb) + ":" + hexs(g_first_empty.c_str());
}

// ---------------------------------------------------------------------------------------
// ops
// ---------------------------------------------------------------------------------------
static char g_buf1[1 << 17], g_buf2[1 << 17], g_buf3[1 << 17];

static std::string op_build(const std::vector<std::string> &w)
{
    if(w.size() < 6) return "bad-op";
    size_t cap = strtoul(w[1].c_str(), NULL, 10);
    bytes addr;
    Args A;
    if(cap > sizeof(g_buf1) || !unhex(w[2], addr) || !parse_args(w[3], w[4], A)) return "bad-op";
    addr.push_back(0);
    int sig = atoi(w[5].c_str());
    if(sig >= 0 && (sig >= rte::N_LIT_SIGS || A.types != rte::LIT_SIGS[sig])) return "bad-op";
    VaSlots vs;
    vs.fill(A);
    va_list va;
    vs.start(va);
    const rtosc_arg_t *ap = A.a.data();
    const char *ad = (const char *) addr.data();
    size_t n1 = 0, n2 = 0, n3 = 0;
    unsigned nargs = 0;
    uint64_t sum = 0;
    rte::Measure M = {0, 0, 0, false};
    rt_section([&] {
    n1 = rte::build_array(g_buf1, cap, ad, A.types.c_str(), ap);
    n2 = rte::build_valist(g_buf2, cap, ad, A.types.c_str(), va);
    if(sig >= 0) n3 = rte::build_literal(g_buf3, cap, ad, sig, ap);
    if(n1) {
        rte::measure(g_buf1, n1, n1 / 2, ad, A.types.c_str(), ap, &M);
        sum = rte::read_all(g_buf1, &nargs);
    }
    });
    std::ostringstream o;
    o << hits_str() << " len=" << n1 << " v=" << n2 << " l=" << n3 << " same=" << ((n1 == n2 && !memcmp(g_buf1, g_buf2, n1)) ? 1 : 0)
      << " m=" << M.len << "," << M.ring_len << "," << M.null_len << "," << (M.valid ? 1 : 0) << " r=" << nargs << ":" << hx64(sum);
    return o.str();
}

static std::string op_msg(const std::vector<std::string> &w)
{
    if(w.size() < 3) return "bad-op";
    bytes m;
    if(!unhex(w[1], m) || m.size() < 4) return "bad-op";
    size_t split = strtoul(w[2].c_str(), NULL, 10);
    size_t n = m.size();
    for(int i = 0; i < 8; ++i) m.push_back(0);
    unsigned nargs = 0;
    uint64_t sum = 0;
    rte::Measure M = {0, 0, 0, false};
    rt_section([&] {
    rte::measure((const char *) m.data(), n, split, NULL, NULL, NULL, &M);
    sum = rte::read_all((const char *) m.data(), &nargs);
    });
    std::ostringstream o;
    o << hits_str() << " m=" << M.len << "," << M.ring_len << "," << (M.valid ? 1 : 0) << " r=" << nargs << ":" << hx64(sum);
    return o.str();
}

static std::string op_bundle(const std::vector<std::string> &w)
{
    if(w.size() < 4) return "bad-op";
    uint64_t tt = strtoull(w[1].c_str(), NULL, 10);
    size_t slack = strtoul(w[2].c_str(), NULL, 10);
    std::deque<bytes> elems;
    std::string cur;
    if(w[3] != "-") {
        for(char c : w[3] + ";") {
            if(c == ';') {
                bytes b;
                if(!unhex(cur, b) || b.size() < 4) return "bad-op";
                for(int i = 0; i < 8; ++i) b.push_back(0);
                elems.push_back(b);
                cur.clear();
            } else cur.push_back(c);
        }
    }
    if(elems.size() > 6) return "bad-op";
    const char *e[6] = {0, 0, 0, 0, 0, 0};
    size_t need = 16;
    for(size_t i = 0; i < elems.size(); ++i) {
        e[i] = (const char *) elems[i].data();
        need += 4 + elems[i].size() - 8;
    }
    // rtosc_bundle does not honour `len` on the unchanged tree (defect F2 of C02): always give it enough room
    size_t cap = need + slack;
    if(cap > sizeof(g_buf1)) return "bad-op";
    size_t n = 0;
    unsigned count = 0;
    uint64_t sum = 0;
    rt_section([&] {
    n = rte::bundle_build(g_buf1, cap, tt, (int) elems.size(), e);
    if(n) sum = rte::bundle_read(g_buf1, n, &count);
    });
    std::ostringstream o;
    o << hits_str() << " size=" << n << " elems=" << count << " r=" << hx64(sum);
    return o.str();
}

static std::string op_match(const std::vector<std::string> &w)
{
    if(w.size() < 3) return "bad-op";
    bytes p, m;
    if(!unhex(w[1], p) || !unhex(w[2], m)) return "bad-op";
    for(int i = 0; i < 8; ++i) { p.push_back(0); m.push_back(0); }
    unsigned r;
    rt_section([&] {
    r = rte::match_all((const char *) p.data(), (const char *) m.data());
    });
    std::ostringstream o;
    o << hits_str() << " r=" << r;
    return o.str();
}

static std::string op_disp(const std::vector<std::string> &w)
{
    if(w.size() < 6) return "bad-op";
    bool sugar = (w[1] == "sugar" || w[1] == "sugarnull");
    const rtosc::Ports *ports = NULL;
    if(sugar) ports = &rtt::Root::ports;
    else ports = get_tree(w[1]);
    if(!ports) return "bad-tree";
    bool cap = (w[2] == "cap");
    bool loc = w[3] == "1", base = w[4] == "1";
    bytes m;
    if(!unhex(w[5], m) || m.size() < 4) return "bad-op";
    for(int i = 0; i < 8; ++i) m.push_back(0);
    if(sugar && !loc) return "skip sugar callbacks need a location buffer";
    init_objects();
    g_root.midp = (w[1] == "sugarnull") ? NULL : &g_midp;
    if(w[1] == "sugarnull") { g_root.mid.subp = NULL; g_midp.subp = NULL; }
    static char locbuf[2048];
    memset(locbuf, 0, sizeof(locbuf));
    rtt::CapData *cd = cap ? rt_support_new_capdata() : NULL;
    rtosc::RtData *d = cap ? cd : rt_support_new_rtdata();
    d->obj = sugar ? (void *) &g_root : (void *) &g_cb;
    d->loc = locbuf;
    d->loc_size = sizeof(locbuf);
    d->port = NULL;
    g_cb = 0;
    rt_section([&] {
    if(loc) rte::dispatch_loc(ports, (const char *) m.data(), d, base);
    else    rte::dispatch_noloc(ports, (const char *) m.data(), d, base);
    });
    std::ostringstream o;
    o << hits_str() << (sugar ? empty_cb_str() : std::string()) << " matches=" << d->matches << " cb=" << g_cb << " port=" << ((d->matches || g_cb) && d->port ? hexs(d->port->name) : std::string("-"));
    if(cd) {
        // (the reply bytes themselves are not printed: `self` ports reply object addresses)
        o << " replies=" << cd->replies << " bcasts=" << cd->broadcasts << " arrays=" << cd->arrays << " chains=" << cd->chains
          << " last=" << cd->last_len;
    }
    o << " state=" << (int) g_root.mid.vol << "," << g_root.mid.count << "," << (int) g_root.mid.on << "," << g_root.mid.mode << ","
      << g_root.level << "," << g_root.mid.acted << "," << (int) g_root.mid.sub.pc;
    delete d;
    return o.str();
}

static std::string op_reply(const std::vector<std::string> &w)
{
    if(w.size() < 6) return "bad-op";
    bool cap = (w[1] == "cap");
    bytes path;
    Args A;
    if(!unhex(w[2], path) || !parse_args(w[4], w[5], A)) return "bad-op";
    path.push_back(0);
    int sig = atoi(w[3].c_str());
    if(sig < 0 || sig >= rte::N_LIT_SIGS || A.types != rte::LIT_SIGS[sig]) return "bad-op";
    rtt::CapData *cd = cap ? rt_support_new_capdata() : NULL;
    rtosc::RtData *d = cap ? cd : rt_support_new_rtdata();
    rt_section([&] {
    rte::reply_forward(d, (const char *) path.data(), sig, A.a.data(), A.types.c_str());
    });
    std::ostringstream o;
    o << hits_str();
    if(cd) o << " replies=" << cd->replies << " bcasts=" << cd->broadcasts << " arrays=" << cd->arrays << " chains=" << cd->chains
             << " last=" << cd->last_len;
    delete d;
    return o.str();
}

struct TlOp {
    char kind;       // a = writeArray, l = literal write, w = raw_write, h = hasNext, r = guarded read, R = read, p = peak,
                     // f = interrupted operation (outer) + operation on the same link from the fault handler (nested)
    char outer, nested;
    int  k;
    bytes addr, raw;
    Args A;
};

// ---- an operation interrupted in the middle + an operation on the same link while it is suspended ------------------
// The outer operation reads its argument from a page without read permission: it faults somewhere inside the
// library (after whatever it does on entry, e.g. taking a lock).  The SIGSEGV handler runs the nested operation on
// the same link, makes the page readable and returns: the outer operation resumes.  A wait-free link completes both.
// If the nested operation waits for something the suspended outer operation holds, it never returns: the interval
// timer fires and the handler jumps back to the harness (result 2 = blocked).
static char               *g_page = NULL;
static rtosc::ThreadLink  *g_f_link = NULL;
static char                g_f_nested = 0;
static volatile int        g_f_state = 0;    // 0 armed, 1 nested operation running, 2 nested operation done
static sigjmp_buf          g_f_jmp;
static int                 g_f_blocked_seen = 0;
static const char          PAGE_MSG[] = "/outer\0\0,s\0\0hello\0\0";      // 20 bytes: a message, and a string

static void on_fault(int)
{
    if(g_f_state != 0 || !g_f_link) {       // not the fault we planted: die of it
        signal(SIGSEGV, SIG_DFL);
        return;
    }
    g_f_state = 1;
    rtosc_arg_t a[1];
    a[0].s = "nested";
    uint64_t sum = 0;
    switch(g_f_nested) {
        case 'l': rte::tl_write_literal(g_f_link, "/nested", 1, a + 0); break;      // sig 1 = "i"
        case 'a': rte::tl_write_array(g_f_link, "/nested", "s", a); break;
        case 'w': rte::tl_raw_write(g_f_link, "/nested\0,\0\0"); break;
        case 'h': (void) rte::tl_has_next(g_f_link, 0); break;
        default:  if(rte::tl_has_next(g_f_link, 0)) (void) rte::tl_read(g_f_link, 0, &sum); break;
    }
    g_f_state = 2;
    mprotect(g_page, 4096, PROT_READ | PROT_WRITE);
}
static void on_watchdog(int) { siglongjmp(g_f_jmp, 1); }

// returns 0 = the outer operation did not fault (nothing tested), 1 = both operations completed, 2 = blocked
static int __attribute__((noinline)) interrupted_op(rtosc::ThreadLink *tl, char outer, char nested)
{
    if(!g_page) {
        g_page = (char *) mmap(NULL, 4096, PROT_READ | PROT_WRITE, MAP_PRIVATE | MAP_ANONYMOUS, -1, 0);
        if(g_page == (char *) MAP_FAILED) { g_page = NULL; return 0; }
    }
    mprotect(g_page, 4096, PROT_READ | PROT_WRITE);
    memset(g_page, 0, 4096);
    memcpy(g_page, PAGE_MSG, sizeof(PAGE_MSG));
    g_f_link = tl;
    g_f_nested = nested;
    g_f_state = 0;
    struct sigaction sa, old_segv, old_alrm, old_vtalrm;
    memset(&sa, 0, sizeof(sa));
    sa.sa_handler = on_fault;
    sa.sa_flags = SA_NODEFER;
    sigaction(SIGSEGV, &sa, &old_segv);
    sa.sa_handler = on_watchdog;
    sigaction(SIGALRM, &sa, &old_alrm);
    sigaction(SIGVTALRM, &sa, &old_vtalrm);
    // two watchdogs: 200 ms of CPU time of this process (a spinning wait; not fooled by a loaded machine that does not
    // schedule the process for a while) and 3 s of wall-clock time (a sleeping wait, e.g. a mutex)
    struct itimerval on = {{0, 0}, {0, 200000}}, on_real = {{0, 0}, {3, 0}}, off = {{0, 0}, {0, 0}};
    volatile int result = 0;
    if(sigsetjmp(g_f_jmp, 1) == 0) {
        mprotect(g_page, 4096, PROT_NONE);
        setitimer(ITIMER_VIRTUAL, &on, NULL);
        setitimer(ITIMER_REAL, &on_real, NULL);
        rtosc_arg_t a[1];
        a[0].s = g_page;
        switch(outer) {
            case 'l': rte::tl_write_literal(tl, "/outer", 3, a); break;       // sig 3 = "s"
            case 'a': rte::tl_write_array(tl, "/outer", "s", a); break;
            default:  rte::tl_raw_write(tl, g_page); break;
        }
        setitimer(ITIMER_VIRTUAL, &off, NULL);
        setitimer(ITIMER_REAL, &off, NULL);
        result = g_f_state == 2 ? 1 : 0;
    } else {
        setitimer(ITIMER_VIRTUAL, &off, NULL);
        setitimer(ITIMER_REAL, &off, NULL);
        result = 2;
        ++g_f_blocked_seen;
    }
    mprotect(g_page, 4096, PROT_READ | PROT_WRITE);
    g_f_link = NULL;
    sigaction(SIGSEGV, &old_segv, NULL);
    sigaction(SIGALRM, &old_alrm, NULL);
    sigaction(SIGVTALRM, &old_vtalrm, NULL);
    return result;
}

static std::string op_tlink(const std::vector<std::string> &w)
{
    if(w.size() < 4) return "bad-op";
    // an operation that blocked was abandoned while it (or the operation it waited for) held whatever it waits on; if that
    // is a process-wide lock every later ThreadLink operation of this process would hang: they are not run any more
    if(g_f_blocked_seen) return "skip a previous ThreadLink operation of this process blocked (reported there as blocked=1)";
    size_t maxmsg = strtoul(w[1].c_str(), NULL, 10), nmsgs = strtoul(w[2].c_str(), NULL, 10);
    if(maxmsg < 16 || maxmsg > 65536 || nmsgs < 1 || nmsgs > 64) return "bad-op";
    std::deque<TlOp> ops;
    std::string cur;
    for(char c : w[3] + ";") {
        if(c != ';') { cur.push_back(c); continue; }
        if(cur.empty()) continue;
        // fields = kind, addr, types-or-sig, args (the rest; argument items contain ':' themselves)
        std::vector<std::string> f;
        {
            size_t pos = 0;
            while(f.size() < 3) {
                size_t q = cur.find(':', pos);
                if(q == std::string::npos) break;
                f.push_back(cur.substr(pos, q - pos));
                pos = q + 1;
            }
            f.push_back(cur.substr(pos));
        }
        cur.clear();
        ops.emplace_back();
        TlOp &o = ops.back();
        o.kind = f[0][0];
        o.k = f[0].size() > 1 ? atoi(f[0].c_str() + 1) : 0;
        if(o.kind == 'a' || o.kind == 'l') {
            if(f.size() < 4 || !unhex(f[1], o.addr)) return "bad-op";
            o.addr.push_back(0);
            std::string types = f[2];
            if(o.kind == 'l') {
                int sig = atoi(f[2].c_str());
                if(sig < 0 || sig >= rte::N_LIT_SIGS) return "bad-op";
                o.k = sig;
                types = rte::LIT_SIGS[sig];
                if(types.empty()) types = "-";
            }
            if(!parse_args(types, f[3], o.A)) return "bad-op";
        } else if(o.kind == 'w') {
            if(f.size() < 2 || !unhex(f[1], o.raw) || o.raw.size() < 4) return "bad-op";
            // raw_write does not honour MaxMsg on the unchanged tree (defect F6 of C06): stay inside
            if(o.raw.size() > maxmsg) return "bad-op";
            for(int i = 0; i < 8; ++i) o.raw.push_back(0);
        } else if(o.kind == 'f') {
            if(f[0].size() != 3 || !strchr("law", f[0][1]) || !strchr("lawhr", f[0][2])) return "bad-op";
            o.outer = f[0][1];
            o.nested = f[0][2];
        } else if(!strchr("hrRp", o.kind)) return "bad-op";
    }
    rtosc::ThreadLink *tl = new rtosc::ThreadLink(maxmsg, nmsgs);
    unsigned writes = 0, reads = 0, has = 0, empty = 0, nested = 0;
    volatile int blocked = 0;
    uint64_t sum = 7;
    size_t total = 0;
    rt_section([&] {
    for(TlOp &o : ops) {
        switch(o.kind) {
            case 'a': rte::tl_write_array(tl, (const char *) o.addr.data(), o.A.types.c_str(), o.A.a.data()); ++writes; break;
            case 'l': rte::tl_write_literal(tl, (const char *) o.addr.data(), o.k, o.A.a.data()); ++writes; break;
            case 'w': rte::tl_raw_write(tl, (const char *) o.raw.data()); ++writes; break;
            case 'h': has += rte::tl_has_next(tl, o.k & 3) ? 1 : 0; break;
            case 'r':
                if(rte::tl_has_next(tl, (o.k & 1) ? 1 : 0)) { total += rte::tl_read(tl, o.k & 3, &sum); ++reads; }
                else ++empty;
                break;
            case 'R':   // read without asking hasNext first (an empty ring yields a zero-length read)
                total += rte::tl_read(tl, o.k & 3, &sum); ++reads;
                break;
            case 'p': total += rte::tl_peak(tl) ? 1 : 0; break;
            case 'f': {
                int r = interrupted_op(tl, o.outer, o.nested);
                ++writes;
                if(r == 1) ++nested;
                if(r == 2) blocked = 1;
                break;
            }
        }
        if(blocked) break;      // the link is unusable now (its lock is held by the abandoned operation)
    }
    });
    if(!blocked) delete tl;
    std::ostringstream o;
    o << hits_str();
    if(blocked) o << " blocked=1";
    o << " nested=" << nested << " w=" << writes << " r=" << reads << " has=" << has << " empty=" << empty << " bytes=" << total << " sum=" << hx64(sum);
    return o.str();
}

static std::string op_meta(const std::vector<std::string> &w)
{
    if(w.size() < 5) return "bad-op";
    const rtosc::Ports *p = w[1] == "leaf" ? &rtt::Leaf::ports : w[1] == "mid" ? &rtt::Mid::ports : &rtt::Root::ports;
    bytes name, key, value;
    if(!unhex(w[2], name) || !unhex(w[3], key) || !unhex(w[4], value)) return "bad-op";
    name.push_back(0); key.push_back(0); value.push_back(0);
    const rtosc::Port *port = (*p)[(const char *) name.data()];
    if(!port) return "no-port";
    int r;
    rt_section([&] {
    r = rte::meta_queries(port, (const char *) key.data(), (const char *) value.data());
    });
    std::ostringstream o;
    o << hits_str() << " r=" << r;
    return o.str();
}

static std::string step(const std::string &line)
{
    std::vector<std::string> w = words(line);
    if(w.empty()) return "bad-op";
    if(w[0] == "build") return op_build(w);
    if(w[0] == "msg") return op_msg(w);
    if(w[0] == "bundle") return op_bundle(w);
    if(w[0] == "match") return op_match(w);
    if(w[0] == "disp") return op_disp(w);
    if(w[0] == "reply") return op_reply(w);
    if(w[0] == "tlink") return op_tlink(w);
    if(w[0] == "meta") return op_meta(w);
    if(w[0] == "selftest") {
        // the interposition itself: these MUST be counted
        size_t len = 0;
        rt_section([&] {
            void *volatile p = malloc(10);
            free(p);
            char *volatile q = new char[5];
            delete[] q;
            pthread_mutex_t mx = PTHREAD_MUTEX_INITIALIZER;
            pthread_mutex_lock(&mx);
            pthread_mutex_unlock(&mx);
            std::string s(100, 'x');
            len = s.size() + (p ? 0 : 1);
        });
        std::string r = hits_str() + " len=" + std::to_string(len);
        // ... and an exception leaving the section must be noticed
        rt_section([&] { throw 1; });
        r += std::string(" catches=") + (g_threw ? "1" : "0");
        // the precondition of the call-graph model on the tables built with the library's own macros
        r += " ports_checked=" + std::to_string(g_ports_checked) + empty_cb_str();
        return r;
    }
    return "bad-op";
}

int main(int argc, char **argv)
{
    resolve_real();
    init_objects();
    scan_callbacks(&rtt::Root::ports, "", 0);
    return run_lines(argc, argv, step);
}
