// Engine `param` (C14): the real sugar macros of include/rtosc/port-sugar.h,
// instantiated for one object with fields of every kind and several declared ranges.
//
//   exe --table          one line per port:
//                        <id> <kind> <storage> <len> <pattern-hex> <meta-hex> <init-state>
//   exe <ops-file>       op line:  <R|N> <id> <kind> <storage> <len> <pattern-hex> <meta-hex> <init-state> <msg>...
//                        (the harness uses <R|N>, <id> and the messages, and checks the
//                        description tokens against its own table; the driver uses the description)
//     msg tokens:  [<digits>@]<arg>[+<arg>...]   arg = q | i<dec> | c<dec> | f<hex8> | T | F | s<hex> | S<hex>
//     (q = no argument; <digits>@ = array index text appended to the port name)
//   output: one token per message `<matches>;<events>;<state>` and a final `X=ok|X=changed`
//     events: `-` or `,`-joined `R|B:<addr-hex>:<tags>[:<value>]*`  (R = reply, B = broadcast)
//     state : `,`-joined element values of the port's own field (ints decimal, floats hex8,
//             bools 0/1, strings = hex of the whole buffer)
//     X     : whether any byte of the object outside the port's own field differs from a
//             freshly constructed object (guards included)
#include "common.h"
#include <rtosc/rtosc.h>
#include <rtosc/ports.h>
#include <rtosc/port-sugar.h>
#include <cctype>
#include <cstddef>
#include <new>
using namespace vh;

enum Colour : int { RED, BLUE, GREEN, TEAL };

struct Obj {
    // rParam family (rParamCb)
    char pc;
    unsigned char puc;
    int g0;
    char pcn;
    char pcu;
    short pcs;
    // rParamF
    float pf0, pf1, pf2, pf3, pf4, pf5;
    int g1;
    // rParamI
    int pi0, pi1, pi2, pi3, pi4, pi5, pi6, pi7;
    short ps;
    int g2;
    // rOption
    int po0;
    Colour po1;
    int po2;
    unsigned char po3;
    int po4;
    // rToggle
    bool pt;
    int g3;
    // rString
    char str8[8];
    int g4;
    char str1[1];
    int g5;
    char str16[16];
    int g6;
    char strf[6];
    int g6b;
    // arrays
    float af[4];
    int g7;
    float afs[1];
    int g8;
    float afl[12];
    int g9;
    bool at[5];
    int g10;
    bool ats[1];
    int g11;
    int ai[4];
    int g12;
    char aic[3];
    int g13;
    int ail[16];
    int g14;
    int ao[3];
    int g15;
    Colour aoe[2];
    int g16;
    float a2x[3];
    int g17;
    int v9[3];
    int g18;

    Obj()
    {
        pc = 5; puc = 100; pcn = -3; pcu = -77; pcs = 300;
        pf0 = 0.5f; pf1 = -1000.25f; pf2 = 1.0f; pf3 = -1.0f; pf4 = 440.0f; pf5 = 0.0f;
        pi0 = 1; pi1 = 123456789; pi2 = 0; pi3 = -7; pi4 = 500000; pi5 = 3; pi6 = 5; pi7 = -5; ps = -300;
        po0 = 1; po1 = GREEN; po2 = 5; po3 = 2; po4 = 0;
        pt = false;
        memset(str8, 0, sizeof(str8)); strcpy(str8, "abc");
        str1[0] = 0;
        memset(str16, 0, sizeof(str16)); strcpy(str16, "hello world");
        memcpy(strf, "full!!", 6);      // no terminator: only rStringCb's own one ends the string
        af[0] = 0.f; af[1] = 1.f; af[2] = -1.5f; af[3] = 2.25f;
        afs[0] = 3.5f;
        for(int i = 0; i < 12; ++i) afl[i] = 0.25f * i;
        at[0] = false; at[1] = true; at[2] = false; at[3] = true; at[4] = true;
        ats[0] = true;
        ai[0] = 100; ai[1] = -3; ai[2] = 0; ai[3] = 7;
        aic[0] = -128; aic[1] = 127; aic[2] = 1;
        for(int i = 0; i < 16; ++i) ail[i] = i * 8;
        ao[0] = 0; ao[1] = 3; ao[2] = 1;
        aoe[0] = TEAL; aoe[1] = RED;
        a2x[0] = 1.f; a2x[1] = 2.f; a2x[2] = 3.f;
        v9[0] = 9; v9[1] = 8; v9[2] = 7;
        g0 = g1 = g2 = g3 = g4 = g5 = g6 = g6b = g7 = g8 = g9 = g10 = g11 = g12 = g13 = g14 = g15 = g16 = g17 = g18 = 0x5a5a5a5a;
    }
    static const rtosc::Ports ports;
};

#define rObject Obj
const rtosc::Ports Obj::ports = {
    // rParam: the macro itself fixes min 0 / max 127
    rParam(pc, "char parameter"),
    rParam(puc, "unsigned char parameter"),
    // the same callback macro with other declared ranges
    {"pcn::c", rProp(parameter) rMap(min, -10) rMap(max, 10) rDoc("negative lower bound"), NULL, rParamCb(pcn)},
    {"pcu::c", rProp(parameter) rDoc("no bounds"), NULL, rParamCb(pcu)},
    {"pcs::c", rProp(parameter) rMap(min, -1000) rDoc("short storage, lower bound only"), NULL, rParamCb(pcs)},
    rParamF(pf0, rLinear(-1.5, 2.25), "fractional bounds"),
    rParamF(pf1, "no bounds"),
    rParamF(pf2, rMap(min, 0.1), "lower bound only, not representable in binary"),
    rParamF(pf3, rMap(max, -0.3), "upper bound only"),
    rParamF(pf4, rLog(0.001, 20000), "log scale"),
    rParamF(pf5, rLinear(-1, 10), "integral bounds"),
    rParamI(pi0, rLinear(-5, 5), "negative lower bound"),
    rParamI(pi1, "no bounds"),
    rParamI(pi2, rMap(min, -100), "lower bound only"),
    rParamI(pi3, rMap(max, -1), "upper bound only"),
    rParamI(pi4, rLinear(0, 1000000), "large range"),
    rParamI(pi5, rLinear(-2.5, 7.9), "fractional bounds on an integer port"),
    rParamI(pi6, rLinear(2.5, 7.9), "positive non-integral minimum"),
    rParamI(pi7, rLinear(-7.9, -2.5), "negative non-integral maximum"),
    rParamI(ps, rLinear(-1000, 1000), "short storage"),
    rOption(po0, rOptions(red, blue, green, teal), "no bounds"),
    rOption(po1, rOptions(red, blue, green, teal), rLinear(0, 3), "enum storage, bounds"),
    rOption(po2, rOpt(-1, low) rOpt(2, mid) rOpt(5, high), rLinear(-1, 5), "sparse map, negative index"),
    rOption(po3, rOptions(a, b, c, d, e), rLinear(0, 4), "unsigned char storage"),
    rOption(po4, rOptionsBound(sine, saw, square), "rOptionsBound"),
    rToggle(pt, "toggle"),
    rString(str8, 8, "string"),
    rString(str1, 1, "string of capacity 1"),
    rString(str16, 16, "string"),
    rString(strf, 6, "field without terminator before the first set"),
    rArrayF(af, 4, rLinear(-1.5, 2.25), "float array"),
    rArrayF(afs, 1, "float array of length 1, no bounds"),
    rArrayF(afl, 12, rMap(min, 0.1), "two-digit indices"),
    rArrayT(at, 5, "toggle array"),
    rArrayT(ats, 1, "toggle array of length 1"),
    rArrayI(ai, 4, rLinear(-20, 100), "int storage"),
    rArrayI(aic, 3, "char storage, no bounds"),
    rArrayI(ail, 16, rLinear(0, 127), "two-digit indices"),
    rArrayOption(ao, 3, rOptions(red, blue, green, teal), rLinear(0, 3), "option array"),
    rArrayOption(aoe, 2, rOptions(red, blue, green, teal), "enum option array, no bounds"),
    rArrayF(a2x, 3, rLinear(0, 10), "digit inside the name"),
    rArrayI(v9, 3, rLinear(0, 100), "digit at the end of the name"),
};
#undef rObject

struct Top {
    Obj sub;
    static const rtosc::Ports ports;
};
#define rObject Top
const rtosc::Ports Top::ports = {
    rRecur(sub, "the object"),
};
#undef rObject

// ---------------------------------------------------------------------------------
struct Desc {
    const char *id;
    char kind;            // P F I O T S  f t i o
    const char *storage;  // i8 u8 i16 i32 f32 b s
    size_t off, elem, len;
};
#define D(name, kind, st) {#name, kind, st, offsetof(Obj, name), sizeof(((Obj *)0)->name), 1}
#define DA(name, kind, st) {#name, kind, st, offsetof(Obj, name), sizeof(((Obj *)0)->name[0]), sizeof(((Obj *)0)->name) / sizeof(((Obj *)0)->name[0])}
static const Desc descs[] = {
    D(pc, 'P', "i8"), D(puc, 'P', "u8"), D(pcn, 'P', "i8"), D(pcu, 'P', "i8"), D(pcs, 'P', "i16"),
    D(pf0, 'F', "f32"), D(pf1, 'F', "f32"), D(pf2, 'F', "f32"), D(pf3, 'F', "f32"), D(pf4, 'F', "f32"), D(pf5, 'F', "f32"),
    D(pi0, 'I', "i32"), D(pi1, 'I', "i32"), D(pi2, 'I', "i32"), D(pi3, 'I', "i32"), D(pi4, 'I', "i32"), D(pi5, 'I', "i32"), D(pi6, 'I', "i32"), D(pi7, 'I', "i32"),
    D(ps, 'I', "i16"),
    D(po0, 'O', "i32"), D(po1, 'O', "i32"), D(po2, 'O', "i32"), D(po3, 'O', "u8"), D(po4, 'O', "i32"),
    D(pt, 'T', "b"),
    DA(str8, 'S', "s"), DA(str1, 'S', "s"), DA(str16, 'S', "s"), DA(strf, 'S', "s"),
    DA(af, 'f', "f32"), DA(afs, 'f', "f32"), DA(afl, 'f', "f32"),
    DA(at, 't', "b"), DA(ats, 't', "b"),
    DA(ai, 'i', "i32"), DA(aic, 'i', "i8"), DA(ail, 'i', "i32"),
    DA(ao, 'o', "i32"), DA(aoe, 'o', "i32"),
    DA(a2x, 'f', "f32"), DA(v9, 'i', "i32"),
};
static const size_t ndescs = sizeof(descs) / sizeof(descs[0]);

static const Desc *find_desc(const std::string &id)
{
    for(size_t i = 0; i < ndescs; ++i)
        if(id == descs[i].id) return &descs[i];
    return NULL;
}

static const rtosc::Port *find_port(const Desc &d)
{
    size_t n = strlen(d.id);
    for(const rtosc::Port &p : Obj::ports)
        if(!strncmp(p.name, d.id, n) && (p.name[n] == ':' || p.name[n] == '#'))
            return &p;
    return NULL;
}

static size_t meta_len(const char *m)
{
    if(!m || !*m) return m ? 1 : 0;
    size_t i = 1;
    while(!(m[i] == 0 && m[i - 1] == 0)) ++i;
    return i + 1;
}

static std::string hex32(uint32_t v)
{
    char b[16];
    snprintf(b, sizeof b, "%08x", v);
    return b;
}

static std::string state_of(const Desc &d, const Obj &o)
{
    const unsigned char *base = (const unsigned char *)&o + d.off;
    if(d.kind == 'S') return hex(base, d.len);
    std::string s;
    for(size_t i = 0; i < d.len; ++i) {
        const unsigned char *p = base + i * d.elem;
        if(i) s += ",";
        std::string st = d.storage;
        if(st == "f32") { uint32_t v; memcpy(&v, p, 4); s += hex32(v); }
        else if(st == "b") s += (*(const bool *)p) ? "1" : "0";
        else if(st == "i8") s += std::to_string((int)*(const signed char *)p);
        else if(st == "u8") s += std::to_string((int)*p);
        else if(st == "i16") { short v; memcpy(&v, p, 2); s += std::to_string((int)v); }
        else { int v; memcpy(&v, p, 4); s += std::to_string(v); }
    }
    return s;
}

struct Log : rtosc::RtData {
    std::string ev;
    void add(char what, const char *msg)
    {
        if(!ev.empty()) ev += ",";
        ev += what;
        ev += ":" + hexs(msg) + ":";
        const char *tags = rtosc_argument_string(msg);
        ev += *tags ? tags : "-";
        unsigned n = rtosc_narguments(msg);
        for(unsigned i = 0; i < n; ++i) {
            char t = rtosc_type(msg, i);
            rtosc_arg_t a = rtosc_argument(msg, i);
            switch(t) {
            case 'i': case 'c': ev += ":" + std::to_string(a.i); break;
            case 'f': { uint32_t v; memcpy(&v, &a.f, 4); ev += ":" + hex32(v); break; }
            case 's': case 'S': ev += ":" + hexs(a.s); break;
            case 'T': case 'F': break;
            default: ev += ":?"; break;
            }
        }
    }
    void reply(const char *msg) override { add('R', msg); }
    void broadcast(const char *msg) override { add('B', msg); }
    using rtosc::RtData::reply;
    using rtosc::RtData::broadcast;
};

static std::string describe(const Desc &d, const Obj &o)
{
    const rtosc::Port *p = find_port(d);
    std::ostringstream os;
    os << d.id << " " << d.kind << " " << d.storage << " " << d.len << " ";
    if(!p) { os << "? ? ?"; return os.str(); }
    os << hexs(p->name) << " " << hex((const unsigned char *)p->metadata, meta_len(p->metadata)) << " " << state_of(d, o);
    return os.str();
}

// builds one message; returns false on a malformed token
static bool build(const std::string &tok, const std::string &prefix, const std::string &id,
                  std::vector<char> &buf, std::vector<bytes> &keep)
{
    std::string idx, rest = tok;
    size_t at = tok.find('@');
    if(at != std::string::npos) { idx = tok.substr(0, at); rest = tok.substr(at + 1); }
    std::string path = prefix + id + idx;
    std::string tags;
    std::vector<rtosc_arg_t> args;
    keep.clear();
    keep.reserve(8);
    size_t pos = 0;
    while(pos <= rest.size()) {
        size_t e = rest.find('+', pos);
        if(e == std::string::npos) e = rest.size();
        std::string a = rest.substr(pos, e - pos);
        pos = e + 1;
        if(a.empty()) return false;
        rtosc_arg_t v;
        memset(&v, 0, sizeof v);
        switch(a[0]) {
        case 'q': if(a.size() != 1 || rest != "q") return false; break;
        case 'i': case 'c': v.i = (int32_t)strtol(a.c_str() + 1, NULL, 10); tags += a[0]; args.push_back(v); break;
        case 'f': { uint32_t b = (uint32_t)strtoul(a.c_str() + 1, NULL, 16); memcpy(&v.f, &b, 4); tags += 'f'; args.push_back(v); break; }
        case 'T': case 'F': if(a.size() != 1) return false; tags += a[0]; args.push_back(v); break;
        case 's': case 'S': {
            bytes b;
            if(!unhex(a.substr(1), b)) return false;
            b.push_back(0);
            if(keep.size() == 8) return false;
            keep.push_back(b);
            v.s = (const char *)keep.back().data();
            tags += a[0];
            args.push_back(v);
            break;
        }
        default: return false;
        }
    }
    size_t need = rtosc_amessage(NULL, 0, path.c_str(), tags.c_str(), args.data());
    buf.assign(need, 0);
    return rtosc_amessage(buf.data(), need, path.c_str(), tags.c_str(), args.data()) == need;
}

static std::string step(const std::string &line)
{
    auto w = words(line);
    if(w.size() < 8 || (w[0] != "R" && w[0] != "N")) return "bad-op";
    const Desc *d = find_desc(w[1]);
    if(!d) return "bad-op";

    // the object lives in an exact-size heap block, next to a reference copy
    void *mem = calloc(1, sizeof(Top)), *refmem = calloc(1, sizeof(Top));
    Top *top = new(mem) Top;
    Top *ref = new(refmem) Top;

    // the description tokens on the op line must be this tree's table
    {
        std::string mine = describe(*d, top->sub), theirs = w[1];
        for(int i = 2; i < 8; ++i) theirs += " " + w[i];
        if(mine != theirs) { free(mem); free(refmem); return "table-mismatch " + mine; }
    }

    bool nested = w[0] == "N";
    std::string out;
    char loc[256];
    for(size_t k = 8; k < w.size(); ++k) {
        std::vector<char> buf;
        std::vector<bytes> keep;
        if(!build(w[k], nested ? "/sub/" : "/", d->id, buf, keep)) { out += "bad-msg "; continue; }
        // message in an exact-size heap block
        bytes mb(buf.begin(), buf.end());
        Exact m(mb);
        Log log;
        memset(loc, 0, sizeof loc);
        log.loc = loc;
        log.loc_size = sizeof loc;
        log.obj = nested ? (void *)top : (void *)&top->sub;
        (nested ? Top::ports : Obj::ports).dispatch(m.c(), log, true);
        out += std::to_string(log.matches) + ";" + (log.ev.empty() ? std::string("-") : log.ev) + ";" + state_of(*d, top->sub) + " ";
    }
    // everything outside the port's own field must be untouched
    bool same = true;
    const unsigned char *a = (const unsigned char *)&top->sub, *b = (const unsigned char *)&ref->sub;
    size_t lo = d->off, hi = d->off + d->elem * d->len;
    for(size_t i = 0; i < sizeof(Obj); ++i)
        if((i < lo || i >= hi) && a[i] != b[i]) same = false;
    out += same ? "X=ok" : "X=changed";
    top->~Top();
    ref->~Top();
    free(mem);
    free(refmem);
    return out;
}

int main(int argc, char **argv)
{
    if(argc >= 2 && !strcmp(argv[1], "--table")) {
        Obj o;
        for(size_t i = 0; i < ndescs; ++i) puts(describe(descs[i], o).c_str());
        return 0;
    }
    return run_lines(argc, argv, step);
}
