// Engine `param` (C14): the real sugar macros of include/rtosc/port-sugar.h,
// instantiated for one object with fields of every kind and several declared ranges.
//
//   exe --table          one line per port:
//                        <id> <kind> <storage> <len> <pattern-hex> <meta-hex> <init-state>
//   exe <ops-file>       op line:  <prefix-hex> <id> <kind> <storage> <len> <pattern-hex> <meta-hex> <init-state> <msg>...
//                        <prefix-hex> = address of the object the port belongs to: `/` (the port table is
//                        dispatched directly), `/sub/`, `/flat/` or `/<200 letters>/` (through Top::ports and rRecur),
//                        `/voice<k>/`, `/bank<k>/`, `/fl<k>/` (element k of an enumerated sub-tree: through Rack::ports and
//                        rRecurs) or the same below `/rack` (through Top::ports, rRecur, then rRecurs)
//                        (the harness uses the prefix, <id> and the messages, and checks the
//                        description tokens against its own table; the driver uses the description)
//     msg tokens:  [<digits>@]<arg>[+<arg>...]   arg = q | i<dec> | c<dec> | f<hex8> | T | F | s<hex> | S<hex>
//     (q = no argument; <digits>@ = array index text appended to the port name)
//   output: one token per message `<matches>;<events>;<state>` and a final `X=ok|X=changed`
//     events: `-` or `,`-joined `R|B:<addr-hex>:<tags>[:<value>]*`  (R = reply, B = broadcast), as a
//             sorted multiset (the property fixes no order); integer tags are printed as `i`
//             (`c` and `i` carry the same value); broadcasts at the port's own address are
//             left out when the message did not change the stored value (the property speaks
//             about changes only); `R:-:-` / `B:-:-` = an empty message (RtData::reply/broadcast could not format
//             the message into its buffer)
//     state : `,`-joined element values of the port's own field (ints decimal, floats hex8,
//             bools 0/1, strings = hex of the C string in the buffer, `!<hex of the buffer>`
//             when the buffer holds no terminator)
//     X     : whether any byte of the whole object tree outside the port's own elements differs
//             from a freshly constructed one (guards included)
#include "common.h"
#include <rtosc/rtosc.h>
#include <rtosc/ports.h>
#include <rtosc/port-sugar.h>
#include <cctype>
#include <cstddef>
#include <algorithm>
#include <new>
using namespace vh;

enum Colour : int { RED, BLUE, GREEN, TEAL };

struct Voice {
    int note;
    bool enabled;
    char tag;
    float gain;
};

#define HUGECAP 8300
#define LONGNAME abcdefghijabcdefghijabcdefghijabcdefghijabcdefghijabcdefghijabcdefghijabcdefghijabcdefghijabcdefghijabcdefghijabcdefghijabcdefghijabcdefghijabcdefghijabcdefghijabcdefghijabcdefghijabcdefghijabcdefghij

struct Obj {
    // rParam family (rParamCb)
    char pc;
    unsigned char puc;
    int g0;
    char pcn;
    char pcu;
    short pcs;
    // rParamF
    float pf0, pf1, pf2, pf3, pf4, pf5;
    int g1;
    // rParamI
    int pi0, pi1, pi2, pi3, pi4, pi5, pi6, pi7;
    short ps;
    int g2;
    // rOption
    int po0;
    Colour po1;
    int po2;
    unsigned char po3;
    int po4;
    int po5;
    // rToggle
    bool pt;
    int g3;
    // rString
    char str8[8];
    int g4;
    char str1[1];
    int g5;
    char str16[16];
    int g6;
    char strf[6];
    int g6b;
    // arrays
    float af[4];
    int g7;
    float afs[1];
    int g8;
    float afl[12];
    int g9;
    bool at[5];
    int g10;
    bool ats[1];
    int g11;
    int ai[4];
    int g12;
    char aic[3];
    int g13;
    int ail[16];
    int g14;
    int ao[3];
    int g15;
    Colour aoe[2];
    int g16;
    float a2x[3];
    int g17;
    int v9[3];
    int g18;
    // rOptions() of every arity
    int on1, on2, on3, on4, on5, on6, on7, on8, on9, on10, on11, on12, on13, on14, on15, on16, on17, on18, on19, on20,
        on21, on22, on23, on24;
    int g19;
    // rCOptionCb with its own get/set code, rArrayTCbMember
    short ocs;
    Voice voices[4];
    int g20;
    // arrays with more than 256 elements
    int abig[300];
    int g21;
    bool tbig[260];
    int g22;
    float fbig[257];
    int g23;
    // long string
    char strbig[600];
    int g24;
    // declared bounds outside the type of the callback's variable
    int aib[4];
    char aicb[3];
    short psb;
    unsigned char pucn;
    char pcb;
    int g25;
    // fields of the wide integer types (Param/Wide.lean: unsigned short, unsigned, long, unsigned long)
    unsigned short pus, pusb;
    unsigned pun, punr;
    long pl, pln;
    unsigned long pul;
    int g30;
    // metadata with entries of other shapes in front of the range
    float pfs, pfd;
    int pis, pos;
    float afsp[3];
    int ais[2];
    int g26;
    // one port per arity of the DOC() expansion table (d<k>, e<k>: k macro arguments incl. the doc string)
    int d1;
    float d2;
    int d3x[2];
    float d4x[3];
    int d5;
    float d6;
    int d7x[3];
    float d8x[4];
    int d9;
    float d10;
    int d11x[4];
    float d12x[2];
    int d13;
    float d14;
    int d15x[2];
    float d16x[3];
    int d17;
    float d18;
    int d19x[3];
    float d20x[4];
    int d21;
    float d22;
    int d23x[4];
    float d24x[2];
    int e2;
    int e3x[2];
    int e4;
    int e5x[4];
    int e6;
    int e7x[3];
    int e8;
    int e9x[2];
    int e10;
    int e11x[4];
    int e12;
    int e13x[3];
    int e14;
    int e15x[2];
    int e16;
    int e17x[4];
    int e18;
    int e19x[3];
    int e20;
    int e21x[2];
    int e22;
    int e23x[4];
    int e24;
    int g27;
    // rLogWithLogmin, rParams (rArray + alias port), rArray
    float pfl;
    int prm[5];
    int arr[4];
    int g28;
    // a string whose reply / broadcast is larger than the formatting buffer of RtData::reply/broadcast
    char strhuge[HUGECAP];
    int g29;

    Obj()
    {
        pc = 5; puc = 100; pcn = -3; pcu = -77; pcs = 300;
        pf0 = 0.5f; pf1 = -1000.25f; pf2 = 1.0f; pf3 = -1.0f; pf4 = 440.0f; pf5 = 0.0f;
        pi0 = 1; pi1 = 123456789; pi2 = 0; pi3 = -7; pi4 = 500000; pi5 = 3; pi6 = 5; pi7 = -5; ps = -300;
        po0 = 1; po1 = GREEN; po2 = 5; po3 = 2; po4 = 0; po5 = 0;
        pt = false;
        memset(str8, 0, sizeof(str8)); strcpy(str8, "abc");
        str1[0] = 0;
        memset(str16, 0, sizeof(str16)); strcpy(str16, "hello world");
        memcpy(strf, "full!!", 6);      // no terminator: only rStringCb's own one ends the string
        af[0] = 0.f; af[1] = 1.f; af[2] = -1.5f; af[3] = 2.25f;
        afs[0] = 3.5f;
        for(int i = 0; i < 12; ++i) afl[i] = 0.25f * i;
        at[0] = false; at[1] = true; at[2] = false; at[3] = true; at[4] = true;
        ats[0] = true;
        ai[0] = 100; ai[1] = -3; ai[2] = 0; ai[3] = 7;
        aic[0] = -128; aic[1] = 127; aic[2] = 1;
        for(int i = 0; i < 16; ++i) ail[i] = i * 8;
        ao[0] = 0; ao[1] = 3; ao[2] = 1;
        aoe[0] = TEAL; aoe[1] = RED;
        a2x[0] = 1.f; a2x[1] = 2.f; a2x[2] = 3.f;
        v9[0] = 9; v9[1] = 8; v9[2] = 7;
        on1 = on2 = on3 = on4 = on5 = on6 = on7 = on8 = on9 = on10 = on11 = on12 = 0;
        on13 = on14 = on15 = on16 = on17 = on18 = on19 = on20 = on21 = on22 = on23 = on24 = 0;
        ocs = 1;
        for(int i = 0; i < 4; ++i) { voices[i].note = 60 + i; voices[i].enabled = i & 1; voices[i].tag = 'a' + i; voices[i].gain = 0.5f * i; }
        for(int i = 0; i < 300; ++i) abig[i] = i % 101;
        for(int i = 0; i < 260; ++i) tbig[i] = (i % 3) == 0;
        for(int i = 0; i < 257; ++i) fbig[i] = 0.125f * (i % 16);
        memset(strbig, 0, sizeof(strbig)); strcpy(strbig, "long");
        aib[0] = 0; aib[1] = 150; aib[2] = 100; aib[3] = -7;
        aicb[0] = 0; aicb[1] = -100; aicb[2] = 127;
        psb = 12345; pucn = 200; pcb = -100;
        pus = 50000; pusb = 7; pun = 3000000000u; punr = 100; pl = -5; pln = 123456789012L; pul = 77;
        pfs = 1.0f; pfd = 0.5f; pis = 3; pos = 1;
        afsp[0] = 0.f; afsp[1] = 0.5f; afsp[2] = -1.f;
        ais[0] = 1; ais[1] = 2;
        d1 = 1;
        d2 = 2.5f;
        for(int i = 0; i < 2; ++i) d3x[i] = i + 3;
        for(int i = 0; i < 3; ++i) d4x[i] = 0.5f * i;
        d5 = 0;
        d6 = 0.5f;
        for(int i = 0; i < 3; ++i) d7x[i] = i + 3;
        for(int i = 0; i < 4; ++i) d8x[i] = 0.5f * i;
        d9 = 4;
        d10 = 1.5f;
        for(int i = 0; i < 4; ++i) d11x[i] = i + 3;
        for(int i = 0; i < 2; ++i) d12x[i] = 0.5f * i;
        d13 = 3;
        d14 = 2.5f;
        for(int i = 0; i < 2; ++i) d15x[i] = i + 3;
        for(int i = 0; i < 3; ++i) d16x[i] = 0.5f * i;
        d17 = 2;
        d18 = 0.5f;
        for(int i = 0; i < 3; ++i) d19x[i] = i + 3;
        for(int i = 0; i < 4; ++i) d20x[i] = 0.5f * i;
        d21 = 1;
        d22 = 1.5f;
        for(int i = 0; i < 4; ++i) d23x[i] = i + 3;
        for(int i = 0; i < 2; ++i) d24x[i] = 0.5f * i;
        e2 = 0;
        for(int i = 0; i < 2; ++i) e3x[i] = 0;
        e4 = 0;
        for(int i = 0; i < 4; ++i) e5x[i] = 0;
        e6 = 0;
        for(int i = 0; i < 3; ++i) e7x[i] = 0;
        e8 = 0;
        for(int i = 0; i < 2; ++i) e9x[i] = 0;
        e10 = 0;
        for(int i = 0; i < 4; ++i) e11x[i] = 0;
        e12 = 0;
        for(int i = 0; i < 3; ++i) e13x[i] = 0;
        e14 = 0;
        for(int i = 0; i < 2; ++i) e15x[i] = 0;
        e16 = 0;
        for(int i = 0; i < 4; ++i) e17x[i] = 0;
        e18 = 0;
        for(int i = 0; i < 3; ++i) e19x[i] = 0;
        e20 = 0;
        for(int i = 0; i < 2; ++i) e21x[i] = 0;
        e22 = 0;
        for(int i = 0; i < 4; ++i) e23x[i] = 0;
        e24 = 0;
        pfl = 2.0f;
        for(int i = 0; i < 5; ++i) prm[i] = 10 * i;
        for(int i = 0; i < 4; ++i) arr[i] = 3 - i;
        memset(strhuge, 0, sizeof(strhuge)); strcpy(strhuge, "huge");
        g27 = g28 = g29 = g30 = 0x5a5a5a5a;
        g19 = g20 = g21 = g22 = g23 = g24 = g25 = g26 = 0x5a5a5a5a;
        g0 = g1 = g2 = g3 = g4 = g5 = g6 = g6b = g7 = g8 = g9 = g10 = g11 = g12 = g13 = g14 = g15 = g16 = g17 = g18 = 0x5a5a5a5a;
    }
    static const rtosc::Ports ports;
};

#define V1 v0
#define V2 V1, v1
#define V3 V2, v2
#define V4 V3, v3
#define V5 V4, v4
#define V6 V5, v5
#define V7 V6, v6
#define V8 V7, v7
#define V9 V8, v8
#define V10 V9, v9
#define V11 V10, v10
#define V12 V11, v11
#define V13 V12, v12
#define V14 V13, v13
#define V15 V14, v14
#define V16 V15, v15
#define V17 V16, v16
#define V18 V17, v17
#define V19 V18, v18
#define V20 V19, v19
#define V21 V20, v20
#define V22 V21, v21
#define V23 V22, v22
#define V24 V23, v23

#define rObject Obj
const rtosc::Ports Obj::ports = {
    // rParam: the macro itself fixes min 0 / max 127
    rParam(pc, "char parameter"),
    rParam(puc, "unsigned char parameter"),
    // the same callback macro with other declared ranges
    {"pcn::c", rProp(parameter) rMap(min, -10) rMap(max, 10) rDoc("negative lower bound"), NULL, rParamCb(pcn)},
    {"pcu::c", rProp(parameter) rDoc("no bounds"), NULL, rParamCb(pcu)},
    {"pcs::c", rProp(parameter) rMap(min, -1000) rDoc("short storage, lower bound only"), NULL, rParamCb(pcs)},
    rParamF(pf0, rLinear(-1.5, 2.25), "fractional bounds"),
    rParamF(pf1, "no bounds"),
    rParamF(pf2, rMap(min, 0.1), "lower bound only, not representable in binary"),
    rParamF(pf3, rMap(max, -0.3), "upper bound only"),
    rParamF(pf4, rLog(0.001, 20000), "log scale"),
    rParamF(pf5, rLinear(-1, 10), "integral bounds"),
    rParamI(pi0, rLinear(-5, 5), "negative lower bound"),
    rParamI(pi1, "no bounds"),
    rParamI(pi2, rMap(min, -100), "lower bound only"),
    rParamI(pi3, rMap(max, -1), "upper bound only"),
    rParamI(pi4, rLinear(0, 1000000), "large range"),
    rParamI(pi5, rLinear(-2.5, 7.9), "fractional bounds on an integer port"),
    rParamI(pi6, rLinear(2.5, 7.9), "positive non-integral minimum"),
    rParamI(pi7, rLinear(-7.9, -2.5), "negative non-integral maximum"),
    rParamI(ps, rLinear(-1000, 1000), "short storage"),
    rOption(po0, rOptions(red, blue, green, teal), "no bounds"),
    rOption(po1, rOptions(red, blue, green, teal), rLinear(0, 3), "enum storage, bounds"),
    rOption(po2, rOpt(-1, low) rOpt(2, mid) rOpt(5, high), rLinear(-1, 5), "sparse map, negative index"),
    rOption(po3, rOptions(a, b, c, d, e), rLinear(0, 4), "unsigned char storage"),
    rOption(po4, rOptionsBound(sine, saw, square), "rOptionsBound"),
    rOption(po5, rOptions(sine, sawtooth, saw, square, sq, s), rLinear(0, 5), "symbols that are prefixes of earlier ones"),
    rToggle(pt, "toggle"),
    rString(str8, 8, "string"),
    rString(str1, 1, "string of capacity 1"),
    rString(str16, 16, "string"),
    rString(strf, 6, "field without terminator before the first set"),
    rArrayF(af, 4, rLinear(-1.5, 2.25), "float array"),
    rArrayF(afs, 1, "float array of length 1, no bounds"),
    rArrayF(afl, 12, rMap(min, 0.1), "two-digit indices"),
    rArrayT(at, 5, "toggle array"),
    rArrayT(ats, 1, "toggle array of length 1"),
    rArrayI(ai, 4, rLinear(-20, 100), "int storage"),
    rArrayI(aic, 3, "char storage, no bounds"),
    rArrayI(ail, 16, rLinear(0, 127), "two-digit indices"),
    rArrayOption(ao, 3, rOptions(red, blue, green, teal), rLinear(0, 3), "option array"),
    rArrayOption(aoe, 2, rOptions(red, blue, green, teal), "enum option array, no bounds"),
    rArrayF(a2x, 3, rLinear(0, 10), "digit inside the name"),
    rArrayI(v9, 3, rLinear(0, 100), "digit at the end of the name"),
    // rOptions() with 1..24 symbols (one expansion table entry per arity)
    rOption(on1, rOptions(V1), "arity 1"), rOption(on2, rOptions(V2), "arity 2"), rOption(on3, rOptions(V3), "arity 3"),
    rOption(on4, rOptions(V4), "arity 4"), rOption(on5, rOptions(V5), "arity 5"), rOption(on6, rOptions(V6), "arity 6"),
    rOption(on7, rOptions(V7), "arity 7"), rOption(on8, rOptions(V8), "arity 8"), rOption(on9, rOptions(V9), "arity 9"),
    rOption(on10, rOptions(V10), "arity 10"), rOption(on11, rOptions(V11), "arity 11"), rOption(on12, rOptions(V12), "arity 12"),
    rOption(on13, rOptions(V13), "arity 13"), rOption(on14, rOptions(V14), "arity 14"), rOption(on15, rOptions(V15), "arity 15"),
    rOption(on16, rOptions(V16), "arity 16"), rOption(on17, rOptions(V17), "arity 17"), rOption(on18, rOptions(V18), "arity 18"),
    rOption(on19, rOptions(V19), "arity 19"), rOption(on20, rOptions(V20), "arity 20"), rOption(on21, rOptions(V21), "arity 21"),
    rOption(on22, rOptions(V22), "arity 22"), rOption(on23, rOptions(V23), "arity 23"), rOption(on24, rOptions(V24), "arity 24"),
    // the callback macros that no port macro instantiates
    {"ocs::i:c:S", rProp(parameter) rProp(enumerated) rOptions(x, y, z) rLinear(0, 2) rDoc("rCOptionCb, short storage"), NULL,
     rCOptionCb(obj->ocs, obj->ocs = (short)var)},
    {"vm#4::T:F", rProp(parameter) rDoc("rArrayTCbMember"), NULL, rArrayTCbMember(voices, enabled)},
    // more than 256 elements
    rArrayI(abig, 300, rLinear(0, 100), "three-digit indices"),
    rArrayT(tbig, 260, "toggle array"),
    rArrayF(fbig, 257, rLinear(-4, 4), "float array"),
    rString(strbig, 600, "long string"),
    // declared bounds that the callback's variable (char / short / unsigned char) cannot hold
    rArrayI(aib, 4, rLinear(0, 200), "maximum above 127"),
    rArrayI(aicb, 3, rLinear(-100, 200), "char storage, maximum above 127"),
    rParamI(psb, rLinear(-40000, 40000), "short storage, bounds outside short"),
    {"pucn::c", rProp(parameter) rMap(min, -10) rMap(max, 300) rDoc("unsigned char, negative minimum"), NULL, rParamCb(pucn)},
    {"pcb::c", rProp(parameter) rMap(min, -200) rMap(max, 100) rDoc("char, minimum below -128"), NULL, rParamCb(pcb)},
    // fields of the wide integer types
    rParamI(pus, rLinear(0, 60000), "unsigned short storage"),
    rParamI(pusb, rLinear(3, 70000), "unsigned short storage, maximum above 65535"),
    rParamI(pun, "unsigned storage, no range"),
    rParamI(punr, rLinear(10, 2000000000), "unsigned storage"),
    rParamI(pl, rLinear(-2000000000, 2000000000), "long storage"),
    rParamI(pln, rMap(min, -100), "long storage, lower bound only"),
    rParamI(pul, rLinear(5, 1000000), "unsigned long storage"),
    // other metadata entries in front of the range
    rParamF(pfs, rSpecial(disable), rLinear(0, 2.5), "rSpecial first"),
    rParamF(pfd, rShort("dec"), rMap(unit, Hz), rDefault(0.5), rCentered, rLinear(-2, 2), "decorated"),
    rParamI(pis, rSpecial(random), rMap(max, 16), "rSpecial, upper bound only"),
    rOption(pos, rSpecial(off), rOptions(x, y, z), rLinear(0, 2), "rSpecial in front of the map"),
    rArrayF(afsp, 3, rNoDefaults, rSpecial(disable), rLinear(-1, 1), "rSpecial"),
    rArrayI(ais, 2, rSpecial(x), rShort("s"), rLinear(-3, 3), "rSpecial"),
    // DOC() with 1..24 arguments (one expansion table entry DOC_IMP<k> per arity): numeric ports with the declared
    // minimum and maximum at varying positions, option ports where every argument in front of the doc string is
    // observable (rOpt entries and the range)
    rParamI(d1, "DOC arity 1"),
    rParamF(d2, rLinear(-4.25, 7.5), "DOC arity 2"),
    rArrayI(d3x, 2, rMap(min, -5), rMap(max, 10), "DOC arity 3"),
    rArrayF(d4x, 3, rMap(unit, u0), rMap(min, -6.25), rMap(max, 13.5), "DOC arity 4"),
    rParamI(d5, rMap(max, 16), rProp(tag1), rMap(min, -7), rMap(logmin, 3), "DOC arity 5"),
    rParamF(d6, rMap(min, -8.25), rDefaultDepends(dep1), rMap(logmin, 2), rMap(max, 19.5), rShort("s4"), "DOC arity 6"),
    rArrayI(d7x, 3, rDefaultDepends(dep0), rMap(logmin, 1), rProp(alias2), rMap(max, 22), rSpecial(sp4), rMap(min, -9), "DOC arity 7"),
    rArrayF(d8x, 4, rMap(logmin, 0), rProp(alias1), rShort("s2"), rMap(max, 25.5), rCentered, rMap(min, -10.25), rMap(unit, u6), "DOC arity 8"),
    rParamI(d9, rProp(alias0), rShort("s1"), rSpecial(sp2), rCentered, rDefault(4), rMap(unit, u5), rMap(min, -11), rMap(max, 28), "DOC arity 9"),
    rParamF(d10, rShort("s0"), rMap(min, -12.25), rCentered, rDefault(3), rMap(max, 31.5), rNoDefaults, rProp(tag6), rDefaultDepends(dep7), rMap(logmin, 8), "DOC arity 10"),
    rArrayI(d11x, 4, rSpecial(sp0), rCentered, rDefault(2), rMap(min, -13), rNoDefaults, rMap(max, 34), rDefaultDepends(dep6), rMap(logmin, 7), rProp(alias8), rShort("s9"), "DOC arity 11"),
    rArrayF(d12x, 2, rMap(max, 37.5), rDefault(1), rMap(unit, u2), rNoDefaults, rProp(tag4), rMap(min, -14.25), rMap(logmin, 6), rProp(alias7), rShort("s8"), rSpecial(sp9), rCentered, "DOC arity 12"),
    rParamI(d13, rDefault(0), rMap(unit, u1), rNoDefaults, rProp(tag3), rDefaultDepends(dep4), rMap(logmin, 5), rProp(alias6), rShort("s7"), rSpecial(sp8), rCentered, rMap(max, 40), rMap(min, -15), "DOC arity 13"),
    rParamF(d14, rMap(unit, u0), rNoDefaults, rProp(tag2), rDefaultDepends(dep3), rMap(logmin, 4), rProp(alias5), rShort("s6"), rSpecial(sp7), rMap(max, 43.5), rDefault(9), rMap(min, -16.25), rNoDefaults, rProp(tag12), "DOC arity 14"),
    rArrayI(d15x, 2, rNoDefaults, rProp(tag1), rMap(min, -17), rMap(logmin, 3), rProp(alias4), rShort("s5"), rSpecial(sp6), rCentered, rDefault(8), rMap(unit, u9), rNoDefaults, rProp(tag11), rDefaultDepends(dep12), rMap(max, 46), "DOC arity 15"),
    rArrayF(d16x, 3, rProp(tag0), rDefaultDepends(dep1), rMap(logmin, 2), rProp(alias3), rShort("s4"), rSpecial(sp5), rCentered, rDefault(7), rMap(min, -18.25), rNoDefaults, rMap(max, 49.5), rDefaultDepends(dep11), rMap(logmin, 12), rProp(alias13), rShort("s14"), "DOC arity 16"),
    rParamI(d17, rDefaultDepends(dep0), rMap(logmin, 1), rMap(max, 52), rShort("s3"), rSpecial(sp4), rCentered, rDefault(6), rMap(unit, u7), rMap(min, -19), rProp(tag9), rDefaultDepends(dep10), rMap(logmin, 11), rProp(alias12), rShort("s13"), rSpecial(sp14), rCentered, "DOC arity 17"),
    rParamF(d18, rMap(min, -20.25), rProp(alias1), rMap(max, 55.5), rSpecial(sp3), rCentered, rDefault(5), rMap(unit, u6), rNoDefaults, rProp(tag8), rDefaultDepends(dep9), rMap(logmin, 10), rProp(alias11), rShort("s12"), rSpecial(sp13), rCentered, rDefault(15), rMap(unit, u16), "DOC arity 18"),
    rArrayI(d19x, 3, rProp(alias0), rShort("s1"), rSpecial(sp2), rMap(min, -21), rDefault(4), rMap(unit, u5), rNoDefaults, rProp(tag7), rDefaultDepends(dep8), rMap(logmin, 9), rMap(max, 58), rShort("s11"), rSpecial(sp12), rCentered, rDefault(14), rMap(unit, u15), rNoDefaults, rProp(tag17), "DOC arity 19"),
    rArrayF(d20x, 4, rMap(max, 61.5), rSpecial(sp1), rCentered, rDefault(3), rMap(unit, u4), rNoDefaults, rProp(tag6), rDefaultDepends(dep7), rMap(min, -22.25), rProp(alias9), rShort("s10"), rSpecial(sp11), rCentered, rDefault(13), rMap(unit, u14), rNoDefaults, rProp(tag16), rDefaultDepends(dep17), rMap(logmin, 18), "DOC arity 20"),
    rParamI(d21, rSpecial(sp0), rCentered, rDefault(2), rMap(unit, u3), rNoDefaults, rProp(tag5), rMap(min, -23), rMap(logmin, 7), rProp(alias8), rShort("s9"), rSpecial(sp10), rCentered, rMap(max, 64), rMap(unit, u13), rNoDefaults, rProp(tag15), rDefaultDepends(dep16), rMap(logmin, 17), rProp(alias18), rShort("s19"), "DOC arity 21"),
    rParamF(d22, rCentered, rDefault(1), rMap(unit, u2), rNoDefaults, rProp(tag4), rDefaultDepends(dep5), rMap(logmin, 6), rProp(alias7), rShort("s8"), rSpecial(sp9), rCentered, rDefault(11), rMap(min, -24.25), rNoDefaults, rProp(tag14), rDefaultDepends(dep15), rMap(logmin, 16), rProp(alias17), rMap(max, 67.5), rSpecial(sp19), rCentered, "DOC arity 22"),
    rArrayI(d23x, 4, rDefault(0), rMap(unit, u1), rNoDefaults, rProp(tag3), rDefaultDepends(dep4), rMap(logmin, 5), rProp(alias6), rShort("s7"), rSpecial(sp8), rCentered, rDefault(10), rMap(unit, u11), rNoDefaults, rProp(tag13), rMap(min, -25), rMap(logmin, 15), rProp(alias16), rShort("s17"), rSpecial(sp18), rMap(max, 70), rDefault(20), rMap(unit, u21), "DOC arity 23"),
    rArrayF(d24x, 2, rMap(unit, u0), rNoDefaults, rProp(tag2), rDefaultDepends(dep3), rMap(logmin, 4), rProp(alias5), rShort("s6"), rSpecial(sp7), rCentered, rDefault(9), rMap(unit, u10), rNoDefaults, rProp(tag12), rDefaultDepends(dep13), rMap(logmin, 14), rProp(alias15), rShort("s16"), rSpecial(sp17), rCentered, rDefault(19), rMap(max, 73.5), rNoDefaults, rMap(min, -26.25), "DOC arity 24"),
    rOption(e2, rOptions(w0, w1, w2), "DOC arity 2, options"),
    rArrayOption(e3x, 2, rLinear(0, 0), rOpt(0, w0), "DOC arity 3, options"),
    rOption(e4, rOpt(0, w0), rOpt(1, w1), rLinear(0, 0), "DOC arity 4, options"),
    rArrayOption(e5x, 4, rOpt(0, w0), rOpt(1, w1), rLinear(0, 1), rOpt(2, w2), "DOC arity 5, options"),
    rOption(e6, rOpt(0, w0), rLinear(0, 2), rOpt(1, w1), rOpt(2, w2), rOpt(3, w3), "DOC arity 6, options"),
    rArrayOption(e7x, 3, rOpt(0, w0), rOpt(1, w1), rOpt(2, w2), rOpt(3, w3), rOpt(4, w4), rLinear(0, 3), "DOC arity 7, options"),
    rOption(e8, rOpt(0, w0), rOpt(1, w1), rOpt(2, w2), rOpt(3, w3), rOpt(4, w4), rOpt(5, w5), rLinear(0, 4), "DOC arity 8, options"),
    rArrayOption(e9x, 2, rOpt(0, w0), rOpt(1, w1), rOpt(2, w2), rOpt(3, w3), rOpt(4, w4), rOpt(5, w5), rOpt(6, w6), rLinear(0, 5), "DOC arity 9, options"),
    rOption(e10, rLinear(0, 6), rOpt(0, w0), rOpt(1, w1), rOpt(2, w2), rOpt(3, w3), rOpt(4, w4), rOpt(5, w5), rOpt(6, w6), rOpt(7, w7), "DOC arity 10, options"),
    rArrayOption(e11x, 4, rOpt(0, w0), rOpt(1, w1), rOpt(2, w2), rLinear(0, 7), rOpt(3, w3), rOpt(4, w4), rOpt(5, w5), rOpt(6, w6), rOpt(7, w7), rOpt(8, w8), "DOC arity 11, options"),
    rOption(e12, rOpt(0, w0), rOpt(1, w1), rOpt(2, w2), rOpt(3, w3), rLinear(0, 8), rOpt(4, w4), rOpt(5, w5), rOpt(6, w6), rOpt(7, w7), rOpt(8, w8), rOpt(9, w9), "DOC arity 12, options"),
    rArrayOption(e13x, 3, rOpt(0, w0), rOpt(1, w1), rOpt(2, w2), rOpt(3, w3), rOpt(4, w4), rOpt(5, w5), rOpt(6, w6), rLinear(0, 9), rOpt(7, w7), rOpt(8, w8), rOpt(9, w9), rOpt(10, w10), "DOC arity 13, options"),
    rOption(e14, rOpt(0, w0), rOpt(1, w1), rOpt(2, w2), rOpt(3, w3), rOpt(4, w4), rOpt(5, w5), rOpt(6, w6), rOpt(7, w7), rOpt(8, w8), rLinear(0, 10), rOpt(9, w9), rOpt(10, w10), rOpt(11, w11), "DOC arity 14, options"),
    rArrayOption(e15x, 2, rOpt(0, w0), rOpt(1, w1), rOpt(2, w2), rLinear(0, 11), rOpt(3, w3), rOpt(4, w4), rOpt(5, w5), rOpt(6, w6), rOpt(7, w7), rOpt(8, w8), rOpt(9, w9), rOpt(10, w10), rOpt(11, w11), rOpt(12, w12), "DOC arity 15, options"),
    rOption(e16, rOpt(0, w0), rOpt(1, w1), rOpt(2, w2), rOpt(3, w3), rOpt(4, w4), rOpt(5, w5), rOpt(6, w6), rLinear(0, 12), rOpt(7, w7), rOpt(8, w8), rOpt(9, w9), rOpt(10, w10), rOpt(11, w11), rOpt(12, w12), rOpt(13, w13), "DOC arity 16, options"),
    rArrayOption(e17x, 4, rOpt(0, w0), rOpt(1, w1), rOpt(2, w2), rOpt(3, w3), rOpt(4, w4), rOpt(5, w5), rOpt(6, w6), rOpt(7, w7), rOpt(8, w8), rLinear(0, 13), rOpt(9, w9), rOpt(10, w10), rOpt(11, w11), rOpt(12, w12), rOpt(13, w13), rOpt(14, w14), "DOC arity 17, options"),
    rOption(e18, rOpt(0, w0), rOpt(1, w1), rOpt(2, w2), rOpt(3, w3), rOpt(4, w4), rOpt(5, w5), rOpt(6, w6), rOpt(7, w7), rOpt(8, w8), rOpt(9, w9), rOpt(10, w10), rOpt(11, w11), rOpt(12, w12), rOpt(13, w13), rOpt(14, w14), rOpt(15, w15), rLinear(0, 14), "DOC arity 18, options"),
    rArrayOption(e19x, 3, rOpt(0, w0), rOpt(1, w1), rOpt(2, w2), rOpt(3, w3), rOpt(4, w4), rOpt(5, w5), rOpt(6, w6), rOpt(7, w7), rLinear(0, 15), rOpt(8, w8), rOpt(9, w9), rOpt(10, w10), rOpt(11, w11), rOpt(12, w12), rOpt(13, w13), rOpt(14, w14), rOpt(15, w15), rOpt(16, w16), "DOC arity 19, options"),
    rOption(e20, rOpt(0, w0), rOpt(1, w1), rOpt(2, w2), rLinear(0, 16), rOpt(3, w3), rOpt(4, w4), rOpt(5, w5), rOpt(6, w6), rOpt(7, w7), rOpt(8, w8), rOpt(9, w9), rOpt(10, w10), rOpt(11, w11), rOpt(12, w12), rOpt(13, w13), rOpt(14, w14), rOpt(15, w15), rOpt(16, w16), rOpt(17, w17), "DOC arity 20, options"),
    rArrayOption(e21x, 2, rOpt(0, w0), rOpt(1, w1), rOpt(2, w2), rLinear(0, 17), rOpt(3, w3), rOpt(4, w4), rOpt(5, w5), rOpt(6, w6), rOpt(7, w7), rOpt(8, w8), rOpt(9, w9), rOpt(10, w10), rOpt(11, w11), rOpt(12, w12), rOpt(13, w13), rOpt(14, w14), rOpt(15, w15), rOpt(16, w16), rOpt(17, w17), rOpt(18, w18), "DOC arity 21, options"),
    rOption(e22, rOpt(0, w0), rOpt(1, w1), rLinear(0, 18), rOpt(2, w2), rOpt(3, w3), rOpt(4, w4), rOpt(5, w5), rOpt(6, w6), rOpt(7, w7), rOpt(8, w8), rOpt(9, w9), rOpt(10, w10), rOpt(11, w11), rOpt(12, w12), rOpt(13, w13), rOpt(14, w14), rOpt(15, w15), rOpt(16, w16), rOpt(17, w17), rOpt(18, w18), rOpt(19, w19), "DOC arity 22, options"),
    rArrayOption(e23x, 4, rOpt(0, w0), rOpt(1, w1), rOpt(2, w2), rOpt(3, w3), rOpt(4, w4), rOpt(5, w5), rOpt(6, w6), rOpt(7, w7), rLinear(0, 19), rOpt(8, w8), rOpt(9, w9), rOpt(10, w10), rOpt(11, w11), rOpt(12, w12), rOpt(13, w13), rOpt(14, w14), rOpt(15, w15), rOpt(16, w16), rOpt(17, w17), rOpt(18, w18), rOpt(19, w19), rOpt(20, w20), "DOC arity 23, options"),
    rOption(e24, rOpt(0, w0), rOpt(1, w1), rOpt(2, w2), rOpt(3, w3), rOpt(4, w4), rOpt(5, w5), rOpt(6, w6), rOpt(7, w7), rOpt(8, w8), rOpt(9, w9), rOpt(10, w10), rOpt(11, w11), rOpt(12, w12), rOpt(13, w13), rOpt(14, w14), rOpt(15, w15), rOpt(16, w16), rOpt(17, w17), rOpt(18, w18), rOpt(19, w19), rOpt(20, w20), rOpt(21, w21), rLinear(0, 20), "DOC arity 24, options"),
    rParamF(pfl, rLogWithLogmin(0.5, 100, 0.01), "rLogWithLogmin"),
    rParams(prm, 5, rLinear(0, 50), "rParams: rArray plus an alias port"),
    rArray(arr, 4, rLinear(-2, 9), "rArray"),
    rString(strhuge, HUGECAP, "string larger than the reply buffer"),
};
#undef rObject

// a table without array ports: Ports::dispatch takes its hashed branch
struct Flat {
    char hc;
    float hf;
    int hi;
    int ho;
    bool ht;
    char hs[8];
    int g0;
    Flat()
    {
        hc = 64; hf = 0.25f; hi = 2; ho = 3; ht = true;
        memset(hs, 0, sizeof(hs)); strcpy(hs, "flat");
        g0 = 0x5a5a5a5a;
    }
    static const rtosc::Ports ports;
};
#define rObject Flat
const rtosc::Ports Flat::ports = {
    rParam(hc, "char parameter"),
    rParamF(hf, rLinear(-1, 1), "float"),
    rParamI(hi, rLinear(-5, 5), "int"),
    rOption(ho, rOptions(red, blue, green, teal), rLinear(0, 3), "option"),
    rToggle(ht, "toggle"),
    rString(hs, 8, "string"),
};
#undef rObject

// the element type of the enumerated sub-trees (rRecurs): int, array, string, float, toggle and option ports
struct Vo {
    int vvol;
    int g0;
    int varr[3];
    int g1;
    char vname[8];
    int g2;
    float vgain;
    bool von;
    float vpan[2];
    int vwave;
    int g3;
    Vo()
    {
        vvol = 3; varr[0] = 5; varr[1] = 50; varr[2] = 100;
        memset(vname, 0, sizeof(vname)); strcpy(vname, "voice");
        vgain = 0.5f; von = true; vpan[0] = -0.25f; vpan[1] = 0.25f; vwave = 1;
        g0 = g1 = g2 = g3 = 0x5a5a5a5a;
    }
    static const rtosc::Ports ports;
};
#define rObject Vo
const rtosc::Ports Vo::ports = {
    rParamI(vvol, rLinear(-10, 10), "int"),
    rArrayI(varr, 3, rLinear(0, 100), "int array"),
    rString(vname, 8, "string"),
    rParamF(vgain, rLinear(-1, 1), "float"),
    rToggle(von, "toggle"),
    rArrayF(vpan, 2, rLinear(-1, 1), "float array"),
    rOption(vwave, rOptions(sine, saw, square), rLinear(0, 2), "option"),
};
#undef rObject

// enumerated sub-trees: `voice<k>/`, `bank<k>/` (two-digit indices), `fl<k>/` (hashed element table)
struct Rack {
    int g0;
    Vo voice[3];
    int g1;
    Vo bank[12];
    int g2;
    Flat fl[2];
    int g3;
    Rack() { g0 = g1 = g2 = g3 = 0x5a5a5a5a; }
    static const rtosc::Ports ports;
};
#define rObject Rack
const rtosc::Ports Rack::ports = {
    rRecurs(voice, 3, "three voices"),
    rRecurs(bank, 12, "twelve voices"),
    rRecurs(fl, 2, "elements with a hashed table"),
};
#undef rObject

struct Top {
    Obj sub;
    Obj LONGNAME;
    Flat flat;
    Rack rack;
    static const rtosc::Ports ports;
};
#define rObject Top
const rtosc::Ports Top::ports = {
    rRecur(sub, "the object"),
    rRecur(LONGNAME, "the same object type below a long address"),
    rRecur(flat, "the table without array ports"),
    rRecur(rack, "the enumerated sub-trees"),
};
#undef rObject

// ---------------------------------------------------------------------------------
struct Desc {
    const char *id;
    int tbl;              // 0 = Obj::ports, 1 = Flat::ports, 2 = Vo::ports
    char kind;            // P F I O T S  f t i o m
    const char *storage;  // i8 u8 i16 i32 u16 u32 i64 u64 f32 b s
    size_t off, elem, len, stride;   // element k lives at off + k*stride, elem bytes
};
#define D(name, kind, st) {#name, 0, kind, st, offsetof(Obj, name), sizeof(((Obj *)0)->name), 1, sizeof(((Obj *)0)->name)}
#define DA(name, kind, st) {#name, 0, kind, st, offsetof(Obj, name), sizeof(((Obj *)0)->name[0]), sizeof(((Obj *)0)->name) / sizeof(((Obj *)0)->name[0]), sizeof(((Obj *)0)->name[0])}
#define H(name, kind, st) {#name, 1, kind, st, offsetof(Flat, name), sizeof(((Flat *)0)->name), 1, sizeof(((Flat *)0)->name)}
#define HA(name, kind, st) {#name, 1, kind, st, offsetof(Flat, name), sizeof(((Flat *)0)->name[0]), sizeof(((Flat *)0)->name) / sizeof(((Flat *)0)->name[0]), sizeof(((Flat *)0)->name[0])}
#define VD(name, kind, st) {#name, 2, kind, st, offsetof(Vo, name), sizeof(((Vo *)0)->name), 1, sizeof(((Vo *)0)->name)}
#define VA(name, kind, st) {#name, 2, kind, st, offsetof(Vo, name), sizeof(((Vo *)0)->name[0]), sizeof(((Vo *)0)->name) / sizeof(((Vo *)0)->name[0]), sizeof(((Vo *)0)->name[0])}
static const Desc descs[] = {
    D(pc, 'P', "i8"), D(puc, 'P', "u8"), D(pcn, 'P', "i8"), D(pcu, 'P', "i8"), D(pcs, 'P', "i16"),
    D(pf0, 'F', "f32"), D(pf1, 'F', "f32"), D(pf2, 'F', "f32"), D(pf3, 'F', "f32"), D(pf4, 'F', "f32"), D(pf5, 'F', "f32"),
    D(pi0, 'I', "i32"), D(pi1, 'I', "i32"), D(pi2, 'I', "i32"), D(pi3, 'I', "i32"), D(pi4, 'I', "i32"), D(pi5, 'I', "i32"), D(pi6, 'I', "i32"), D(pi7, 'I', "i32"),
    D(ps, 'I', "i16"),
    D(po0, 'O', "i32"), D(po1, 'O', "i32"), D(po2, 'O', "i32"), D(po3, 'O', "u8"), D(po4, 'O', "i32"), D(po5, 'O', "i32"),
    D(pt, 'T', "b"),
    DA(str8, 'S', "s"), DA(str1, 'S', "s"), DA(str16, 'S', "s"), DA(strf, 'S', "s"),
    DA(af, 'f', "f32"), DA(afs, 'f', "f32"), DA(afl, 'f', "f32"),
    DA(at, 't', "b"), DA(ats, 't', "b"),
    DA(ai, 'i', "i32"), DA(aic, 'i', "i8"), DA(ail, 'i', "i32"),
    DA(ao, 'o', "i32"), DA(aoe, 'o', "i32"),
    DA(a2x, 'f', "f32"), DA(v9, 'i', "i32"),
    D(on1, 'O', "i32"), D(on2, 'O', "i32"), D(on3, 'O', "i32"), D(on4, 'O', "i32"), D(on5, 'O', "i32"), D(on6, 'O', "i32"),
    D(on7, 'O', "i32"), D(on8, 'O', "i32"), D(on9, 'O', "i32"), D(on10, 'O', "i32"), D(on11, 'O', "i32"), D(on12, 'O', "i32"),
    D(on13, 'O', "i32"), D(on14, 'O', "i32"), D(on15, 'O', "i32"), D(on16, 'O', "i32"), D(on17, 'O', "i32"), D(on18, 'O', "i32"),
    D(on19, 'O', "i32"), D(on20, 'O', "i32"), D(on21, 'O', "i32"), D(on22, 'O', "i32"), D(on23, 'O', "i32"), D(on24, 'O', "i32"),
    D(ocs, 'O', "i16"),
    {"vm", 0, 'm', "b", offsetof(Obj, voices) + offsetof(Voice, enabled), sizeof(bool), 4, sizeof(Voice)},
    DA(abig, 'i', "i32"), DA(tbig, 't', "b"), DA(fbig, 'f', "f32"), DA(strbig, 'S', "s"),
    DA(aib, 'i', "i32"), DA(aicb, 'i', "i8"), D(psb, 'I', "i16"), D(pucn, 'P', "u8"), D(pcb, 'P', "i8"),
    D(pus, 'I', "u16"), D(pusb, 'I', "u16"), D(pun, 'I', "u32"), D(punr, 'I', "u32"), D(pl, 'I', "i64"), D(pln, 'I', "i64"), D(pul, 'I', "u64"),
    D(pfs, 'F', "f32"), D(pfd, 'F', "f32"), D(pis, 'I', "i32"), D(pos, 'O', "i32"), DA(afsp, 'f', "f32"), DA(ais, 'i', "i32"),
    D(d1, 'I', "i32"),
    D(d2, 'F', "f32"),
    DA(d3x, 'i', "i32"),
    DA(d4x, 'f', "f32"),
    D(d5, 'I', "i32"),
    D(d6, 'F', "f32"),
    DA(d7x, 'i', "i32"),
    DA(d8x, 'f', "f32"),
    D(d9, 'I', "i32"),
    D(d10, 'F', "f32"),
    DA(d11x, 'i', "i32"),
    DA(d12x, 'f', "f32"),
    D(d13, 'I', "i32"),
    D(d14, 'F', "f32"),
    DA(d15x, 'i', "i32"),
    DA(d16x, 'f', "f32"),
    D(d17, 'I', "i32"),
    D(d18, 'F', "f32"),
    DA(d19x, 'i', "i32"),
    DA(d20x, 'f', "f32"),
    D(d21, 'I', "i32"),
    D(d22, 'F', "f32"),
    DA(d23x, 'i', "i32"),
    DA(d24x, 'f', "f32"),
    D(e2, 'O', "i32"),
    DA(e3x, 'o', "i32"),
    D(e4, 'O', "i32"),
    DA(e5x, 'o', "i32"),
    D(e6, 'O', "i32"),
    DA(e7x, 'o', "i32"),
    D(e8, 'O', "i32"),
    DA(e9x, 'o', "i32"),
    D(e10, 'O', "i32"),
    DA(e11x, 'o', "i32"),
    D(e12, 'O', "i32"),
    DA(e13x, 'o', "i32"),
    D(e14, 'O', "i32"),
    DA(e15x, 'o', "i32"),
    D(e16, 'O', "i32"),
    DA(e17x, 'o', "i32"),
    D(e18, 'O', "i32"),
    DA(e19x, 'o', "i32"),
    D(e20, 'O', "i32"),
    DA(e21x, 'o', "i32"),
    D(e22, 'O', "i32"),
    DA(e23x, 'o', "i32"),
    D(e24, 'O', "i32"),
    D(pfl, 'F', "f32"), DA(prm, 'i', "i32"), DA(arr, 'i', "i32"), DA(strhuge, 'S', "s"),
    VD(vvol, 'I', "i32"), VA(varr, 'i', "i32"), VA(vname, 'S', "s"), VD(vgain, 'F', "f32"), VD(von, 'T', "b"), VA(vpan, 'f', "f32"),
    VD(vwave, 'O', "i32"),
    H(hc, 'P', "i8"), H(hf, 'F', "f32"), H(hi, 'I', "i32"), H(ho, 'O', "i32"), H(ht, 'T', "b"), HA(hs, 'S', "s"),
};
static const size_t ndescs = sizeof(descs) / sizeof(descs[0]);

static const Desc *find_desc(const std::string &id)
{
    for(size_t i = 0; i < ndescs; ++i)
        if(id == descs[i].id) return &descs[i];
    return NULL;
}

static const rtosc::Port *find_port(const Desc &d)
{
    size_t n = strlen(d.id);
    for(const rtosc::Port &p : (d.tbl == 2 ? Vo::ports : d.tbl ? Flat::ports : Obj::ports))
        if(!strncmp(p.name, d.id, n) && ((p.name[n] == ':' && p.name[n + 1] == ':') || p.name[n] == '#'))
            return &p;
    return NULL;
}

static size_t meta_len(const char *m)
{
    if(!m || !*m) return m ? 1 : 0;
    size_t i = 1;
    while(!(m[i] == 0 && m[i - 1] == 0)) ++i;
    return i + 1;
}

static std::string hex32(uint32_t v)
{
    char b[16];
    snprintf(b, sizeof b, "%08x", v);
    return b;
}

// `o` = the object (Obj or Flat) the port belongs to; raw = the whole buffer of a string
static std::string state_of(const Desc &d, const void *o, bool raw = false)
{
    const unsigned char *base = (const unsigned char *)o + d.off;
    if(d.kind == 'S') {
        if(raw) return hex(base, d.len);
        const void *z = memchr(base, 0, d.len);
        if(!z) return "!" + hex(base, d.len);
        return hex(base, (const unsigned char *)z - base);
    }
    std::string s;
    std::string st = d.storage;
    for(size_t i = 0; i < d.len; ++i) {
        const unsigned char *p = base + i * d.stride;
        if(i) s += ",";
        if(st == "f32") { uint32_t v; memcpy(&v, p, 4); s += hex32(v); }
        else if(st == "b") s += (*(const bool *)p) ? "1" : "0";
        else if(st == "i8") s += std::to_string((int)*(const signed char *)p);
        else if(st == "u8") s += std::to_string((int)*p);
        else if(st == "i16") { short v; memcpy(&v, p, 2); s += std::to_string((int)v); }
        else if(st == "u16") { unsigned short v; memcpy(&v, p, 2); s += std::to_string((unsigned)v); }
        else if(st == "u32") { unsigned v; memcpy(&v, p, 4); s += std::to_string(v); }
        else if(st == "i64") { long v; memcpy(&v, p, 8); s += std::to_string(v); }
        else if(st == "u64") { unsigned long v; memcpy(&v, p, 8); s += std::to_string(v); }
        else { int v; memcpy(&v, p, 4); s += std::to_string(v); }
    }
    return s;
}

// did the stored value change?  floats: IEEE `!=` per element; everything else: the printed state
static bool changed(const Desc &d, const void *before, const void *after)
{
    if(std::string(d.storage) == "f32") {
        for(size_t i = 0; i < d.len; ++i) {
            float a, b;
            memcpy(&a, (const unsigned char *)before + d.off + i * d.stride, 4);
            memcpy(&b, (const unsigned char *)after + d.off + i * d.stride, 4);
            if(a != b) return true;
        }
        return false;
    }
    return state_of(d, before) != state_of(d, after);
}

struct Log : rtosc::RtData {
    std::vector<std::pair<std::string, std::string>> ev;    // (address, printed event)
    void add(char what, const char *msg)
    {
        std::string e;
        e += what;
        if(!msg[0]) {       // rtosc_vmessage could not format the message into RtData's buffer: empty message
            ev.push_back(std::make_pair(std::string(), e + ":-:-"));
            return;
        }
        e += ":" + hexs(msg) + ":";
        std::string tags = rtosc_argument_string(msg);
        for(char &c : tags) if(c == 'c') c = 'i';
        e += tags.empty() ? "-" : tags;
        unsigned n = rtosc_narguments(msg);
        for(unsigned i = 0; i < n; ++i) {
            char t = rtosc_type(msg, i);
            rtosc_arg_t a = rtosc_argument(msg, i);
            switch(t) {
            case 'i': case 'c': e += ":" + std::to_string(a.i); break;
            case 'f': { uint32_t v; memcpy(&v, &a.f, 4); e += ":" + hex32(v); break; }
            case 's': case 'S': e += ":" + hexs(a.s); break;
            case 'T': case 'F': break;
            default: e += ":?"; break;
            }
        }
        ev.push_back(std::make_pair(std::string(msg), e));
    }
    void reply(const char *msg) override { add('R', msg); }
    void broadcast(const char *msg) override { add('B', msg); }
    using rtosc::RtData::reply;
    using rtosc::RtData::broadcast;

    std::string events(const std::string &loc, bool value_changed) const
    {
        std::vector<std::string> out;
        for(const auto &e : ev)
            if(value_changed || !(e.second[0] == 'B' && e.first == loc))
                out.push_back(e.second);
        std::sort(out.begin(), out.end());
        std::string s;
        for(const std::string &e : out) s += (s.empty() ? "" : ",") + e;
        return s.empty() ? "-" : s;
    }
};

static std::string describe(const Desc &d, const void *o)
{
    const rtosc::Port *p = find_port(d);
    std::ostringstream os;
    os << d.id << " " << d.kind << " " << d.storage << " " << d.len << " ";
    if(!p) { os << "? ? ?"; return os.str(); }
    os << hexs(p->name) << " " << hex((const unsigned char *)p->metadata, meta_len(p->metadata)) << " " << state_of(d, o, true);
    return os.str();
}

// builds one message; returns false on a malformed token
static bool build(const std::string &tok, const std::string &prefix, const std::string &id,
                  std::vector<char> &buf, std::vector<bytes> &keep, std::string &path)
{
    std::string idx, rest = tok;
    size_t at = tok.find('@');
    if(at != std::string::npos) { idx = tok.substr(0, at); rest = tok.substr(at + 1); }
    path = prefix + id + idx;
    std::string tags;
    std::vector<rtosc_arg_t> args;
    keep.clear();
    keep.reserve(8);
    size_t pos = 0;
    while(pos <= rest.size()) {
        size_t e = rest.find('+', pos);
        if(e == std::string::npos) e = rest.size();
        std::string a = rest.substr(pos, e - pos);
        pos = e + 1;
        if(a.empty()) return false;
        rtosc_arg_t v;
        memset(&v, 0, sizeof v);
        switch(a[0]) {
        case 'q': if(a.size() != 1 || rest != "q") return false; break;
        case 'i': case 'c': v.i = (int32_t)strtol(a.c_str() + 1, NULL, 10); tags += a[0]; args.push_back(v); break;
        case 'f': { uint32_t b = (uint32_t)strtoul(a.c_str() + 1, NULL, 16); memcpy(&v.f, &b, 4); tags += 'f'; args.push_back(v); break; }
        case 'T': case 'F': if(a.size() != 1) return false; tags += a[0]; break;   // no entry in the argument array
        case 's': case 'S': {
            bytes b;
            if(!unhex(a.substr(1), b)) return false;
            b.push_back(0);
            if(keep.size() == 8) return false;
            keep.push_back(b);
            v.s = (const char *)keep.back().data();
            tags += a[0];
            args.push_back(v);
            break;
        }
        default: return false;
        }
    }
    args.push_back(rtosc_arg_t());      // never hand a NULL array over
    size_t need = rtosc_amessage(NULL, 0, path.c_str(), tags.c_str(), args.data());
    buf.assign(need, 0);
    return rtosc_amessage(buf.data(), need, path.c_str(), tags.c_str(), args.data()) == need;
}

static std::string step(const std::string &line)
{
    auto w = words(line);
    if(w.size() < 8) return "bad-op";
    const Desc *d = find_desc(w[1]);
    bytes pb;
    if(!d || !unhex(w[0], pb)) return "bad-op";
    std::string prefix(pb.begin(), pb.end());

    // the object tree lives in an exact-size heap block, next to a reference copy
    void *mem = calloc(1, sizeof(Top)), *refmem = calloc(1, sizeof(Top));
    Top *top = new(mem) Top;
    Top *ref = new(refmem) Top;

    // which object, and through which table is it reached?
    void *obj = NULL, *root = NULL;
    const rtosc::Ports *ports = NULL;
    const rtosc::Ports *owntbl = d->tbl == 2 ? &Vo::ports : d->tbl ? &Flat::ports : &Obj::ports;
    if(prefix == "/") {
        obj = d->tbl == 2 ? (void *)&top->rack.voice[1] : d->tbl ? (void *)&top->flat : (void *)&top->sub;
        root = obj;
        ports = owntbl;
    } else if(prefix == "/sub/" || prefix == "/flat/" || prefix == "/" STRINGIFY(LONGNAME) "/") {
        root = top;
        ports = &Top::ports;
        if(prefix == "/sub/" && d->tbl == 0) obj = &top->sub;
        else if(prefix == "/" STRINGIFY(LONGNAME) "/" && d->tbl == 0) obj = &top->LONGNAME;
        else if(prefix == "/flat/" && d->tbl == 1) obj = &top->flat;
    } else {
        // [/rack]/voice<k>/  [/rack]/bank<k>/  [/rack]/fl<k>/ : element k of an enumerated sub-tree (rRecurs)
        std::string r = prefix;
        if(r.compare(0, 6, "/rack/") == 0) { r = r.substr(5); root = top; ports = &Top::ports; }
        else { root = &top->rack; ports = &Rack::ports; }
        static const struct { const char *name; int tbl; size_t n; } subs[] = {{"/voice", 2, 3}, {"/bank", 2, 12}, {"/fl", 1, 2}};
        for(const auto &sb : subs) {
            size_t l = strlen(sb.name);
            if(r.compare(0, l, sb.name) != 0 || d->tbl != sb.tbl) continue;
            std::string dg = r.substr(l);
            if(dg.size() < 2 || dg.size() > 7 || dg[dg.size() - 1] != '/') continue;
            dg.erase(dg.size() - 1);
            if(dg.find_first_not_of("0123456789") != std::string::npos) continue;
            size_t k = strtoul(dg.c_str(), NULL, 10);
            if(k >= sb.n) continue;
            if(!strcmp(sb.name, "/voice")) obj = &top->rack.voice[k];
            else if(!strcmp(sb.name, "/bank")) obj = &top->rack.bank[k];
            else obj = &top->rack.fl[k];
        }
    }
    if(!obj) { top->~Top(); ref->~Top(); free(mem); free(refmem); return "bad-op"; }

    // the description tokens on the op line must be this tree's table
    {
        std::string mine = describe(*d, obj), theirs = w[1];
        for(int i = 2; i < 8; ++i) theirs += " " + w[i];
        if(mine != theirs) { top->~Top(); ref->~Top(); free(mem); free(refmem); return "table-mismatch " + mine; }
    }

    std::string out;
    static char loc[1024];
    void *snap = malloc(sizeof(Top));
    size_t objoff = (unsigned char *)obj - (unsigned char *)top;
    for(size_t k = 8; k < w.size(); ++k) {
        std::vector<char> buf;
        std::vector<bytes> keep;
        std::string path;
        if(!build(w[k], prefix, d->id, buf, keep, path)) { out += "bad-msg "; continue; }
        // message in an exact-size heap block
        bytes mb(buf.begin(), buf.end());
        Exact m(mb);
        Log log;
        memset(loc, 0, sizeof loc);
        log.loc = loc;
        log.loc_size = sizeof loc;
        log.obj = root;
        memcpy(snap, top, sizeof(Top));
        ports->dispatch(m.c(), log, true);
        bool ch = changed(*d, (unsigned char *)snap + objoff, obj);
        out += std::to_string(log.matches) + ";" + log.events(path, ch) + ";" + state_of(*d, obj) + " ";
    }
    free(snap);
    // everything outside the port's own elements must be untouched
    bool same = true;
    const unsigned char *a = (const unsigned char *)top, *b = (const unsigned char *)ref;
    std::vector<bool> own(sizeof(Top), false);
    for(size_t k = 0; k < d->len; ++k)
        for(size_t j = 0; j < d->elem; ++j)
            own[objoff + d->off + k * d->stride + j] = true;
    for(size_t i = 0; i < sizeof(Top); ++i)
        if(!own[i] && a[i] != b[i]) same = false;
    out += same ? "X=ok" : "X=changed";
    top->~Top();
    ref->~Top();
    free(mem);
    free(refmem);
    return out;
}

int main(int argc, char **argv)
{
    if(argc >= 2 && !strcmp(argv[1], "--table")) {
        Obj *o = new Obj;
        Flat f;
        Vo v;
        for(size_t i = 0; i < ndescs; ++i)
            puts(describe(descs[i], descs[i].tbl == 2 ? (void *)&v : descs[i].tbl ? (void *)&f : (void *)o).c_str());
        delete o;
        return 0;
    }
    return run_lines(argc, argv, step);
}
