// Shared helpers for the implementation-side harnesses.
// One op line in (from the file named by argv[1]), one canonical output line out.
#pragma once
#include <cstdio>
#include <cstdlib>
#include <cstring>
#include <string>
#include <vector>
#include <sstream>
#include <fstream>
#include <iostream>
#include <cstdint>

namespace vh {
typedef std::vector<unsigned char> bytes;

inline int hexval(char c) {
    if (c >= '0' && c <= '9') return c - '0';
    if (c >= 'a' && c <= 'f') return c - 'a' + 10;
    if (c >= 'A' && c <= 'F') return c - 'A' + 10;
    return -1;
}
inline bool unhex(const std::string &s, bytes &out) {
    out.clear();
    if (s == "-") return true;
    if (s.size() % 2) return false;
    for (size_t i = 0; i < s.size(); i += 2) {
        int a = hexval(s[i]), b = hexval(s[i + 1]);
        if (a < 0 || b < 0) return false;
        out.push_back((unsigned char)(a * 16 + b));
    }
    return true;
}
inline std::string hex(const unsigned char *p, size_t n) {
    if (n == 0) return "-";
    static const char *d = "0123456789abcdef";
    std::string s;
    s.reserve(2 * n);
    for (size_t i = 0; i < n; ++i) { s.push_back(d[p[i] >> 4]); s.push_back(d[p[i] & 15]); }
    return s;
}
inline std::string hex(const bytes &b) { return hex(b.data(), b.size()); }
inline std::string hexs(const char *s) { return hex((const unsigned char *)s, strlen(s)); }

inline std::vector<std::string> words(const std::string &line) {
    std::vector<std::string> w;
    std::istringstream is(line);
    std::string t;
    while (is >> t) w.push_back(t);
    return w;
}

// Exact-size heap copy: ASan red zones start right after the last byte.
struct Exact {
    unsigned char *p;
    size_t n;
    explicit Exact(const bytes &b) : n(b.size()) {
        p = (unsigned char *)malloc(n ? n : 1);
        if (n) memcpy(p, b.data(), n);
    }
    explicit Exact(size_t n_, unsigned char fill) : n(n_) {
        p = (unsigned char *)malloc(n ? n : 1);
        memset(p, fill, n);
    }
    ~Exact() { free(p); }
    char *c() { return (char *)p; }
    Exact(const Exact &) = delete;
    Exact &operator=(const Exact &) = delete;
};

// driver loop: calls f(line) -> output line, prints and flushes each line.
template <class F> int run_lines(int argc, char **argv, F f) {
    if (argc < 2) { fprintf(stderr, "usage: %s <ops-file>\n", argv[0]); return 2; }
    std::ifstream in(argv[1]);
    std::string line;
    while (std::getline(in, line)) {
        if (line.empty() || line[0] == '#') continue;
        std::string out = f(line);
        fputs(out.c_str(), stdout);
        fputc('\n', stdout);
        fflush(stdout);
    }
    return 0;
}
} // namespace vh
