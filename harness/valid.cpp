// Engine `valid` (C07): untrusted bytes -> rtosc_message_length, rtosc_valid_message_p and,
// only when the validator accepts, every reader.
// Op line / output line: see lean/Driver/ValidEngine.lean (the two must print the same text).
//
// The buffer is copied into an exact-size heap block, so that ASan reports any read outside the
// n bytes.  For n == 0 the pointer handed to the library is the *end* of a one-byte block (a
// zero-size malloc would still own one readable byte).
#include "common.h"
#include <rtosc/rtosc.h>
#include <sys/time.h>
using namespace vh;

// Watchdog: one op line takes microseconds of CPU; a loop that never terminates is killed by
// SIGPROF after two CPU-seconds and the runner records `crash:signal:27` for that line.
static void arm_watchdog() {
    struct itimerval t = {{0, 0}, {2, 0}};
    setitimer(ITIMER_PROF, &t, NULL);
}

struct Block {
    unsigned char *base;
    const char *msg;
    size_t n;
    explicit Block(const bytes &b) : n(b.size()) {
        base = (unsigned char *)malloc(n ? n : 1);
        if (n) memcpy(base, b.data(), n);
        msg = (const char *)(n ? base : base + 1);
    }
    ~Block() { free(base); }
    Block(const Block &) = delete;
    Block &operator=(const Block &) = delete;
};

static std::string h32(uint32_t v) {
    unsigned char b[4] = {(unsigned char)(v >> 24), (unsigned char)(v >> 16), (unsigned char)(v >> 8), (unsigned char)v};
    return hex(b, 4);
}
static std::string h64(uint64_t v) { return h32((uint32_t)(v >> 32)) + h32((uint32_t)v); }

static std::string show(const char *msg, char t, const rtosc_arg_t &v) {
    unsigned char tb = (unsigned char)t;
    std::string p = hex(&tb, 1) + ":";
    std::ostringstream o;
    switch (t) {
    case 'i': case 'c': case 'r': case 'f': return p + h32((uint32_t)v.i);
    case 'h': case 't': case 'd': return p + h64(v.t);
    case 'm': return p + hex(v.m, 4);
    case 's': case 'S':
        o << p << "@" << (v.s - msg) << ":" << hexs(v.s);      // follows the pointer up to the NUL
        return o.str();
    case 'b':
        o << p << (uint32_t)v.b.len << "@" << ((const char *)v.b.data - msg) << ":";
        if (v.b.len < 0) o << "?";
        else o << hex(v.b.data, (size_t)v.b.len);               // reads all `len` blob bytes
        return o.str();
    case 'T': case 'F': return p + (v.T ? "1" : "0");
    default: return p + "-";
    }
}

static std::string readers(const char *msg) {
    std::ostringstream o;
    const char *as = rtosc_argument_string(msg);
    o << "as=" << (as - msg) << ":" << hexs(as);
    unsigned n = rtosc_narguments(msg);
    o << " n=" << n;
    bytes tys;
    for (unsigned i = 0; i < n; ++i) tys.push_back((unsigned char)rtosc_type(msg, i));
    o << " ty=" << hex(tys);
    std::string av;
    for (unsigned i = 0; i < n; ++i) {
        if (i) av += ",";
        av += show(msg, rtosc_type(msg, i), rtosc_argument(msg, i));
    }
    o << " av=" << (av.empty() ? "-" : av);
    std::string it;
    rtosc_arg_itr_t itr = rtosc_itr_begin(msg);
    unsigned rounds = 0;
    while (!rtosc_itr_end(itr) && rounds < 100000) {
        rtosc_arg_val_t x = rtosc_itr_next(&itr);
        if (rounds++) it += ",";
        it += show(msg, x.type, x.val);
    }
    o << " it=" << (it.empty() ? "-" : it);
    return o.str();
}

static std::string step(const std::string &line) {
    arm_watchdog();
    auto w = words(line);
    if (w.size() != 2 || w[0] != "V") return "bad-op";
    bytes m;
    if (!unhex(w[1], m)) return "bad-op";
    Block blk(m);
    std::ostringstream o;
    size_t len = rtosc_message_length(blk.msg, blk.n);
    bool valid = rtosc_valid_message_p(blk.msg, blk.n);
    o << "len=" << len << " valid=" << (valid ? 1 : 0);
    if (valid) o << " " << readers(blk.msg);
    return o.str();
}
int main(int argc, char **argv) { return run_lines(argc, argv, step); }
