// Engine `valid` (C07): untrusted bytes -> rtosc_message_length, rtosc_valid_message_p and,
// only when the validator accepts, every reader.
// Op line / output line: see lean/Driver/ValidEngine.lean (the two must print the same text).
//
// Placement.  The property speaks about "a byte buffer of length n": the answer has to be a
// function of the n bytes alone - not of the address the caller happens to keep them at, and not
// of what an earlier call saw.  Every op line is therefore run in seven placements and the seven
// answers have to be the same text:
//   fresh0..fresh3   a fresh heap block of n+a bytes, the buffer right-aligned in it
//                    (msg = base+a, so msg % 4 == a and ASan's red zone starts at msg+n);
//                    for n == 0 the pointer handed over is the *end* of a block (a zero-size
//                    malloc would still own one readable byte);
//   arena-v, arena-j, arena-s
//                    one long-lived arena; the buffer sits right-aligned at arena_end-n (same n =>
//                    same pointer, the bytes in front are poisoned).  Before the buffer is written
//                    there, the same n bytes at the same pointer hold (v) a *valid* message of n
//                    bytes (n >= 8, n % 4 == 0; otherwise a path of n-1 'a's), (j) n bytes 0xff,
//                    (s) a valid message whose only argument is a string filling the n bytes, and
//                    every function under test has been called on that earlier content.
// If the answers differ the output line is `unstable || <placement>: <answer> || ...`.
#include "common.h"
#include <rtosc/rtosc.h>
#include <sys/time.h>
#if defined(__SANITIZE_ADDRESS__)
#include <sanitizer/asan_interface.h>
#define POISON(p, n) ASAN_POISON_MEMORY_REGION(p, n)
#define UNPOISON(p, n) ASAN_UNPOISON_MEMORY_REGION(p, n)
#else
#define POISON(p, n) ((void)0)
#define UNPOISON(p, n) ((void)0)
#endif
using namespace vh;

// Watchdog: one op line takes microseconds of CPU; a loop that never terminates is killed by
// SIGPROF after two CPU-seconds and the runner records `crash:signal:27` for that line.
static void arm_watchdog() {
    struct itimerval t = {{0, 0}, {2, 0}};
    setitimer(ITIMER_PROF, &t, NULL);
}

// fresh block, buffer right-aligned at pointer alignment `a` (mod 4)
struct Block {
    unsigned char *base;
    const char *msg;
    size_t n;
    Block(const unsigned char *p, size_t n_, unsigned a) : n(n_) {
        size_t sz = n + a;
        base = (unsigned char *)malloc(sz ? sz : 1);
        if (!sz) sz = 1, a = 1;                                  // n == 0: the end of a block
        if (n) memcpy(base + a, p, n);
        msg = (const char *)(base + a);
    }
    ~Block() { free(base); }
    Block(const Block &) = delete;
    Block &operator=(const Block &) = delete;
};

static std::string h32(uint32_t v) {
    unsigned char b[4] = {(unsigned char)(v >> 24), (unsigned char)(v >> 16), (unsigned char)(v >> 8), (unsigned char)v};
    return hex(b, 4);
}
static std::string h64(uint64_t v) { return h32((uint32_t)(v >> 32)) + h32((uint32_t)v); }

static std::string show(const char *msg, char t, const rtosc_arg_t &v) {
    unsigned char tb = (unsigned char)t;
    std::string p = hex(&tb, 1) + ":";
    std::ostringstream o;
    switch (t) {
    case 'i': case 'c': case 'r': case 'f': return p + h32((uint32_t)v.i);
    case 'h': case 't': case 'd': return p + h64(v.t);
    case 'm': return p + hex(v.m, 4);
    case 's': case 'S':
        o << p << "@" << (v.s - msg) << ":" << hexs(v.s);      // follows the pointer up to the NUL
        return o.str();
    case 'b':
        // the data pointer of an EMPTY blob is nobody's business (NULL is as good as any): `0@-:-`
        if (v.b.len == 0) return p + "0@-:-";
        o << p << (uint32_t)v.b.len << "@" << ((const char *)v.b.data - msg) << ":";
        if (v.b.len < 0) o << "?";
        else o << hex(v.b.data, (size_t)v.b.len);               // reads all `len` blob bytes
        return o.str();
    case 'T': case 'F': return p + (v.T ? "1" : "0");
    default: return p + "-";
    }
}

static std::string readers(const char *msg) {
    std::ostringstream o;
    const char *as = rtosc_argument_string(msg);
    o << "as=" << (as - msg) << ":" << hexs(as);
    unsigned n = rtosc_narguments(msg);
    o << " n=" << n;
    bytes tys;
    for (unsigned i = 0; i < n; ++i) tys.push_back((unsigned char)rtosc_type(msg, i));
    o << " ty=" << hex(tys);
    std::string av;
    for (unsigned i = 0; i < n; ++i) {
        if (i) av += ",";
        av += show(msg, rtosc_type(msg, i), rtosc_argument(msg, i));
    }
    o << " av=" << (av.empty() ? "-" : av);
    std::string it;
    rtosc_arg_itr_t itr = rtosc_itr_begin(msg);
    unsigned rounds = 0;
    while (!rtosc_itr_end(itr) && rounds < 100000) {
        rtosc_arg_val_t x = rtosc_itr_next(&itr);
        if (rounds++) it += ",";
        it += show(msg, x.type, x.val);
    }
    o << " it=" << (it.empty() ? "-" : it);
    return o.str();
}

// Everything the property observes on one placement of the buffer.
// The *value* of rtosc_message_length is printed where it means something: when the validator
// accepts, when it exceeds n (a violation), and when the first `len` bytes are a message the
// validator accepts on their own ("size of the message at the head of a chunk").  On any other
// rejected buffer the property only asks for `0 or <= n`: `len=ok`.
static std::string observe(const char *msg, size_t n) {
    std::ostringstream o;
    size_t len = rtosc_message_length(msg, n);
    bool valid = rtosc_valid_message_p(msg, n);
    if (valid) {
        o << "len=" << len << " valid=1 " << readers(msg);
        return o.str();
    }
    bool exact = len > n;
    if (!exact && len > 0 && len < n) {
        Block head((const unsigned char *)msg, len, 0);
        exact = rtosc_valid_message_p(head.msg, len);
    }
    if (exact) o << "len=" << len << " valid=0";
    else o << "len=ok valid=0";
    return o.str();
}

// ---- the reused arena -------------------------------------------------------------------
static const size_t ARENA = 1 << 16;
static unsigned char *arena = NULL;

// earlier content of the n bytes; kind 0: valid message, 1: junk, 2: valid message with one string
static void earlier(unsigned char *p, size_t n, int kind) {
    if (kind == 1 || n == 0) { memset(p, 0xff, n); return; }
    memset(p, 'a', n);
    p[0] = '/';
    if (n < 8 || n % 4) { p[n - 1] = 0; return; }
    if (kind == 0 || n < 12) {                 // "/aa…a\0" ",\0\0\0"
        p[n - 5] = 0; memcpy(p + n - 4, ",\0\0\0", 4);      // n-5 = 3 mod 4: one NUL ends the path
        return;
    }
    memcpy(p, "/a\0\0,s\0\0", 8);            // "/a" ",s" + a string that fills the rest
    p[n - 1] = 0;
}

static std::string in_arena(const bytes &m, int kind) {
    size_t n = m.size();
    if (!arena) arena = (unsigned char *)malloc(ARENA);
    unsigned char *p = arena + ARENA - n;
    POISON(arena, ARENA - n);
    UNPOISON(p, n);
    earlier(p, n, kind);
    (void)observe((const char *)p, n);
    if (n) memcpy(p, m.data(), n);
    std::string r = observe((const char *)p, n);
    UNPOISON(arena, ARENA);
    return r;
}

static std::string step(const std::string &line) {
    arm_watchdog();
    auto w = words(line);
    if (w.size() != 2 || w[0] != "V") return "bad-op";
    bytes m;
    if (!unhex(w[1], m)) return "bad-op";
    std::vector<std::pair<std::string, std::string> > outs;
    for (unsigned a = 0; a < 4; ++a) {
        Block blk(m.data(), m.size(), a);
        if (m.size() && ((uintptr_t)blk.msg & 3) != a) return "bad-alignment";
        outs.push_back(std::make_pair("fresh" + std::to_string(a), observe(blk.msg, blk.n)));
    }
    if (m.size() <= ARENA / 2) {
        outs.push_back(std::make_pair("arena-v", in_arena(m, 0)));
        outs.push_back(std::make_pair("arena-j", in_arena(m, 1)));
        outs.push_back(std::make_pair("arena-s", in_arena(m, 2)));
    }
    bool same = true;
    for (size_t i = 1; i < outs.size(); ++i) same = same && outs[i].second == outs[0].second;
    if (same) return outs[0].second;
    std::string r = "unstable";
    for (size_t i = 0; i < outs.size(); ++i) r += " || " + outs[i].first + ": " + outs[i].second;
    return r;
}
int main(int argc, char **argv) { return run_lines(argc, argv, step); }
