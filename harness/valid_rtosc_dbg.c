/* Engine `valid` (C07): the working tree's src/rtosc.c compiled WITH its assert()s.
 * The runner compiles every library object with -DNDEBUG; an assert() on untrusted data (a debug
 * build aborting on a crafted buffer) would be invisible.  This translation unit undoes the
 * -DNDEBUG for rtosc.c only and replaces the library object (tools/props/c07.py: HARNESS.exclude);
 * an assertion failure kills the harness with SIGABRT and the line is reported as crash:signal:6.
 * On the unchanged code no assert of the functions under test can fire on any buffer: the only one
 * on their path, `assert(arg)` in the argument walk of rtosc_message_ring_length, is the model's
 * `Res.spin` branch of `lenLoop`, excluded by theorem `length_terminates`. */
#undef NDEBUG
#include "rtosc.c"
