// C06: scheduling shim for src/cpp/thread-link.cpp.
//
// tlink.cpp includes this header and then `#include`s thread-link.cpp itself, so that
// every shared access of the *unmodified* source becomes a call into the harness:
//   std::atomic<off_t>          -> verif::Atomic<off_t>   (loads/stores of write/read/read_lookahead)
//   memcpy                      -> verif_memcpy           (ring <-> message buffer copies, chunked)
//   rtosc_message_ring_length   -> verif_ring_length      (framing reads of the ring view)
// All headers thread-link.cpp needs are included *before* the macros are defined, so the
// macros only rewrite the text of thread-link.cpp.
#pragma once
#include <atomic>
#include <cstring>
#include <cassert>
#include <cstdio>
#include <cstdarg>
#include <cstddef>
#include <rtosc/rtosc.h>
#define private public          // the harness inspects ring indices to tell accepted from dropped
#include <rtosc/thread-link.h>
#undef private

namespace verif {
enum Var { V_WRITE = 0, V_READ = 1, V_LA = 2 };
extern int g_next_var;                       // reset before a ThreadLink is constructed
void on_load(int var);                       // called *before* the access takes place
void after_load(int var, long value);
void on_store(int var, long value);
void copy(void *dst, const void *src, size_t n);
size_t ring_length(ring_t *r);

template <class T> struct Atomic {
    std::atomic<T> v;
    int var;
    Atomic() : v(), var(g_next_var++ % 3) {}
    operator T() const {
        on_load(var);
        T x = v.load();
        after_load(var, (long)x);
        return x;
    }
    T operator=(T x) {
        on_store(var, (long)x);
        v.store(x);
        return x;
    }
    T raw() const { return v.load(); }
};
} // namespace verif

namespace std {
template <class T> using verif_atomic = ::verif::Atomic<T>;
}
inline void *verif_memcpy(void *dst, const void *src, size_t n) {
    verif::copy(dst, src, n);
    return dst;
}
inline size_t verif_ring_length(ring_t *r) { return verif::ring_length(r); }

#define atomic verif_atomic
#define memcpy verif_memcpy
#define rtosc_message_ring_length verif_ring_length
