// C06: scheduling shim for src/cpp/thread-link.cpp.
//
// tlink.cpp includes this header and then `#include`s thread-link.cpp itself, so that
// every shared access of the *unmodified* source becomes a call into the harness:
//   std::atomic<off_t>          -> verif::Atomic<off_t>   (loads/stores of write/read/read_lookahead,
//                                                          with the memory order the source asks for)
//   memcpy / memmove / __builtin_memcpy / std::copy / std::copy_n
//                               -> verif::copy            (ring <-> message buffer copies, chunked)
//   rtosc_message_ring_length   -> verif_ring_length      (framing reads of the ring view)
// All headers thread-link.cpp needs are included *before* the macros are defined, so the
// macros only rewrite the text of thread-link.cpp.
//
// verif::Atomic offers the whole std::atomic interface (load/store/exchange/compare_exchange/
// fetch_add/fetch_sub/operators, with explicit orders), so a tree that spells its memory orders
// out still builds.  The order of every access made inside a ThreadLink operation is checked
// against what the proof assumes (DRF-SC): stores of `write`/`read` must be release or stronger,
// loads of the *other* thread's index acquire or stronger; anything weaker is reported on the
// output line (` MO:…`), which the oracle turns into a failing input.
#pragma once
#include <atomic>
#include <algorithm>
#include <cstring>
#include <cassert>
#include <cstdio>
#include <cstdarg>
#include <cstddef>
#include <rtosc/rtosc.h>
#define private public          // the harness inspects ring indices to tell accepted from dropped
#include <rtosc/thread-link.h>
#undef private

namespace verif {
enum Var { V_WRITE = 0, V_READ = 1, V_LA = 2 };
extern int g_next_var;                       // reset before a ThreadLink is constructed
void before_load(int var);                   // called *before* the access takes place (scheduling point)
void after_load(int var, long value, int order);
void before_store(int var);                  // scheduling point
void note_store(int var, long value, int order);
void copy(void *dst, const void *src, size_t n);
size_t ring_length(ring_t *r);

template <class T> struct Atomic {
    std::atomic<T> v;
    int var;
    Atomic() noexcept : v(), var(g_next_var++ % 3) {}
    Atomic(T x) noexcept : v(x), var(g_next_var++ % 3) {}
    Atomic(const Atomic &) = delete;
    Atomic &operator=(const Atomic &) = delete;

    T load(std::memory_order o = std::memory_order_seq_cst) const noexcept {
        before_load(var);
        T x = v.load(o);
        after_load(var, (long)x, (int)o);
        return x;
    }
    void store(T x, std::memory_order o = std::memory_order_seq_cst) noexcept {
        before_store(var);
        note_store(var, (long)x, (int)o);
        v.store(x, o);
    }
    operator T() const noexcept { return load(); }
    T operator=(T x) noexcept { store(x); return x; }

    // read-modify-write operations: one scheduling point, reported as a store of the new value
    T exchange(T x, std::memory_order o = std::memory_order_seq_cst) noexcept {
        before_store(var);
        note_store(var, (long)x, (int)o);
        return v.exchange(x, o);
    }
    bool compare_exchange_strong(T &e, T d, std::memory_order s, std::memory_order f) noexcept {
        before_store(var);
        bool ok = v.compare_exchange_strong(e, d, s, f);
        if (ok) note_store(var, (long)d, (int)s); else after_load(var, (long)e, (int)f);
        return ok;
    }
    bool compare_exchange_strong(T &e, T d, std::memory_order o = std::memory_order_seq_cst) noexcept {
        return compare_exchange_strong(e, d, o, o == std::memory_order_acq_rel ? std::memory_order_acquire :
                                             o == std::memory_order_release ? std::memory_order_relaxed : o);
    }
    bool compare_exchange_weak(T &e, T d, std::memory_order s, std::memory_order f) noexcept {
        return compare_exchange_strong(e, d, s, f);
    }
    bool compare_exchange_weak(T &e, T d, std::memory_order o = std::memory_order_seq_cst) noexcept {
        return compare_exchange_strong(e, d, o);
    }
    T fetch_add(T x, std::memory_order o = std::memory_order_seq_cst) noexcept {
        before_store(var);
        T old = v.fetch_add(x, o);
        note_store(var, (long)(old + x), (int)o);
        return old;
    }
    T fetch_sub(T x, std::memory_order o = std::memory_order_seq_cst) noexcept {
        before_store(var);
        T old = v.fetch_sub(x, o);
        note_store(var, (long)(old - x), (int)o);
        return old;
    }
    T operator+=(T x) noexcept { return fetch_add(x) + x; }
    T operator-=(T x) noexcept { return fetch_sub(x) - x; }
    T operator++() noexcept { return fetch_add(1) + 1; }
    T operator++(int) noexcept { return fetch_add(1); }
    T operator--() noexcept { return fetch_sub(1) - 1; }
    T operator--(int) noexcept { return fetch_sub(1); }
    bool is_lock_free() const noexcept { return v.is_lock_free(); }

    T raw() const { return v.load(); }       // harness only: no event, no scheduling point
};

} // namespace verif

namespace std {
template <class T> using verif_atomic = ::verif::Atomic<T>;
// std::copy / std::copy_n over byte pointers are the same thing as memcpy to the scheduler
template <class I, class O> inline O verif_copy(I first, I last, O out) {
    return std::copy(first, last, out);
}
inline char *verif_copy(const char *first, const char *last, char *out) {
    ::verif::copy(out, first, (size_t)(last - first));
    return out + (last - first);
}
inline char *verif_copy(char *first, char *last, char *out) {
    ::verif::copy(out, first, (size_t)(last - first));
    return out + (last - first);
}
template <class I, class N, class O> inline O verif_copy_n(I first, N n, O out) {
    return std::copy_n(first, n, out);
}
inline char *verif_copy_n(const char *first, size_t n, char *out) {
    ::verif::copy(out, first, n);
    return out + n;
}
inline char *verif_copy_n(char *first, size_t n, char *out) {
    ::verif::copy(out, first, n);
    return out + n;
}
}
inline void *verif_memcpy(void *dst, const void *src, size_t n) {
    verif::copy(dst, src, n);
    return dst;
}
inline size_t verif_ring_length(ring_t *r) { return verif::ring_length(r); }

#define atomic verif_atomic
#define memcpy verif_memcpy
#define memmove verif_memcpy
#define __builtin_memcpy verif_memcpy
#define __builtin_memmove verif_memcpy
#define copy verif_copy
#define copy_n verif_copy_n
#define rtosc_message_ring_length verif_ring_length
