// Engine `scan` (C11): a text of the documented pretty-format grammar through the real
// checker, scanner and printer.
//
// Op line:   <text-hex|-> [alt=<text-hex|->] [ns]   (alt: a second rendering of the same choices;
//                                                   ns: the text is not a sentence of the grammar)
// Output:    C <count> W <written> R <rd>/<len> V <cell>* P C2 <count2> W2 <written2> R2 <rd2>/<len2> V2 <cell>*
//   count    rtosc_count_printed_arg_vals(text)
//   written  number of rtosc_arg_val_t the scanner wrote when asked for `count` values: the cell
//            block has exactly `count` cells followed by nothing (a scanner that writes more is
//            caught by ASan); cells are pre-filled with a sentinel and counted afterwards
//   rd/len   bytes consumed by rtosc_scan_arg_vals / strlen(text); for the printed text (R2) `ok` when the two
//            are equal (how long the printed text is, is not observed)
//   V        the cells, as in harness/pretty.cpp (floats as bit patterns, booleans with their payload:
//            `T1` = type 'T' with val.T == 1, `F0` = type 'F' with val.T == 0)
//   P        rtosc_print_arg_vals(cells, default options), then the same on the printed text;
//            the printed text itself is not part of the output: the property observes count, cells
//            written, bytes consumed and values only (a printer that breaks its lines elsewhere
//            is as good as long as the text scans back to the same values);
//            `P !endless` (and nothing more) when the cells have a range with count <= 0 at top level
// With `ns` (a text outside the grammar, on which the property demands nothing) everything is run
// in the same way, but the output is only `NS`: what is compared is that the library stays
// inside defined behaviour (a crash / sanitizer report replaces the line).
// After `C <count>` with count < 0 (syntax error reported) the group ends there.
// With alt=: ` | A C <count> W <written> R <rd>/<len> V <cell>*` for the second text is appended.
#include "common.h"
#include <rtosc/rtosc.h>
#include <rtosc/arg-ext.h>
#include <rtosc/arg-val-cmp.h>
#include <rtosc/pretty-format.h>
#include <rtosc/rtosc-time.h>
#include <cinttypes>
#include <ctime>
using namespace vh;

static std::string cell(const rtosc_arg_val_t &a) {
    char buf[64];
    switch (a.type) {
    case 'i': case 'c': snprintf(buf, sizeof buf, "%c%d", a.type, a.val.i); return buf;
    case 'h': snprintf(buf, sizeof buf, "h%" PRId64, a.val.h); return buf;
    case 'f': { uint32_t u; memcpy(&u, &a.val.f, 4); snprintf(buf, sizeof buf, "f%08x", u); return buf; }
    case 'd': { uint64_t u; memcpy(&u, &a.val.d, 8); snprintf(buf, sizeof buf, "d%016" PRIx64, u); return buf; }
    case 't': snprintf(buf, sizeof buf, "t%016" PRIx64, a.val.t); return buf;
    case 'r': snprintf(buf, sizeof buf, "r%08x", (uint32_t)a.val.i); return buf;
    case 'm': snprintf(buf, sizeof buf, "m%02x%02x%02x%02x", a.val.m[0], a.val.m[1], a.val.m[2], a.val.m[3]); return buf;
    case 's': case 'S': return std::string(1, a.type) + ":" + (a.val.s ? hexs(a.val.s) : std::string("NULL"));
    case 'b': return std::string("b:") + hex(a.val.b.data, a.val.b.len > 0 ? (size_t)a.val.b.len : 0);
    case 'T': case 'F': snprintf(buf, sizeof buf, "%c%d", a.type, (int)a.val.T); return buf;
    case 'N': case 'I': return std::string(1, a.type);
    case 'a': snprintf(buf, sizeof buf, "a%d:%d", (int)(unsigned char)rtosc_av_arr_type(&a), rtosc_av_arr_len(&a)); return buf;
    case '-': snprintf(buf, sizeof buf, "R%d:%d", rtosc_av_rep_num(&a), rtosc_av_rep_has_delta(&a)); return buf;
    default: snprintf(buf, sizeof buf, "?%d", (int)(unsigned char)a.type); return buf;
    }
}

static const char SENTINEL = 0x7e;
static const size_t SBS = 1 << 15;

struct Scanned {
    int count;
    rtosc_arg_val_t *cells;   // exactly `count` cells
    char *strbuf;
    Scanned() : count(0), cells(NULL), strbuf(NULL) {}
    ~Scanned() { free(cells); free(strbuf); }
};

// count + scan of `text` (an exact-size block); appends "C .. W .. R .. V .." to `o`
static bool count_scan(const char *text, Scanned &sc, std::ostringstream &o, const char *sfx) {
    int count = rtosc_count_printed_arg_vals(text);
    o << "C" << sfx << " " << count;
    if (count < 0) return false;
    sc.count = count;
    sc.cells = (rtosc_arg_val_t *)malloc(count ? sizeof(rtosc_arg_val_t) * (size_t)count : 1);
    if (count) memset(sc.cells, SENTINEL, sizeof(rtosc_arg_val_t) * (size_t)count);
    sc.strbuf = (char *)malloc(SBS);
    memset(sc.strbuf, 0x7f, SBS);
    size_t rd = rtosc_scan_arg_vals(text, sc.cells, (size_t)count, sc.strbuf, SBS);
    int written = 0;
    for (int i = 0; i < count; ++i) if (sc.cells[i].type != SENTINEL) ++written;
    o << " W" << sfx << " " << written << " R" << sfx << " ";
    // the length of the *printed* text is the printer's business: only "consumed entirely" is observed there
    if (*sfx && rd == strlen(text)) o << "ok"; else o << rd << "/" << strlen(text);
    o << " V" << sfx;
    for (int i = 0; i < count; ++i) o << " " << cell(sc.cells[i]);
    return true;
}

// A range with a count <= 0 outside of an array ("endless" at top level) is not a printable value
// list: the manual allows the open end only as the last element of an array, and the printer
// would write "b ... " with the following values behind it.  No sentence scans to such a list
// (the oracle sees the cells); for other texts the print / rescan part is skipped.
static bool endless_at_top(const rtosc_arg_val_t *c, int n) {
    for (int i = 0; i < n;) {
        if (c[i].type == 'a') { i += 1 + rtosc_av_arr_len(&c[i]); continue; }
        if (c[i].type == '-') {
            if (rtosc_av_rep_num(&c[i]) <= 0) return true;
            if (rtosc_av_rep_has_delta(&c[i])) { i += 3; continue; }
            ++i;
            if (i < n && c[i].type == 'a') i += 1 + rtosc_av_arr_len(&c[i]); else ++i;
            continue;
        }
        ++i;
    }
    return false;
}

static std::string step(const std::string &line) {
    auto w = words(line);
    if (w.empty()) return "bad-op";
    bytes t; if (!unhex(w[0], t)) return "bad-op";
    for (unsigned char c : t) if (!c) return "bad-op";
    t.push_back(0);
    Exact mem(t);
    std::ostringstream o;
    Scanned s1;
    if (!count_scan(mem.c(), s1, o, "")) return o.str();
    if (endless_at_top(s1.cells, s1.count)) { o << " P !endless"; return o.str(); }
    // print with the default options, in a buffer that is large enough
    const size_t cap = 1 << 16;
    char *text2 = (char *)malloc(cap);
    memset(text2, 0x7f, cap);
    text2[0] = 0;
    rtosc_print_arg_vals(s1.cells, (size_t)s1.count, text2, cap, NULL, 0);
    size_t len2 = strnlen(text2, cap);
    o << " P ";
    bytes tb((unsigned char *)text2, (unsigned char *)text2 + len2);
    tb.push_back(0);
    free(text2);
    Exact mem2(tb);
    Scanned s2;
    if (!count_scan(mem2.c(), s2, o, "2")) return o.str();
    return o.str();
}

static std::string step_line(const std::string &line) {
    std::string out = step(line);
    if (out == "bad-op") return out;
    // a second rendering of the same choices: ` | A C <count> W <written> R <rd>/<len> V <cell>*`
    auto w = words(line);
    for (size_t k = 1; k < w.size(); ++k) {
        if (w[k].compare(0, 4, "alt=") != 0) continue;
        bytes t; if (!unhex(w[k].substr(4), t)) return "bad-op";
        for (unsigned char c : t) if (!c) return "bad-op";
        t.push_back(0);
        Exact mem(t);
        std::ostringstream o;
        Scanned s;
        count_scan(mem.c(), s, o, "");
        out += " | A " + o.str();
        break;
    }
    for (size_t k = 1; k < w.size(); ++k) if (w[k] == "ns") return "NS";
    return out;
}

int main(int argc, char **argv) {
    setenv("TZ", "UTC", 1);
    tzset();
    return run_lines(argc, argv, step_line);
}
