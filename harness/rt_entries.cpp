// C03 — realtime entry points + the sample sugar tree (see rt_entries.h / rt_tree.h).
// This file is (1) compiled to LLVM IR together with the library's realtime sources by
// tools/callgraph.py and (2) linked into the dynamic engine harness/rt.cpp.
#define RT_TREE_DEFINE
#include "rt_entries.h"

#define RT_ENTRY __attribute__((noinline, used))

namespace rte {

const char *const LIT_SIGS[] = {
    "", "i", "f", "s", "b", "h", "d", "t", "c", "m", "S", "r", "T", "F", "N", "I",
    "ifs", "sbi", "[if]s", "TiFd", "hdtm", "ss", "iiii", "bb", "cSr"};
const int N_LIT_SIGS = sizeof(LIT_SIGS) / sizeof(LIT_SIGS[0]);

// a[] holds one entry per payload-carrying tag, in order
#define RT_LIT_SWITCH(CALL)                                                         \
    switch(sig) {                                                                   \
        case 0:  CALL(""); break;                                                   \
        case 1:  CALL("i", a[0].i); break;                                          \
        case 2:  CALL("f", a[0].f); break;                                          \
        case 3:  CALL("s", a[0].s); break;                                          \
        case 4:  CALL("b", a[0].b.len, a[0].b.data); break;                         \
        case 5:  CALL("h", a[0].h); break;                                          \
        case 6:  CALL("d", a[0].d); break;                                          \
        case 7:  CALL("t", a[0].t); break;                                          \
        case 8:  CALL("c", a[0].i); break;                                          \
        case 9:  CALL("m", a[0].m); break;                                          \
        case 10: CALL("S", a[0].s); break;                                          \
        case 11: CALL("r", a[0].i); break;                                          \
        case 12: CALL("T"); break;                                                  \
        case 13: CALL("F"); break;                                                  \
        case 14: CALL("N"); break;                                                  \
        case 15: CALL("I"); break;                                                  \
        case 16: CALL("ifs", a[0].i, a[1].f, a[2].s); break;                        \
        case 17: CALL("sbi", a[0].s, a[1].b.len, a[1].b.data, a[2].i); break;       \
        case 18: CALL("[if]s", a[0].i, a[1].f, a[2].s); break;                      \
        case 19: CALL("TiFd", a[0].i, a[1].d); break;                               \
        case 20: CALL("hdtm", a[0].h, a[1].d, a[2].t, a[3].m); break;               \
        case 21: CALL("ss", a[0].s, a[1].s); break;                                 \
        case 22: CALL("iiii", a[0].i, a[1].i, a[2].i, a[3].i); break;               \
        case 23: CALL("bb", a[0].b.len, a[0].b.data, a[1].b.len, a[1].b.data); break; \
        case 24: CALL("cSr", a[0].i, a[1].s, a[2].i); break;                        \
        default: break;                                                             \
    }

// ---- building -------------------------------------------------------------------------
RT_ENTRY size_t build_array(char *buf, size_t cap, const char *addr, const char *types, const rtosc_arg_t *args)
{
    return rtosc_amessage(buf, cap, addr, types, args);
}

RT_ENTRY size_t build_valist(char *buf, size_t cap, const char *addr, const char *types, va_list va)
{
    return rtosc_vmessage(buf, cap, addr, types, va);
}

RT_ENTRY size_t build_literal(char *buf, size_t cap, const char *addr, int sig, const rtosc_arg_t *a)
{
    size_t r = 0;
#define CALL(...) r = rtosc_message(buf, cap, addr, __VA_ARGS__)
    RT_LIT_SWITCH(CALL)
#undef CALL
    return r;
}

// ---- measuring ------------------------------------------------------------------------
RT_ENTRY void measure(const char *msg, size_t len, size_t split, const char *addr, const char *types,
                      const rtosc_arg_t *args, Measure *out)
{
    out->len   = rtosc_message_length(msg, len);
    out->valid = rtosc_valid_message_p(msg, len);
    ring_t r[2];
    if(split > len) split = len;
    r[0].data = const_cast<char *>(msg);       r[0].len = split;
    r[1].data = const_cast<char *>(msg) + split; r[1].len = len - split;
    out->ring_len = rtosc_message_ring_length(r);
    out->null_len = addr ? rtosc_amessage(NULL, 0, addr, types, args) : 0;
}

// ---- reading --------------------------------------------------------------------------
static inline uint64_t mix(uint64_t h, uint64_t v) { return (h ^ v) * 1099511628211ull; }
static inline uint64_t mix_bytes(uint64_t h, const void *p, size_t n)
{
    const unsigned char *b = (const unsigned char *) p;
    for(size_t i = 0; i < n; ++i) h = mix(h, b[i]);
    return h;
}
static uint64_t mix_arg(uint64_t h, char t, const rtosc_arg_t &v)
{
    switch(t) {
        case 'i': case 'c': case 'r': return mix(h, (uint32_t) v.i);
        case 'f': return mix_bytes(h, &v.f, 4);
        case 'h': case 't': return mix(h, (uint64_t) v.h);
        case 'd': return mix_bytes(h, &v.d, 8);
        case 'm': return mix_bytes(h, v.m, 4);
        case 's': case 'S': return v.s ? mix_bytes(h, v.s, strlen(v.s)) : h;
        case 'b': return v.b.data ? mix_bytes(mix(h, (uint32_t) v.b.len), v.b.data, v.b.len > 0 ? v.b.len : 0) : h;
        case 'T': return mix(h, 1);
        case 'F': return mix(h, 0);
        default:  return mix(h, (unsigned char) t);
    }
}

RT_ENTRY uint64_t read_all(const char *msg, unsigned *nargs_out)
{
    uint64_t h = 1469598103934665603ull;
    const char *types = rtosc_argument_string(msg);
    unsigned n_api = rtosc_narguments(msg);
    unsigned n = 0;
    for(const char *t = types; *t; ++t)
        if(*t != '[' && *t != ']') ++n;
    if(nargs_out) *nargs_out = n_api;
    h = mix_bytes(h, types, strlen(types));
    for(unsigned i = 0; i < n; ++i) {
        char t = rtosc_type(msg, i);
        rtosc_arg_t v = rtosc_argument(msg, i);
        h = mix_arg(mix(h, (unsigned char) t), t, v);
    }
    rtosc_arg_itr_t it = rtosc_itr_begin(msg);
    unsigned guard = 0;
    while(!rtosc_itr_end(it) && guard++ < 100000) {
        rtosc_arg_val_t av = rtosc_itr_next(&it);
        h = mix_arg(mix(h, (unsigned char) av.type), av.type, av.val);
    }
    return h;
}

// ---- bundles --------------------------------------------------------------------------
RT_ENTRY size_t bundle_build(char *buf, size_t cap, uint64_t tt, int n, const char *const *e)
{
    switch(n) {
        case 0: return rtosc_bundle(buf, cap, tt, 0);
        case 1: return rtosc_bundle(buf, cap, tt, 1, e[0]);
        case 2: return rtosc_bundle(buf, cap, tt, 2, e[0], e[1]);
        case 3: return rtosc_bundle(buf, cap, tt, 3, e[0], e[1], e[2]);
        case 4: return rtosc_bundle(buf, cap, tt, 4, e[0], e[1], e[2], e[3]);
        case 5: return rtosc_bundle(buf, cap, tt, 5, e[0], e[1], e[2], e[3], e[4]);
        default: return rtosc_bundle(buf, cap, tt, 6, e[0], e[1], e[2], e[3], e[4], e[5]);
    }
}

static uint64_t bundle_read_rec(const char *b, size_t len, unsigned *count, int depth, uint64_t h)
{
    h = mix(h, rtosc_bundle_timetag(b));
    size_t n = rtosc_bundle_elements(b, len);
    h = mix(h, n);
    for(unsigned i = 0; i < n; ++i) {
        const char *e = rtosc_bundle_fetch(b, i);
        size_t      s = rtosc_bundle_size(b, i);
        h = mix(h, s);
        ++*count;
        if(rtosc_bundle_p(e)) {
            if(depth < 8)
                h = bundle_read_rec(e, s, count, depth + 1, h);
        } else {
            h = mix(h, rtosc_message_length(e, s));
            h = mix(h, read_all(e, NULL));
        }
    }
    return h;
}

RT_ENTRY uint64_t bundle_read(const char *b, size_t len, unsigned *nelms_out)
{
    unsigned count = 0;
    uint64_t h = 7;
    if(rtosc_bundle_p(b))
        h = bundle_read_rec(b, len, &count, 0, h);
    h = mix(h, rtosc_message_length(b, len));
    h = mix(h, rtosc_valid_message_p(b, len));
    if(nelms_out) *nelms_out = count;
    return h;
}

// ---- matching -------------------------------------------------------------------------
RT_ENTRY unsigned match_all(const char *pattern, const char *msg)
{
    unsigned r = 0;
    const char *end = NULL;
    if(rtosc_match(pattern, msg, &end)) r |= 1;
    if(rtosc_match(pattern, msg, NULL)) r |= 2;
    end = NULL;
    if(rtosc_match_path(pattern, msg, &end)) r |= 4;
    if(rtosc_match_path(pattern, msg, NULL)) r |= 8;
    if(end) r |= 16;
    return r;
}

// ---- dispatch -------------------------------------------------------------------------
RT_ENTRY void dispatch_loc(const rtosc::Ports *p, const char *m, rtosc::RtData *d, bool base)
{
    p->dispatch(m, *d, base);
}
RT_ENTRY void dispatch_noloc(const rtosc::Ports *p, const char *m, rtosc::RtData *d, bool base)
{
    d->loc = NULL;
    d->loc_size = 0;
    p->dispatch(m, *d, base);
}

// ---- default reply / broadcast forwarding ----------------------------------------------
RT_ENTRY void reply_forward(rtosc::RtData *d, const char *path, int sig, const rtosc_arg_t *a, const char *types)
{
#define CALL(...) d->reply(path, __VA_ARGS__)
    RT_LIT_SWITCH(CALL)
#undef CALL
#define CALL(...) d->broadcast(path, __VA_ARGS__)
    RT_LIT_SWITCH(CALL)
#undef CALL
#define CALL(...) d->chain(path, __VA_ARGS__)
    RT_LIT_SWITCH(CALL)
#undef CALL
    char buf[256];
    if(rtosc_amessage(buf, sizeof(buf), path, types, a)) {
        d->reply(buf);
        d->broadcast(buf);
        d->chain(buf);
    }
    d->replyArray(path, types, const_cast<rtosc_arg_t *>(a));
    d->broadcastArray(path, types, const_cast<rtosc_arg_t *>(a));
    d->chainArray(path, types, const_cast<rtosc_arg_t *>(a));
    d->forward(NULL);
    d->push_index(sig);
    d->pop_index();
}

// ---- ThreadLink -------------------------------------------------------------------------
RT_ENTRY void tl_write_literal(rtosc::ThreadLink *l, const char *addr, int sig, const rtosc_arg_t *a)
{
#define CALL(...) l->write(addr, __VA_ARGS__)
    RT_LIT_SWITCH(CALL)
#undef CALL
}
RT_ENTRY void tl_write_array(rtosc::ThreadLink *l, const char *addr, const char *types, const rtosc_arg_t *a)
{
    l->writeArray(addr, types, a);
}
RT_ENTRY void tl_raw_write(rtosc::ThreadLink *l, const char *msg)
{
    l->raw_write(msg);
}
RT_ENTRY int tl_has_next(rtosc::ThreadLink *l, int lookahead)
{
    switch(lookahead) {
        case 0:  return l->hasNext();
        case 1:  return l->hasNextLookahead();
        case 2:  return l->hasNext(false);
        default: return l->hasNext(true);
    }
}
RT_ENTRY size_t tl_read(rtosc::ThreadLink *l, int lookahead, uint64_t *sum)
{
    const char *m;
    switch(lookahead) {
        case 0:  m = l->read(); break;
        case 1:  m = l->read_lookahead(); break;
        case 2:  m = l->read(false); break;
        default: m = l->read(true); break;
    }
    size_t n = rtosc_message_length(m, -1);
    if(sum) *sum = mix_bytes(*sum, m, n);
    return n;
}
RT_ENTRY size_t tl_peak(rtosc::ThreadLink *l)
{
    const char *m = l->peak();
    (void) l->buffer();
    return m ? l->buffer_size() : 0;
}

// ---- metadata views ---------------------------------------------------------------------
RT_ENTRY int meta_queries(const rtosc::Port *p, const char *key, const char *value)
{
    int r = 0;
    rtosc::Port::MetaContainer meta = p->meta();
    for(auto m : meta)
        r += m.value ? 2 : 1;
    if(meta.find(key)) r += 1000;
    if(meta[key]) r += 10000;
    r += (int) meta.length();
    if(value && rtosc::enum_key(meta, value) >= 0) r += 100000;
    return r;
}
} // namespace rte

// support (not entry points): construct the application-style RtData, so that its vtable and
// overrides are part of the module the call graph is extracted from
rtt::CapData *rt_support_new_capdata(void) { return new rtt::CapData; }
rtosc::RtData *rt_support_new_rtdata(void) { return new rtosc::RtData; }
