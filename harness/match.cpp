// Engine `match` (C05).
//
//   M <pattern-hex> <address-hex> <tags-hex> [tokens for the oracle, ignored]
//       -> P  <rtosc_match_path(pattern, address, NULL)  1 | NULL>
//          M  <rtosc_match(pattern, message, NULL)        0|1>
//          A  <arg_matcher(first ':' of the pattern, tags) 0|1 | - no ':' | x the function is gone>
//          B  <Port_Matcher::rtosc_match_args(first ':' of the pattern, msg) 0|1|-|x>
//          Pe <rtosc_match_path(pattern, address, &end)   1 | NULL>
//          Me <rtosc_match(pattern, message, &end)        0|1>
//       Only verdicts are printed (the property observes "matches / does not match"): neither
//       the offset of the returned pattern pointer nor *path_end.
//   U <pattern-hex> <address-hex> <tags-hex> [ignored]
//       inputs outside the property's quantifier (indices beyond 9 digits, patterns that are
//       not of the documented form): the same calls are made, under the sanitizers, and only
//       the fact that they returned is reported:  -> U ok
//   X <pattern-hex> <alphabet-hex> <maxlen> <tags-hex>,<tags-hex>,... [ignored]
//       every address over the alphabet up to length maxlen, in order of length and then
//       of alphabet position:
//       -> X <#addresses matched by rtosc_match_path> <hash of them>
//            <#matched by rtosc_match>:<hash> for each tag string
//
// Every buffer handed to the library is an exact-size heap block (or ends where its heap
// block ends): the pattern (bytes + NUL), the address (bytes + NUL), the type string for
// arg_matcher (bytes + NUL) and the message, which is built by rtosc_amessage from the
// address and all-zero arguments of the given types — no spare byte behind it, so ASan sees
// any read behind the message (fixes/C05-args-overread.patch repaired one).
#include "common.h"
#include <rtosc/rtosc.h>
#include "ports.cpp"
using namespace vh;

// The two copies of the type matcher in ports.cpp are called if they (still) exist: a tree in
// which the unused `arg_matcher` was removed or the copies were merged must still build.
namespace {
struct AnyArg { template <class T> AnyArg(T) {} };
}
static inline int arg_matcher(AnyArg, AnyArg) { return 2; }   // chosen only if ports.cpp has none
template <class T>
static auto call_pm(T &pm, const char *s, const char *m, int) -> decltype(pm.rtosc_match_args(s, m), int()) {
    return pm.rtosc_match_args(s, m) ? 1 : 0;
}
template <class T> static int call_pm(T &, const char *, const char *, long) { return 2; }
static const char *show012(int v) { return v == 2 ? "x" : v ? "1" : "0"; }

static bool known_tag(unsigned char t) { return strchr("ifcrmsSbhdtTFNI", t) && t; }
static size_t zero_arg_size(unsigned char t) {
    if (strchr("ifcrmsSb", t)) return 4;
    if (strchr("hdt", t)) return 8;
    return 0;
}

// message for (address, tags) with all-zero arguments, exactly its size
static void build_msg(const bytes &addr, const bytes &tags, bytes &out) {
    size_t n = addr.size() + (4 - addr.size() % 4);
    n += 1 + tags.size();
    n += 4 - n % 4;
    bool all_known = true;
    for (unsigned char t : tags) { n += zero_arg_size(t); all_known &= known_tag(t); }
    out.assign(n, 0);
    if (all_known) {
        std::string a((const char *)addr.data(), addr.size()), t((const char *)tags.data(), tags.size());
        std::vector<rtosc_arg_t> av(tags.size() + 1);
        static unsigned char dummy = 0;
        for (size_t i = 0, j = 0; i < tags.size(); ++i) {
            rtosc_arg_t x;
            memset(&x, 0, sizeof(x));
            if (tags[i] == 's' || tags[i] == 'S') x.s = "";
            if (tags[i] == 'b') { x.b.len = 0; x.b.data = &dummy; }
            if (zero_arg_size(tags[i])) av[j++] = x;
        }
        size_t got = rtosc_amessage((char *)out.data(), n, a.c_str(), t.c_str(), av.data());
        if (got != n) { fprintf(stderr, "rtosc_amessage wrote %zu, expected %zu\n", got, n); abort(); }
    } else { // type characters rtosc_amessage does not know ('[' ']' …): same layout by hand
        if (!addr.empty()) memcpy(out.data(), addr.data(), addr.size());
        size_t p = addr.size() + (4 - addr.size() % 4);
        out[p] = ',';
        if (!tags.empty()) memcpy(out.data() + p + 1, tags.data(), tags.size());
    }
}

static const char *first_colon(const char *pat) { return strchr(pat, ':'); }

static std::string op_M(const std::vector<std::string> &w, bool verdicts) {
    bytes pat, addr, tags;
    if (w.size() < 4 || !unhex(w[1], pat) || !unhex(w[2], addr) || !unhex(w[3], tags)) return "bad-op";
    pat.push_back(0);
    Exact P(pat);
    bytes a0 = addr;
    a0.push_back(0);
    Exact A(a0);
    bytes msg;
    build_msg(addr, tags, msg);
    Exact M(msg);
    bytes t0 = tags;
    t0.push_back(0);
    Exact T(t0);

    std::ostringstream o;
    const char *r = rtosc_match_path(P.c(), A.c(), NULL);
    o << "P " << (r ? "1" : "NULL");
    o << " M " << (rtosc_match(P.c(), M.c(), NULL) ? 1 : 0);
    const char *spec = first_colon(P.c());
    if (spec) {
        rtosc::Port_Matcher pm(1);
        o << " A " << show012(arg_matcher(spec, (const char *)T.c()));
        o << " B " << show012(call_pm(pm, spec, M.c(), 0));
    } else
        o << " A - B -";
    // the same two calls with path_end != NULL (what Ports::dispatch does)
    const char *end = NULL;
    r = rtosc_match_path(P.c(), A.c(), &end);
    o << " Pe " << (r ? "1" : "NULL");
    end = NULL;
    o << " Me " << (rtosc_match(P.c(), M.c(), &end) ? 1 : 0);
    return verdicts ? o.str() : std::string("U ok");
}

static inline void mix(uint64_t &h, const unsigned char *s, size_t n) {
    for (size_t i = 0; i < n; ++i) h = h * 1099511628211ULL + s[i] + 1;
    h = h * 1099511628211ULL + 255;
}

static std::string op_X(const std::vector<std::string> &w) {
    bytes pat, alph;
    if (w.size() < 5 || !unhex(w[1], pat) || !unhex(w[2], alph) || alph.empty()) return "bad-op";
    int maxlen = atoi(w[3].c_str());
    std::vector<bytes> tagv;
    {
        std::istringstream is(w[4]);
        std::string t;
        while (std::getline(is, t, ',')) { bytes b; if (!unhex(t, b)) return "bad-op"; tagv.push_back(b); }
    }
    pat.push_back(0);
    Exact P(pat);
    uint64_t pc = 0, ph = 0;
    std::vector<uint64_t> mc(tagv.size(), 0), mh(tagv.size(), 0);
    // In this mode the messages are laid out by hand (same bytes as build_msg produces, which
    // op_M checks against rtosc_amessage): address, NUL padding, ",tags", NUL padding, zero
    // payload.  One heap block is used for all of them; each message is placed so that it ENDS
    // where the block ends (a read behind the message is a heap-buffer-overflow for ASan).
    // rtosc_match_path is called with path_end == NULL, rtosc_match with path_end != NULL.
    std::vector<size_t> tail(tagv.size());
    size_t maxtail = 0;
    for (size_t j = 0; j < tagv.size(); ++j) {
        size_t n = 1 + tagv[j].size();
        n += 4 - n % 4;
        for (unsigned char t : tagv[j]) n += zero_arg_size(t);
        tail[j] = n;
        if (n > maxtail) maxtail = n;
    }
    if (maxlen < 0 || maxlen > 64) return "bad-op";
    size_t cap = maxlen + 4 + maxtail;
    Exact B(cap, 0);
    unsigned char *bend = B.p + cap;
    Exact A0(maxlen + 1, 0);
    for (int len = 0; len <= maxlen; ++len) {
        std::vector<int> idx(len, 0);
        size_t apad = len + (4 - len % 4);
        // the address, as a C string that ends where its block ends
        unsigned char *a0 = A0.p + (maxlen - len);
        while (true) {
            for (int i = 0; i < len; ++i) a0[i] = alph[idx[i]];
            a0[len] = 0;
            if (rtosc_match_path(P.c(), (const char *)a0, NULL)) { pc++; mix(ph, a0, len); }
            for (size_t j = 0; j < tagv.size(); ++j) {
                size_t n = apad + tail[j];
                unsigned char *m = bend - n;
                memset(m, 0, n);
                memcpy(m, a0, len);
                m[apad] = ',';
                if (!tagv[j].empty()) memcpy(m + apad + 1, tagv[j].data(), tagv[j].size());
                const char *end = NULL;
                if (rtosc_match(P.c(), (const char *)m, &end)) { mc[j]++; mix(mh[j], a0, len); }
            }
            int k = len - 1;
            while (k >= 0 && ++idx[k] == (int)alph.size()) idx[k--] = 0;
            if (k < 0) break;
        }
    }
    std::ostringstream o;
    o << "X " << pc << " " << ph;
    for (size_t j = 0; j < tagv.size(); ++j) o << " " << mc[j] << ":" << mh[j];
    return o.str();
}

static std::string step(const std::string &line) {
    auto w = words(line);
    if (w.empty()) return "bad-op";
    if (w[0] == "M") return op_M(w, true);
    if (w[0] == "U") return op_M(w, false);
    if (w[0] == "X") return op_X(w);
    return "bad-op";
}
int main(int argc, char **argv) { return run_lines(argc, argv, step); }
