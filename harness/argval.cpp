// Engine `argval` (C16).
//
// Op line:  `<list> <list> [<list>] [ignored tokens starting with '=' or '#' ...]`
//   list  = `-` (empty) | cell{,cell}
//   cell  = i<dec> c<dec> r<dec> h<dec> t<dec> f<8 hex> d<16 hex> m<8 hex>
//           s<hex|-|~> S<hex|-|~>  (`-` empty string, `~` NULL pointer)   b<hex|->
//           T F N I   a<2 hex: element type>.<len>   -<num>.<has_delta>
//   The cells are laid out exactly as the library expects them: an `a` header is followed
//   by <len> cells, a `-` header by [delta] start.  Every list lives in an exact-size heap
//   block (zero-initialised, so padding and unused union bytes are deterministic), every
//   string / blob in its own exact-size block: ASan sees any read past them.
//
// Output: `E <eq of every ordered pair, row-major> C <sign of cmp, same order; `x` see tags> [L <verdict>]
//          I <iteration of list 0>;<list 1>[;<list 2>] M <avmessage bytes of each list | ~k>`
//   (tags `=o1 =o2 =sg =uIJ =law =same01` behind the lists: see step())
//   iteration = what rtosc_arg_val_itr_get returns while itr.i < size (printed as cells, a
//   yielded array as `a<type>[<iteration of its cells>]`);
//   `inf` for lists that contain an infinite range (num == 0), which iteration and
//   rtosc_avmessage do not terminate on;  message `null` when the list holds a NULL string.
#include "common.h"
#include <rtosc/rtosc.h>
#include <rtosc/arg-ext.h>
#include <rtosc/arg-val.h>
#include <rtosc/arg-val-cmp.h>
#include <rtosc/arg-val-itr.h>
#include <rtosc/arg-val-math.h>
#include <memory>
#include <cinttypes>
using namespace vh;

struct AvList {
    rtosc_arg_val_t *av = nullptr;
    size_t n = 0;
    std::vector<void *> owned;
    bool has_inf = false, has_null = false;
    ~AvList() {
        for (void *p : owned) free(p);
        free(av);
    }
};

static bool parse_cell(const std::string &t, rtosc_arg_val_t &c, AvList &L) {
    if (t.empty()) return false;
    char k = t[0];
    std::string r = t.substr(1);
    c.type = k;
    switch (k) {
    case 'i': case 'c': case 'r': {
        if (r.empty()) return false;
        c.val.i = (int32_t)strtoll(r.c_str(), nullptr, 10);
        return true;
    }
    case 'h': {
        if (r.empty()) return false;
        c.val.h = (int64_t)strtoll(r.c_str(), nullptr, 10);
        return true;
    }
    case 't': {
        if (r.empty()) return false;
        c.val.t = (uint64_t)strtoull(r.c_str(), nullptr, 10);
        return true;
    }
    case 'f': {
        if (r.size() != 8) return false;
        uint32_t u = (uint32_t)strtoul(r.c_str(), nullptr, 16);
        memcpy(&c.val.f, &u, 4);
        return true;
    }
    case 'd': {
        if (r.size() != 16) return false;
        uint64_t u = (uint64_t)strtoull(r.c_str(), nullptr, 16);
        memcpy(&c.val.d, &u, 8);
        return true;
    }
    case 'm': {
        bytes b;
        if (!unhex(r, b) || b.size() != 4) return false;
        memcpy(c.val.m, b.data(), 4);
        return true;
    }
    case 's': case 'S': {
        if (r == "~") { c.val.s = NULL; L.has_null = true; return true; }
        bytes b;
        if (!unhex(r, b)) return false;
        char *p = (char *)malloc(b.size() + 1);
        if (!b.empty()) memcpy(p, b.data(), b.size());
        p[b.size()] = 0;
        L.owned.push_back(p);
        c.val.s = p;
        return true;
    }
    case 'b': {
        bytes b;
        if (!unhex(r, b)) return false;
        uint8_t *p = (uint8_t *)malloc(b.size() ? b.size() : 1);
        if (!b.empty()) memcpy(p, b.data(), b.size());
        L.owned.push_back(p);
        c.val.b.len = (int32_t)b.size();
        c.val.b.data = p;
        return true;
    }
    case 'T': c.val.T = 1; return r.empty();
    case 'F': case 'N': case 'I': c.val.T = 0; return r.empty();
    case 'a': {
        size_t dot = r.find('.');
        if (dot != 2) return false;
        bytes ty;
        if (!unhex(r.substr(0, 2), ty)) return false;
        rtosc_av_arr_type_set(&c, (char)ty[0]);
        rtosc_av_arr_len_set(&c, (int32_t)strtol(r.c_str() + 3, nullptr, 10));
        return true;
    }
    case '-': {
        size_t dot = r.find('.');
        if (dot == std::string::npos || dot == 0) return false;
        int32_t num = (int32_t)strtol(r.c_str(), nullptr, 10);
        rtosc_av_rep_num_set(&c, num);
        rtosc_av_rep_has_delta_set(&c, (int32_t)strtol(r.c_str() + dot + 1, nullptr, 10));
        if (num == 0) L.has_inf = true;
        return true;
    }
    }
    return false;
}

static bool parse_list(const std::string &tok, AvList &L) {
    std::vector<std::string> cells;
    if (tok != "-") {
        size_t start = 0;
        while (true) {
            size_t p = tok.find(',', start);
            cells.push_back(tok.substr(start, p == std::string::npos ? p : p - start));
            if (p == std::string::npos) break;
            start = p + 1;
        }
    }
    L.n = cells.size();
    // exact size: reading cell n is a heap overflow
    L.av = (rtosc_arg_val_t *)calloc(L.n ? L.n : 1, L.n ? sizeof(rtosc_arg_val_t) : 1);
    for (size_t i = 0; i < L.n; ++i)
        if (!parse_cell(cells[i], L.av[i], L)) return false;
    return true;
}

static std::string show_cell(const rtosc_arg_val_t *c) {
    char buf[64];
    switch (c->type) {
    case 'i': case 'c': case 'r':
        snprintf(buf, sizeof buf, "%c%" PRId32, c->type, c->val.i);
        return buf;
    case 'h':
        snprintf(buf, sizeof buf, "h%" PRId64, c->val.h);
        return buf;
    case 't':
        snprintf(buf, sizeof buf, "t%" PRIu64, c->val.t);
        return buf;
    case 'f': {
        uint32_t u;
        memcpy(&u, &c->val.f, 4);
        snprintf(buf, sizeof buf, "f%08" PRIx32, u);
        return buf;
    }
    case 'd': {
        uint64_t u;
        memcpy(&u, &c->val.d, 8);
        snprintf(buf, sizeof buf, "d%016" PRIx64, u);
        return buf;
    }
    case 'm': return "m" + hex(c->val.m, 4);
    case 's': case 'S':
        if (!c->val.s) return std::string(1, c->type) + "~";
        return std::string(1, c->type) + hexs(c->val.s);
    case 'b': return "b" + hex(c->val.b.data, (size_t)c->val.b.len);
    case 'T': case 'F': case 'N': case 'I': return std::string(1, c->type);
    case 'a': {
        unsigned char ty = (unsigned char)rtosc_av_arr_type(c);
        snprintf(buf, sizeof buf, "a%02x.%" PRId32, ty, rtosc_av_arr_len(c));
        return buf;
    }
    case '-':
        snprintf(buf, sizeof buf, "-%" PRId32 ".%" PRId32, rtosc_av_rep_num(c), rtosc_av_rep_has_delta(c));
        return buf;
    }
    snprintf(buf, sizeof buf, "?%02x", (unsigned char)c->type);
    return buf;
}

// walk `n` cells the way rtosc_avmessage does and print what the iterator yields; a yielded
// array is printed as `a<type>[<iteration of its own cells>]`
static std::string iterate(const rtosc_arg_val_t *av, size_t n) {
    rtosc_arg_val_itr itr;
    rtosc_arg_val_itr_init(&itr, av);
    std::string out;
    bool first = true;
    size_t steps = 0;
    while (itr.i < n) {
        if (++steps > 10000 || out.size() > (1u << 20)) { out += ",+"; break; }   // runaway guard
        rtosc_arg_val_t buffer;
        memset(&buffer, 0, sizeof buffer);
        const rtosc_arg_val_t *cur = rtosc_arg_val_itr_get(&itr, &buffer);
        if (!first) out += ",";
        first = false;
        if (cur->type == 'a' && cur == &buffer) {
            out += "a[!copy]";   // an array header copied out of its array: elements unreachable
        } else if (cur->type == 'a') {
            char buf[16];
            snprintf(buf, sizeof buf, "a%02x[", (unsigned char)rtosc_av_arr_type(cur));
            out += buf;
            out += iterate(cur + 1, (size_t)rtosc_av_arr_len(cur));
            out += "]";
        } else
            out += show_cell(cur);
        rtosc_arg_val_itr_next(&itr);
    }
    return out;
}

static std::string iterate(const AvList &L) {
    if (L.has_inf) return "inf";
    std::string out = iterate(L.av, L.n);
    return out.empty() ? "-" : out;
}

static std::string message(const AvList &L) {
    if (L.has_inf) return "inf";
    if (L.has_null) return "null";
    size_t need = rtosc_avmessage(NULL, 0, "/p", L.n, L.av);
    if (need > (1u << 20)) return "toolong";
    bytes fill(need, 0xaa);
    Exact buf(fill);    // exactly the size the library asked for
    size_t len = rtosc_avmessage(buf.c(), need, "/p", L.n, L.av);
    if (len == 0) return "toolong";
    return hex(buf.p, len);
}

static int sign(int v) { return v > 0 ? 1 : v < 0 ? -1 : 0; }

// a list that is exactly one value (a scalar cell, or one array with its cells): what the `_single`
// entry points accept
static bool is_single(const AvList &L) {
    if (L.n < 1 || L.av[0].type == '-') return false;
    if (L.av[0].type == 'a') return (size_t)rtosc_av_arr_len(L.av) + 1 == L.n;
    return L.n == 1;
}

// The order laws on the raw signs (the same check as in the driver and, on what is printed, in the
// property module): "ok" or the first law that fails.
static std::string law_verdict(const std::vector<std::vector<int>> &E, const std::vector<std::vector<int>> &C,
                               bool same01) {
    size_t n = E.size();
    auto at = [](const char *w, size_t i, size_t j) {
        return std::string(w) + std::to_string(i) + std::to_string(j);
    };
    for (size_t i = 0; i < n; ++i) {
        if (E[i][i] != 1 || C[i][i] != 0) return at("refl", i, i);
        for (size_t j = 0; j < n; ++j) {
            if (C[i][j] != -C[j][i]) return at("antisym", i, j);
            if ((E[i][j] == 1) != (C[i][j] == 0)) return at("eqcmp", i, j);
        }
    }
    for (size_t i = 0; i < n; ++i)
        for (size_t j = 0; j < n; ++j)
            for (size_t k = 0; k < n; ++k)
                if (C[i][j] <= 0 && C[j][k] <= 0) {
                    if (C[i][k] > 0) return at("trans", i, j) + std::to_string(k);
                    if ((C[i][j] < 0 || C[j][k] < 0) && C[i][k] == 0) return at("strict", i, j) + std::to_string(k);
                }
    if (same01 && n >= 2) {
        if (E[0][1] != 1 || C[0][1] != 0) return "same01";
        for (size_t k = 0; k < n; ++k)
            if (E[0][k] != E[1][k] || E[k][0] != E[k][1] || C[0][k] != C[1][k] || C[k][0] != C[k][1])
                return at("same", 0, k);
    }
    return "ok";
}

// Tags (after the lists):
//   =o1 / =o2   call eq/cmp with get_default_cmp_options() / with an options struct {0.0} on the stack
//               (no tag: opt == NULL); all three are "the default comparison options"
//   =sg         pairs of one-value lists go through rtosc_arg_vals_eq_single / _cmp_single
//   =uIJ        the property states no order for lists I and J (MIDI, colours, different types, NULL
//               string, arrays of different element type, NaN): a non-zero sign is printed as `x`
//   =law        print `L <verdict>`: the order laws (and with =same01 compress-blindness) on the raw signs
static std::string step(const std::string &line) {
    auto w = words(line);
    std::vector<std::unique_ptr<AvList>> ls;
    size_t t = 0;
    for (; t < w.size(); ++t) {
        if (w[t][0] == '=' || w[t][0] == '#') break;
        std::unique_ptr<AvList> L(new AvList);
        if (!parse_list(w[t], *L)) return "bad-op";
        ls.push_back(std::move(L));
    }
    if (ls.size() < 1 || ls.size() > 3) return "bad-op";
    size_t n = ls.size();
    int optk = 0;
    bool sg = false, law = false, same01 = false;
    std::vector<std::vector<bool>> hide(n, std::vector<bool>(n, false));
    for (; t < w.size(); ++t) {
        const std::string &g = w[t];
        if (g[0] == '#') break;
        if (g == "=o1") optk = 1;
        else if (g == "=o2") optk = 2;
        else if (g == "=sg") sg = true;
        else if (g == "=law") law = true;
        else if (g == "=same01") same01 = true;
        else if (g.size() == 4 && g[1] == 'u') {
            size_t i = (size_t)(g[2] - '0'), j = (size_t)(g[3] - '0');
            if (i < n && j < n) hide[i][j] = hide[j][i] = true;
        }
    }
    rtosc_cmp_options stack_opt = {0.0};
    const rtosc_cmp_options *opt = optk == 1 ? get_default_cmp_options() : optk == 2 ? &stack_opt : NULL;
    std::vector<std::vector<int>> E(n, std::vector<int>(n)), C(n, std::vector<int>(n));
    for (size_t i = 0; i < n; ++i)
        for (size_t j = 0; j < n; ++j) {
            AvList &x = *ls[i], &y = *ls[j];
            if (sg && is_single(x) && is_single(y)) {
                E[i][j] = rtosc_arg_vals_eq_single(x.av, y.av, opt);
                C[i][j] = sign(rtosc_arg_vals_cmp_single(x.av, y.av, opt));
            } else {
                E[i][j] = rtosc_arg_vals_eq(x.av, y.av, x.n, y.n, opt);
                C[i][j] = sign(rtosc_arg_vals_cmp(x.av, y.av, x.n, y.n, opt));
            }
        }
    std::ostringstream o;
    o << "E";
    for (size_t i = 0; i < n; ++i)
        for (size_t j = 0; j < n; ++j) o << " " << E[i][j];
    o << " C";
    for (size_t i = 0; i < n; ++i)
        for (size_t j = 0; j < n; ++j) {
            if (hide[i][j] && C[i][j] != 0) o << " x";
            else o << " " << C[i][j];
        }
    if (law) o << " L " << law_verdict(E, C, same01);
    o << " I ";
    for (size_t i = 0; i < n; ++i) o << (i ? ";" : "") << iterate(*ls[i]);
    o << " M";
    // The property says that the message does not depend on the layout, not what an array looks like in a
    // message: for a list with an array only "same bytes as list k of this line" is printed.
    std::vector<std::string> ms;
    for (auto &x : ls) ms.push_back(message(*x));
    for (size_t i = 0; i < n; ++i) {
        bool has_arr = false;
        for (size_t c = 0; c < ls[i]->n; ++c) has_arr |= ls[i]->av[c].type == 'a';
        if (!has_arr || ms[i] == "inf" || ms[i] == "null") { o << " " << ms[i]; continue; }
        size_t k = 0;
        while (ms[k] != ms[i]) ++k;
        o << " ~" << k;
    }
    return o.str();
}

// The op lines are processed in a forked worker; when the worker dies on a line (sanitizer abort,
// signal, exit(1) inside the library) that line's output becomes `crash:<kind>` and a new worker
// continues with the next line, so a defect that crashes on many inputs still yields one output
// line per op line.
#include <unistd.h>
#include <sys/wait.h>
int main(int argc, char **argv) {
    if (argc < 2) { fprintf(stderr, "usage: %s <ops-file>\n", argv[0]); return 2; }
    std::vector<std::string> ops;
    {
        std::ifstream in(argv[1]);
        std::string line;
        while (std::getline(in, line))
            if (!line.empty() && line[0] != '#') ops.push_back(line);
    }
    size_t next = 0, crashes = 0;
    while (next < ops.size()) {
        if (crashes >= 40) {   // give up on a tree that crashes everywhere: still one line per op
            for (; next < ops.size(); ++next) puts("crash:skipped");
            break;
        }
        int fd[2];
        if (pipe(fd) != 0) return 3;
        fflush(stdout);
        pid_t pid = fork();
        if (pid < 0) return 3;
        if (pid == 0) {
            close(fd[0]);
            alarm(3);    // a hanging library call ends as crash:signal:14
            FILE *o = fdopen(fd[1], "w");
            for (size_t i = next; i < ops.size(); ++i) {
                std::string out = step(ops[i]);
                alarm(3);
                fputs(out.c_str(), o);
                fputc('\n', o);
                fflush(o);
            }
            fclose(o);
            _exit(0);
        }
        close(fd[1]);
        FILE *in = fdopen(fd[0], "r");
        std::string cur;
        int ch;
        while ((ch = fgetc(in)) != EOF) {
            if (ch == '\n') {
                fputs(cur.c_str(), stdout);
                fputc('\n', stdout);
                cur.clear();
                ++next;
            } else
                cur.push_back((char)ch);
        }
        fclose(in);
        int status = 0;
        waitpid(pid, &status, 0);
        if (next < ops.size()) {   // the worker died on line `next`
            char kind[64];
            if (WIFSIGNALED(status)) snprintf(kind, sizeof kind, "crash:signal:%d", WTERMSIG(status));
            else if (WEXITSTATUS(status) == 99) snprintf(kind, sizeof kind, "crash:asan");
            else if (WEXITSTATUS(status) == 98) snprintf(kind, sizeof kind, "crash:ubsan");
            else snprintf(kind, sizeof kind, "crash:exit:%d", WEXITSTATUS(status));
            puts(kind);
            ++next;
            ++crashes;
        }
    }
    fflush(stdout);
    return 0;
}
