// C03 — the realtime entry points.  tools/callgraph.py takes every function of namespace
// `rte` as an entry of the call graph (plus the library API symbols themselves); the
// dynamic engine harness/rt.cpp executes exactly these functions inside its marked
// realtime section.  Every function works on caller-provided storage only.
#ifndef VERIF_RT_ENTRIES_H
#define VERIF_RT_ENTRIES_H
#include "rt_tree.h"
#include <cstdarg>
#include <cstdint>

namespace rte {

// ---- building -------------------------------------------------------------------------
size_t build_array(char *buf, size_t cap, const char *addr, const char *types, const rtosc_arg_t *args);
size_t build_valist(char *buf, size_t cap, const char *addr, const char *types, va_list va);
// literal `rtosc_message(buf, cap, addr, "<sig>", ...)` call sites; sig index into LIT_SIGS
extern const char *const LIT_SIGS[];
extern const int N_LIT_SIGS;
size_t build_literal(char *buf, size_t cap, const char *addr, int sig, const rtosc_arg_t *a);

// ---- measuring ------------------------------------------------------------------------
struct Measure { size_t len, ring_len, null_len; bool valid; };
void measure(const char *msg, size_t len, size_t split, const char *addr, const char *types,
             const rtosc_arg_t *args, Measure *out);

// ---- reading --------------------------------------------------------------------------
// every accessor on every argument; returns a checksum over what was read
uint64_t read_all(const char *msg, unsigned *nargs_out);

// ---- bundles --------------------------------------------------------------------------
size_t bundle_build(char *buf, size_t cap, uint64_t tt, int n, const char *const *elms);
uint64_t bundle_read(const char *b, size_t len, unsigned *nelms_out);

// ---- matching -------------------------------------------------------------------------
unsigned match_all(const char *pattern, const char *msg);

// ---- dispatch -------------------------------------------------------------------------
void dispatch_loc(const rtosc::Ports *p, const char *m, rtosc::RtData *d, bool base);
void dispatch_noloc(const rtosc::Ports *p, const char *m, rtosc::RtData *d, bool base);

// ---- default RtData reply / broadcast forwarding ---------------------------------------
void reply_forward(rtosc::RtData *d, const char *path, int sig, const rtosc_arg_t *a, const char *types);

// ---- ThreadLink -------------------------------------------------------------------------
void   tl_write_literal(rtosc::ThreadLink *l, const char *addr, int sig, const rtosc_arg_t *a);
void   tl_write_array(rtosc::ThreadLink *l, const char *addr, const char *types, const rtosc_arg_t *a);
void   tl_raw_write(rtosc::ThreadLink *l, const char *msg);
int    tl_has_next(rtosc::ThreadLink *l, int lookahead);
size_t tl_read(rtosc::ThreadLink *l, int lookahead, uint64_t *sum);   // returns length of the message read
size_t tl_peak(rtosc::ThreadLink *l);

// ---- metadata views used by the sugar callbacks, directly -------------------------------
int    meta_queries(const rtosc::Port *p, const char *key, const char *value);
}
#endif
