// Engine `path` (C18): Ports::collapsePath, Ports::apropos, Ports::operator[], and both
// rtosc::path_search overloads on dynamically built port tables.  Every string and
// metadata block lives in an exact-size heap allocation (vh::Exact), the types/args
// arrays and the reply buffer are exact-size too, so ASan sees any access outside.
// Protocol: see lean/Driver/PathEngine.lean.
#include "common.h"
#include <rtosc/ports.h>
#include <rtosc/rtosc.h>
#include <memory>
#include <algorithm>
using namespace vh;

struct DynPorts : rtosc::Ports {
    DynPorts() : rtosc::Ports({}) {}
    void add(const char *n, const char *m, const rtosc::Ports *sub) {
        ports.push_back(rtosc::Port{n, m, sub, nullptr});
    }
    void done() { refreshMagic(); }
};

struct Tree {
    std::vector<std::unique_ptr<Exact>> blocks;
    std::vector<std::unique_ptr<DynPorts>> tables;
    const char *keep(bytes b, bool terminate) {
        if (terminate) b.push_back(0);
        blocks.emplace_back(new Exact(b));
        return blocks.back()->c();
    }
};

static bytes trunc(const bytes &b) {
    bytes o;
    for (unsigned char c : b) { if (!c) break; o.push_back(c); }
    return o;
}

// recursive descent over the tree syntax
static DynPorts *parse_ports(const std::string &s, size_t &i, Tree &t);
static bool parse_port(const std::string &s, size_t &i, Tree &t, DynPorts *into) {
    size_t j = s.find(';', i);
    if (j == std::string::npos) return false;
    bytes name;
    if (!unhex(s.substr(i, j - i), name)) return false;
    i = j + 1;
    j = s.find(';', i);
    if (j == std::string::npos) return false;
    std::string m = s.substr(i, j - i);
    const char *md = nullptr;
    if (m != "N") {
        bytes mb;
        if (!unhex(m, mb)) return false;
        md = t.keep(mb, false);
    }
    i = j + 1;
    const rtosc::Ports *sub = nullptr;
    if (i < s.size() && s[i] == '0') ++i;
    else {
        sub = parse_ports(s, i, t);
        if (!sub) return false;
    }
    into->add(t.keep(trunc(name), true), md, sub);
    return true;
}
static DynPorts *parse_ports(const std::string &s, size_t &i, Tree &t) {
    if (i >= s.size() || s[i] != '[') return nullptr;
    ++i;
    t.tables.emplace_back(new DynPorts());
    DynPorts *p = t.tables.back().get();
    if (i < s.size() && s[i] == ']') { ++i; p->done(); return p; }
    while (true) {
        if (!parse_port(s, i, t, p)) return nullptr;
        if (i < s.size() && s[i] == ',') { ++i; continue; }
        if (i < s.size() && s[i] == ']') { ++i; break; }
        return nullptr;
    }
    p->done();
    return p;
}

static bool find_port(const rtosc::Ports *tab, const rtosc::Port *needle, std::string &path) {
    for (size_t i = 0; i < tab->ports.size(); ++i) {
        const rtosc::Port *p = &tab->ports[i];
        if (p == needle) { path = std::to_string(i); return true; }
        if (p->ports) {
            std::string below;
            if (find_port(p->ports, needle, below)) { path = std::to_string(i) + "." + below; return true; }
        }
    }
    return false;
}

typedef std::vector<std::string> strs;
static std::string join(const strs &v) {
    if (v.empty()) return "-";
    std::string o;
    for (size_t i = 0; i < v.size(); ++i) { if (i) o += ","; o += v[i]; }
    return o;
}
// blobs inside runs of equal names in sorted order (std::sort is not stable)
static strs canon(bool do_canon, bool query, const strs &a) {
    size_t first = query ? std::min<size_t>(2, a.size()) : 0;
    strs out(a.begin(), a.begin() + first);
    std::vector<std::pair<std::string, std::string>> pairs;
    for (size_t i = first; i + 1 < a.size(); i += 2) pairs.push_back({a[i], a[i + 1]});
    if (do_canon)
        for (size_t i = 0; i < pairs.size();) {
            size_t j = i;
            while (j < pairs.size() && pairs[j].first == pairs[i].first) ++j;
            strs bl;
            for (size_t k = i; k < j; ++k) bl.push_back(pairs[k].second);
            std::sort(bl.begin(), bl.end());
            for (size_t k = i; k < j; ++k) pairs[k].second = bl[k - i];
            i = j;
        }
    for (auto &p : pairs) { out.push_back(p.first); out.push_back(p.second); }
    return out;
}
static bool distinct_names(bool query, const strs &a) {
    strs names;
    for (size_t i = query ? 2 : 0; i + 1 < a.size(); i += 2) names.push_back(a[i]);
    std::sort(names.begin(), names.end());
    return std::adjacent_find(names.begin(), names.end()) == names.end();
}

static std::string step(const std::string &line) {
    auto w = words(line);
    if (w.empty()) return "bad-op";
    if (w[0] == "C" && w.size() >= 2) {
        bytes mem;
        if (!unhex(w[1], mem)) return "bad-op";
        Exact m(mem);
        char *r = rtosc::Ports::collapsePath(m.c());
        return "C " + std::to_string((long)(r - m.c())) + " " + hexs(r);
    }
    if ((w[0] == "A" || w[0] == "I") && w.size() >= 3) {
        Tree t;
        size_t i = 0;
        DynPorts *root = parse_ports(w[1], i, t);
        bytes path;
        if (!root || i != w[1].size() || !unhex(w[2], path)) return "bad-op";
        const char *p = t.keep(trunc(path), true);
        if (w[0] == "I") {
            const rtosc::Port *r = (*(const rtosc::Ports *)root)[p];
            if (!r) return "I NULL";
            return "I " + std::to_string((long)(r - &root->ports[0]));
        }
        const rtosc::Port *r = root->apropos(p);
        // E=?: the property does not constrain this address; only memory safety is observed
        if (w.size() >= 4 && w[3] == "E=?") return "A *";
        if (!r) return "A NULL";
        std::string ix;
        if (!find_port(root, r, ix)) return "A foreign-pointer";
        return "A " + ix;
    }
    if (w[0] == "S" && w.size() >= 8) {
        Tree t;
        size_t i = 0;
        DynPorts *root = parse_ports(w[1], i, t);
        bytes str, needle;
        if (!root || i != w[1].size() || !unhex(w[2], str)) return "bad-op";
        bool null_needle = w[3] == "N";
        if (!null_needle && !unhex(w[3], needle)) return "bad-op";
        int opt = atoi(w[4].c_str());
        if (opt < 0 || opt > 2) return "bad-op";
        bool query = w[5] == "1";
        size_t max_ports = strtoul(w[6].c_str(), 0, 10), bufsize = strtoul(w[7].c_str(), 0, 10);
        rtosc::path_search_opts o = opt == 0 ? rtosc::path_search_opts::unmodified
                                  : opt == 1 ? rtosc::path_search_opts::sorted
                                             : rtosc::path_search_opts::sorted_and_unique_prefix;
        const char *s = t.keep(trunc(str), true);
        const char *n = null_needle ? nullptr : t.keep(trunc(needle), true);
        std::string out = "S ";
        bool free_loc = w.size() < 9 || w[8] == "E=?";   // location the property does not constrain
        {   // array overload
            size_t max_args = max_ports << 1, max_types = max_args + 1;
            Exact types(max_types, 0x55);
            rtosc_arg_t *args = (rtosc_arg_t *)malloc(max_args * sizeof(rtosc_arg_t));
            memset(args, 0x55, max_args * sizeof(rtosc_arg_t));
            rtosc::path_search(*root, s, n, types.c(), max_types, args, max_args, o, query);
            strs a;
            std::string ty;
            for (size_t k = 0; types.c()[k]; ++k) {
                char c = types.c()[k];
                ty.push_back(c);
                if (c == 's') a.push_back(args[k].s ? "s:" + hexs(args[k].s) : std::string("s:NULL"));
                else if (c == 'b')
                    // an empty blob is printed as b:- whatever its data pointer is
                    a.push_back(args[k].b.len == 0 ? std::string("b:-")
                                : args[k].b.data ? "b:" + hex(args[k].b.data, (size_t)args[k].b.len)
                                                 : "b:NULL+" + std::to_string((long)args[k].b.len));
                else a.push_back("?");
            }
            free(args);
            out += "T=" + (ty.empty() ? std::string("-") : ty) + " A=" + join(canon(opt != 0, query, a));
        }
        out += " | ";
        {   // message overload
            const char *n2 = null_needle ? "" : n;
            size_t qlen = rtosc_message(NULL, 0, "/path-search", "ss", s, n2);
            Exact q(qlen, 0);
            rtosc_message(q.c(), qlen, "/path-search", "ss", s, n2);
            Exact reply(bufsize, 0x55);
            size_t len = rtosc::path_search(*root, q.c(), max_ports, reply.c(), bufsize, o, query);
            if (len == 0) out += "M=0";
            else {
                const char *m = reply.c();
                std::string ty = rtosc_argument_string(m);
                unsigned na = rtosc_narguments(m);
                strs a;
                for (unsigned k = 0; k < na; ++k) {
                    char c = rtosc_type(m, k);
                    rtosc_arg_t v = rtosc_argument(m, k);
                    if (c == 's') a.push_back("s:" + hexs(v.s));
                    else if (c == 'b') a.push_back("b:" + hex(v.b.data, (size_t)v.b.len));
                    else a.push_back("?");
                }
                bool raw = opt == 0 || distinct_names(query, a);
                out += "M=" + std::to_string(len) + " D=" + hexs(m) + "/" + (ty.empty() ? std::string("-") : ty) + "/" +
                       join(canon(opt != 0, query, a)) + " X=" + (raw ? hex((const unsigned char *)m, len) : std::string("-"));
            }
        }
        if (free_loc) return "S *";
        return out;
    }
    return "bad-op";
}
int main(int argc, char **argv) { return run_lines(argc, argv, step); }
