// Engine `walk` (C09): rtosc::walk_ports
//   W: on dynamically built port tables (subclass of rtosc::Ports, push_back, refreshMagic) with
//      runtime == NULL.  Every port name and metadata block lives in an exact-size heap block
//      and the caller's name buffer is exactly the block of the op line, so ASan sees any
//      access outside.
//   R: on the compiled trees of walk_rt.h (real rRecur/rRecurp/rRecurs/rRecursp/rSelf/
//      rEnabledBy macros) with a runtime object configured from the op line.
//   D: on a dynamically built table with a runtime object: an abstract object tree from the op line;
//      the harness' own callbacks answer the "pointer" and "enabled by" queries from it.
//   T: prints the shape of a compiled tree (used by tools/props/c09.py only).
//   Trailing tokens of W and R:  sz=<n> the buffer_size argument (default: the size of the block);
//      opt=<pairs> reports that the statement leaves open, dropped from the output.
// Observables: the (port, address) pairs handed to the walker callback, as a sorted list (the
// property fixes no order); the string in the buffer afterwards; for every pair which leaf
// callbacks run when the address is sent back as a message (W, D: Ports::dispatch without location
// buffer and again with one — linear search resp. the lookup strategy the library picked for each
// table — and the harness' own callbacks; R: Ports::dispatch with location buffer and the sugar
// callbacks).
// Protocol: see lean/Driver/WalkEngine.lean.
#include "common.h"
#include "walk_rt.h"
#include <rtosc/ports.h>
#include <rtosc/rtosc.h>
#include <memory>
#include <map>
#include <cstdarg>
#include <algorithm>
using namespace vh;

static std::vector<std::string> g_hits;

struct DynPorts : rtosc::Ports {
    std::string prefix;          // index path of this table ("" for the root)
    DynPorts() : rtosc::Ports({}) {}
    void add(const rtosc::Port &p) { ports.push_back(p); }
    void done() { refreshMagic(); }
};

struct Tree {
    std::vector<std::unique_ptr<Exact>> blocks;
    std::vector<std::unique_ptr<DynPorts>> tables;
    std::map<const rtosc::Port *, std::string> ix;
    // some port with a sub-table has a name without trailing '/' (test/walk-ports.cpp has such tables): dispatch
    // enters its sub-table without consuming the component, so `loc` can grow beyond "/" + address
    bool slashless = false;
    const char *keep(bytes b, bool terminate) {
        if (terminate) b.push_back(0);
        blocks.emplace_back(new Exact(b));
        return blocks.back()->c();
    }
    void index() {
        for (auto &t : tables)
            for (size_t i = 0; i < t->ports.size(); ++i)
                ix[&t->ports[i]] = (t->prefix.empty() ? std::string() : t->prefix + ".") + std::to_string(i);
    }
};

static bytes trunc(const bytes &b) {
    bytes o;
    for (unsigned char c : b) { if (!c) break; o.push_back(c); }
    return o;
}

static int slash_count(const bytes &name) {
    int k = 0;
    for (unsigned char c : name) { if (c == ':') break; if (c == '/') ++k; }
    return k;
}

static DynPorts *parse_ports(const std::string &s, size_t &i, Tree &t, const std::string &prefix);
static bool parse_port(const std::string &s, size_t &i, Tree &t, DynPorts *into, const std::string &ixs) {
    size_t j = s.find(';', i);
    if (j == std::string::npos) return false;
    bytes name;
    if (!unhex(s.substr(i, j - i), name)) return false;
    name = trunc(name);
    i = j + 1;
    j = s.find(';', i);
    if (j == std::string::npos) return false;
    std::string m = s.substr(i, j - i);
    const char *md = nullptr;
    if (m != "N") {
        bytes mb;
        if (!unhex(m, mb)) return false;
        md = t.keep(mb, false);
    }
    i = j + 1;
    const char *nm = t.keep(name, true);
    // With a runtime object (op D: RtData::obj points to a wrt::Spec) the callbacks behave like
    // port-sugar's: a leaf replies its value ("T"/"F" if its type part has a 'T', else "i"), a
    // sub-tree port replaces the object by its child object (or NULL) and hands the rest on.
    if (i < s.size() && s[i] == '0') {
        ++i;
        std::string key;
        for (unsigned char c : name) { if (c == ':') break; key.push_back((char)c); }
        bool toggle = false, colon = false;
        for (unsigned char c : name) { if (c == ':') colon = true; else if (colon && c == 'T') toggle = true; }
        into->add(rtosc::Port{nm, md, nullptr, [ixs, key, toggle](const char *, rtosc::RtData &d) {
            if (!d.obj) { g_hits.push_back(ixs); return; }
            const wrt::Spec *o = (const wrt::Spec *)d.obj;
            if (toggle) d.reply(d.loc, o->toggle(key.c_str()) ? "T" : "F");
            else d.reply(d.loc, "i", o->val(key.c_str()));
        }});
    } else {
        DynPorts *sub = parse_ports(s, i, t, ixs);
        if (!sub) return false;
        int k = slash_count(name);
        {
            size_t e = 0;
            while (e < name.size() && name[e] != ':') ++e;
            if (e == 0 || name[e - 1] != '/') t.slashless = true;
        }
        into->add(rtosc::Port{nm, md, sub, [sub, k](const char *msg, rtosc::RtData &d) {
            const char *m0 = msg;
            for (int q = 0; q < k; ++q) {
                while (*msg && *msg != '/') ++msg;
                msg = *msg ? msg + 1 : msg;
            }
            if (d.obj) {
                bool present = false;
                const wrt::Spec *c = ((const wrt::Spec *)d.obj)->kid(std::string(m0, msg - m0), present);
                d.obj = (void *)c;
                if (!c) return;
            }
            sub->dispatch(msg, d, false);
        }});
    }
    return true;
}
static DynPorts *parse_ports(const std::string &s, size_t &i, Tree &t, const std::string &prefix) {
    if (i >= s.size() || s[i] != '[') return nullptr;
    ++i;
    t.tables.emplace_back(new DynPorts());
    DynPorts *p = t.tables.back().get();
    p->prefix = prefix;
    if (i < s.size() && s[i] == ']') { ++i; p->done(); return p; }
    size_t row = 0;
    while (true) {
        std::string ixs = (prefix.empty() ? std::string() : prefix + ".") + std::to_string(row);
        if (!parse_port(s, i, t, p, ixs)) return nullptr;
        ++row;
        if (i < s.size() && s[i] == ',') { ++i; continue; }
        if (i < s.size() && s[i] == ']') { ++i; break; }
        return nullptr;
    }
    p->done();
    return p;
}

struct Call { const rtosc::Port *port; std::string addr; };
static void walker(const rtosc::Port *p, const char *name, const char *, const rtosc::Ports &, void *data, void *) {
    ((std::vector<Call> *)data)->push_back(Call{p, name});
}

static std::string first_tags(const char *name) {
    const char *c = strchr(name, ':');
    if (!c) return "";
    ++c;
    std::string t;
    while (*c && *c != ':') t.push_back(*c++);
    return t;
}

// the message for `addr` with type string `tags` and all-zero arguments, in a block of
// exactly its length plus 8 spare NUL bytes
static std::unique_ptr<Exact> zero_message(const std::string &addr, const std::string &tags, bool &ok) {
    std::vector<rtosc_arg_t> args(tags.size() + 1);
    memset(args.data(), 0, args.size() * sizeof(rtosc_arg_t));
    for (size_t i = 0; i < tags.size(); ++i)
        if (tags[i] == 's' || tags[i] == 'S') args[i].s = "";
    size_t len = rtosc_amessage(NULL, 0, addr.c_str(), tags.c_str(), args.data());
    std::unique_ptr<Exact> m(new Exact(len + 8, 0));
    size_t w = rtosc_amessage(m->c(), len, addr.c_str(), tags.c_str(), args.data());
    ok = (w == len && len != 0);
    return m;
}

static std::string join(const std::vector<std::string> &v, const char *sep) {
    if (v.empty()) return "-";
    std::string o;
    for (size_t i = 0; i < v.size(); ++i) { if (i) o += sep; o += v[i]; }
    return o;
}

// ">" + the leaf callbacks that run when `msg` (address `rel`) is dispatched without a location buffer
// (every table is searched linearly) + ">" + the same with a location buffer, where every table is
// looked up with the strategy the library picked for it (perfect hash or linear).  The buffer is an
// exact-size block for "/" + address + terminator (256 bytes more for a tree with a sub-tree name that
// lacks its trailing '/').
static std::string dispatch_both(const rtosc::Ports *root, const char *msg, const std::string &rel, bool slashless) {
    std::string out;
    {
        g_hits.clear();
        rtosc::RtData d;
        d.loc = nullptr; d.loc_size = 0; d.obj = nullptr;
        root->dispatch(msg, d, true);
        out += ">" + join(g_hits, "+");
    }
    {
        g_hits.clear();
        Exact loc(rel.size() + 1 + (slashless ? 256 : 0), 0x55);
        rtosc::RtData d;
        d.loc = loc.c(); d.loc_size = loc.n; d.obj = nullptr;
        root->dispatch(msg, d, true);
        out += ">" + join(g_hits, "+");
    }
    return out;
}

// ---------------------------------------------------------------- compiled trees
static std::string meta_block(const char *md) {
    if (!md) return "N";
    if (!md[0]) return "00";
    size_t n = 0;
    while (md[n] || md[n + 1]) ++n;
    return hex((const unsigned char *)md, n + 2);
}
static std::string show_ports(const rtosc::Ports *t) {
    std::string o = "[";
    for (size_t i = 0; i < t->ports.size(); ++i) {
        const rtosc::Port &p = t->ports[i];
        if (i) o += ",";
        o += hexs(p.name) + ";" + meta_block(p.metadata) + ";" + (p.ports ? show_ports(p.ports) : std::string("0"));
    }
    return o + "]";
}

static bool parse_spec(const std::string &s, size_t &i, wrt::Spec &out) {
    if (i >= s.size() || s[i] != '{') return false;
    ++i;
    if (i < s.size() && s[i] == '-') ++i;
    else while (true) {
        size_t j = s.find('=', i);
        if (j == std::string::npos || j + 1 >= s.size()) return false;
        bytes n;
        if (!unhex(s.substr(i, j - i), n)) return false;
        // <name>=0 | <name>=1 (a toggle), <name>=i<decimal> (an integer parameter)
        if (s[j + 1] == 'i') {
            size_t e = j + 2;
            if (e < s.size() && s[e] == '-') ++e;
            size_t d0 = e;
            while (e < s.size() && isdigit((unsigned char)s[e])) ++e;
            if (e == d0) return false;
            out.tog[std::string(n.begin(), n.end())] = (int)strtol(s.c_str() + j + 2, nullptr, 10);
            i = e;
        } else {
            out.tog[std::string(n.begin(), n.end())] = s[j + 1] == '1';
            i = j + 2;
        }
        if (i < s.size() && s[i] == ',') { ++i; continue; }
        break;
    }
    if (i >= s.size() || s[i] != '|') return false;
    ++i;
    if (i < s.size() && s[i] == '-') ++i;
    else while (true) {
        size_t j = s.find('=', i);
        if (j == std::string::npos || j + 1 >= s.size()) return false;
        bytes n;
        if (!unhex(s.substr(i, j - i), n)) return false;
        std::string key(n.begin(), n.end());
        i = j + 1;
        if (s[i] == 'N') { out.kids[key] = nullptr; ++i; }
        else {
            std::unique_ptr<wrt::Spec> k(new wrt::Spec());
            if (!parse_spec(s, i, *k)) return false;
            out.kids[key] = std::move(k);
        }
        if (i < s.size() && s[i] == ',') { ++i; continue; }
        break;
    }
    if (i >= s.size() || s[i] != '}') return false;
    ++i;
    return true;
}

// index path of `target`, reached from `tab` along the address `rel`
static std::string navigate(const rtosc::Ports *tab, const char *rel, const rtosc::Port *target) {
    for (size_t i = 0; i < tab->ports.size(); ++i) {
        const rtosc::Port &r = tab->ports[i];
        const char *end = nullptr;
        if (!rtosc_match_path(r.name, rel, &end)) continue;
        if (!r.ports) {
            if (&r == target) return std::to_string(i);
        } else {
            std::string below = navigate(r.ports, end, target);
            if (!below.empty()) return std::to_string(i) + "." + below;
        }
    }
    return "";
}

struct Rec : rtosc::RtData {
    std::vector<const rtosc::Port *> hit;
    void mark() { hit.push_back(port); }
    void replyArray(const char *, const char *, rtosc_arg_t *) override { mark(); }
    void reply(const char *, const char *, ...) override { mark(); }
    void reply(const char *) override { mark(); }
    void broadcast(const char *, const char *, ...) override { mark(); }
    void broadcast(const char *) override { mark(); }
    void broadcastArray(const char *, const char *, rtosc_arg_t *) override { mark(); }
};

// ---------------------------------------------------------------- ops
// trailing tokens of an op line:  sz=<n>  the buffer_size handed to walk_ports (default: the size
// of the block);  opt=<i.j.k>:<address-hex>{,…}  reports the statement leaves open (the toggle of a
// table that is switched off): one report of each listed pair is dropped from the output
struct Extra { size_t size; std::vector<std::string> opt; };
static Extra extras(const std::vector<std::string> &w, size_t from, size_t block) {
    Extra e{block, {}};
    for (size_t i = from; i < w.size(); ++i) {
        if (w[i].compare(0, 3, "sz=") == 0) {
            size_t v = strtoul(w[i].c_str() + 3, nullptr, 10);
            if (v < e.size) e.size = v;
        } else if (w[i].compare(0, 4, "opt=") == 0) {
            std::string l = w[i].substr(4);
            size_t a = 0;
            while (a < l.size() && l != "-") {
                size_t b = l.find(',', a);
                if (b == std::string::npos) b = l.size();
                e.opt.push_back(l.substr(a, b - a));
                a = b + 1;
            }
        }
    }
    return e;
}
// the calls as a sorted list (the statement fixes no order) without the reports left open
static std::string finish(std::vector<std::string> cs, const Extra &ex, Exact &buf) {
    for (auto &o : ex.opt)
        for (size_t i = 0; i < cs.size(); ++i)
            if (cs[i].compare(0, o.size(), o) == 0 && (cs[i].size() == o.size() || cs[i][o.size()] == '>')) {
                cs.erase(cs.begin() + i);
                break;
            }
    std::sort(cs.begin(), cs.end());
    // the string in the caller's buffer afterwards (running off the block is a crash)
    return "W " + std::to_string(cs.size()) + " " + join(cs, ",") + " B=" + hexs(buf.c());
}

static std::string step(const std::string &line) {
    auto w = words(line);
    if (w.empty()) return "bad-op";
    if (w[0] == "T" && w.size() >= 2) {
        const rtosc::Ports *p = wrt::tree_ports(atoi(w[1].c_str()));
        return p ? "T " + show_ports(p) : std::string("T none");
    }
    if (w[0] == "W" && w.size() >= 4) {
        Tree t;
        size_t i = 0;
        DynPorts *root = parse_ports(w[1], i, t, "");
        bytes mem;
        if (!root || i != w[1].size() || !unhex(w[2], mem) || w[3].size() != 2) return "bad-op";
        t.index();
        bool expand = w[3][0] == '1', ranges = w[3][1] == '1';
        Exact buf(mem);
        Extra ex = extras(w, 4, buf.n);
        // the prefix the buffer starts with (the root '/' for an empty buffer)
        size_t pref = strnlen(buf.c(), buf.n);
        if (pref == 0) pref = 1;
        std::vector<Call> calls;
        rtosc::walk_ports(root, buf.c(), ex.size, &calls, walker, expand, nullptr, ranges);
        std::vector<std::string> cs;
        for (auto &c : calls) {
            auto it = t.ix.find(c.port);
            std::string s = (it == t.ix.end() ? std::string("?") : it->second) + ":" + hexs(c.addr.c_str());
            if (expand && !ranges) {
                std::string rel = "/" + (c.addr.size() >= pref ? c.addr.substr(pref) : std::string());
                bool ok = false;
                auto msg = zero_message(rel, first_tags(c.port->name), ok);
                if (!ok) s += ">nomsg";
                else s += dispatch_both(root, msg->c(), rel, t.slashless);
            }
            cs.push_back(s);
        }
        return finish(cs, ex, buf);
    }
    if (w[0] == "D" && w.size() >= 4) {
        // a dynamic table walked with a runtime object
        Tree t;
        size_t i = 0, j = 0;
        DynPorts *root = parse_ports(w[1], i, t, "");
        wrt::Spec spec;
        bytes mem;
        if (!root || i != w[1].size() || !parse_spec(w[2], j, spec) || j != w[2].size() || !unhex(w[3], mem)) return "bad-op";
        t.index();
        Exact buf(mem);
        Extra ex = extras(w, 4, buf.n);
        size_t pref = strnlen(buf.c(), buf.n);
        if (pref == 0) pref = 1;
        std::vector<Call> calls;
        rtosc::walk_ports(root, buf.c(), ex.size, &calls, walker, true, &spec, false);
        std::vector<std::string> cs;
        for (auto &c : calls) {
            auto it = t.ix.find(c.port);
            std::string s = (it == t.ix.end() ? std::string("?") : it->second) + ":" + hexs(c.addr.c_str());
            std::string rel = "/" + (c.addr.size() >= pref ? c.addr.substr(pref) : std::string());
            bool ok = false;
            auto msg = zero_message(rel, first_tags(c.port->name), ok);
            if (!ok) s += ">nomsg";
            else s += dispatch_both(root, msg->c(), rel, t.slashless);
            cs.push_back(s);
        }
        return finish(cs, ex, buf);
    }
    if (w[0] == "R" && w.size() >= 5) {
        int id = atoi(w[1].c_str());
        const rtosc::Ports *ports = wrt::tree_ports(id);
        if (!ports) return "bad-op";
        if (show_ports(ports) != w[2]) return "tree-mismatch";
        wrt::Spec spec;
        size_t i = 0;
        bytes mem;
        if (!parse_spec(w[3], i, spec) || i != w[3].size() || !unhex(w[4], mem)) return "bad-op";
        wrt::Instance inst;
        if (!inst.make(id, spec)) return "bad-spec";
        Exact buf(mem);
        Extra ex = extras(w, 5, buf.n);
        size_t pref = strnlen(buf.c(), buf.n);
        if (pref == 0) pref = 1;
        std::vector<Call> calls;
        rtosc::walk_ports(ports, buf.c(), ex.size, &calls, walker, true, inst.obj, false);
        std::vector<std::string> cs;
        for (auto &c : calls) {
            std::string rel = c.addr.size() >= pref ? c.addr.substr(pref) : std::string();
            std::string ix = navigate(ports, rel.c_str(), c.port);
            std::string s = (ix.empty() ? std::string("?") : ix) + ":" + hexs(c.addr.c_str());
            bool ok = false;
            std::string abs = "/" + rel;
            auto msg = zero_message(abs, first_tags(c.port->name), ok);
            if (!ok) s += ">nomsg";
            else {
                Rec d;
                Exact loc(1024, 0);
                d.loc = loc.c(); d.loc_size = loc.n; d.obj = inst.obj;
                ports->dispatch(msg->c(), d, true);
                std::vector<std::string> hs;
                for (auto *p : d.hit) {
                    std::string h = navigate(ports, rel.c_str(), p);
                    hs.push_back(h.empty() ? std::string("?") : h);
                }
                s += ">" + join(hs, "+");
            }
            cs.push_back(s);
        }
        return finish(cs, ex, buf);
    }
    return "bad-op";
}
int main(int argc, char **argv) { return run_lines(argc, argv, step); }
