// Compiled port trees for the runtime clause of C09 (engine `walk`, op `R`): the real
// rRecur / rRecurp / rRecurs / rRecursp / rSelf / rEnabledBy macros of port-sugar.h, a fixed
// but rich set of object trees: guards by toggles and by integer parameters (at the level of the
// guarded port, inside the guarded sub-tree, on a table's own self: port, on an enumerated
// sub-tree port), member names with digits in front of the '#', indices with two digits.
// The documentation string of every sub-tree port says whether its object is embedded ("embedded": never NULL) or held by pointer ("pointer").
// tools/props/c09.py reads the shape of these trees from the harness itself (op `T`).
#pragma once
#include <rtosc/ports.h>
#include <rtosc/port-sugar.h>
#include <rtosc/rtosc.h>
#include <map>
#include <memory>
#include <string>
#include <vector>

#undef rChangeCb
#define rChangeCb

namespace wrt {

// abstract runtime description parsed from the op line
struct Spec {
    std::map<std::string, int> tog;                      // answer of a toggle (0/1) or of an integer parameter
    std::map<std::string, std::unique_ptr<Spec>> kids;   // value == nullptr: NULL pointer
    int val(const char *n) const { auto i = tog.find(n); return i == tog.end() ? 0 : i->second; }
    bool toggle(const char *n) const { return val(n) != 0; }
    const Spec *kid(const std::string &rel, bool &present) const {
        auto i = kids.find(rel);
        present = i != kids.end();
        return present ? i->second.get() : nullptr;
    }
};

// a leaf object that can switch itself off
struct Leaf {
    static const rtosc::Ports ports;
    bool on; int v; float arr[2];
    Leaf() : on(false), v(0) { arr[0] = arr[1] = 0; }
};
// a leaf object without a guard of its own
struct Plain {
    static const rtosc::Ports ports;
    bool t; int w;
    Plain() : t(false), w(0) {}
};
// member names with a digit in front of the '#' (s0x#2/, k1p#2/): the index of an element is
// not the first digit run of the address
struct Mid {
    static const rtosc::Ports ports;
    bool a_on, p_on, q_on, g_on; int m; int en;
    Leaf a; Leaf *p; Leaf s0x[2]; Leaf *k1p[2]; Plain q; Plain *r; Plain x; Leaf b; Plain g[2];
    Mid() : a_on(false), p_on(false), q_on(false), g_on(false), m(0), en(0), p(nullptr), r(nullptr) { k1p[0] = k1p[1] = nullptr; }
};
struct Root {
    static const rtosc::Ports ports;
    bool all_on, m2_on; int top;
    Mid m1; Mid *m2; Mid ms[2];
    Root() : all_on(false), m2_on(false), top(0), m2(nullptr) {}
};
// enumerations with two-digit indices; the table switches itself off by an integer parameter
struct Wide {
    static const rtosc::Ports ports;
    int cnt; bool big_on;
    Plain big[11]; Plain *pv[12]; Leaf z9;
    Wide() : cnt(0), big_on(false) { for (auto &q : pv) q = nullptr; }
};

#define rObject Leaf
const rtosc::Ports Leaf::ports = {
    rSelf(Leaf, rEnabledBy(on)),
    rToggle(on, "switch"),
    rParamI(v, "value"),
    rArrayF(arr, 2, "array"),
};
#undef rObject

#define rObject Plain
const rtosc::Ports Plain::ports = {
    rSelf(Plain),
    rToggle(t, "switch"),
    rParamI(w, "value"),
};
#undef rObject

#define rObject Mid
const rtosc::Ports Mid::ports = {
    rSelf(Mid),
    rToggle(a_on, "switch"),
    rToggle(p_on, "switch"),
    rToggle(q_on, "switch"),
    rToggle(g_on, "switch"),
    rParamI(m, "value"),
    rParamI(en, "value"),
    rRecur(a, rEnabledBy(a_on), "embedded"),
    rRecurp(p, rEnabledBy(p_on), "pointer"),
    rRecurs(s0x, 2, "embedded"),
    rRecursp(k1p, 2, "pointer"),
    rRecur(q, rEnabledBy(q_on), "embedded"),
    rRecurp(r, "pointer"),
    rRecur(x, rEnabledBy(x/t), "embedded"),      // guarded by a toggle of its own table
    rRecur(b, rEnabledBy(en), "embedded"),       // guarded by an integer parameter
    rRecurs(g, 2, rEnabledBy(g_on), "embedded"), // every element guarded by the same toggle
};
#undef rObject

#define rObject Root
const rtosc::Ports Root::ports = {
    rSelf(Root, rEnabledBy(all_on)),
    rToggle(all_on, "switch"),
    rToggle(m2_on, "switch"),
    rParamI(top, "value"),
    rRecur(m1, "embedded"),
    rRecurp(m2, rEnabledBy(m2_on), "pointer"),
    rRecurs(ms, 2, "embedded"),
};
#undef rObject

#define rObject Wide
const rtosc::Ports Wide::ports = {
    rSelf(Wide, rEnabledBy(cnt)),
    rParamI(cnt, "value"),
    rToggle(big_on, "switch"),
    rRecurs(big, 11, rEnabledBy(big_on), "embedded"),
    rRecursp(pv, 12, "pointer"),
    rRecur(z9, "embedded"),
};
#undef rObject

// owns the objects reached through pointers
struct Pool {
    std::vector<std::unique_ptr<Leaf>> leaves;
    std::vector<std::unique_ptr<Plain>> plains;
    std::vector<std::unique_ptr<Mid>> mids;
};

inline bool cfg(Leaf &o, const Spec &s, Pool &) { o.on = s.toggle("on"); return true; }
inline bool cfg(Plain &o, const Spec &s, Pool &) { o.t = s.toggle("t"); return true; }
// embedded member
template<class T> bool sub(T &o, const Spec &s, const std::string &rel, Pool &pool) {
    bool pr; const Spec *k = s.kid(rel, pr);
    return k && cfg(o, *k, pool);
}
// member held by pointer (the description may say NULL)
template<class T> bool subp(T *&o, std::vector<std::unique_ptr<T>> &own, const Spec &s, const std::string &rel, Pool &pool) {
    bool pr; const Spec *k = s.kid(rel, pr);
    if (!pr) return false;
    if (!k) { o = nullptr; return true; }
    own.emplace_back(new T());
    o = own.back().get();
    return cfg(*o, *k, pool);
}
inline bool cfg(Mid &o, const Spec &s, Pool &pool) {
    o.a_on = s.toggle("a_on"); o.p_on = s.toggle("p_on"); o.q_on = s.toggle("q_on"); o.g_on = s.toggle("g_on");
    o.en = s.val("en");
    if (!sub(o.a, s, "a/", pool) || !subp(o.p, pool.leaves, s, "p/", pool)) return false;
    for (int i = 0; i < 2; ++i) {
        if (!sub(o.s0x[i], s, "s0x" + std::to_string(i) + "/", pool)) return false;
        if (!subp(o.k1p[i], pool.leaves, s, "k1p" + std::to_string(i) + "/", pool)) return false;
        if (!sub(o.g[i], s, "g" + std::to_string(i) + "/", pool)) return false;
    }
    return sub(o.q, s, "q/", pool) && subp(o.r, pool.plains, s, "r/", pool) && sub(o.x, s, "x/", pool) && sub(o.b, s, "b/", pool);
}
inline bool cfg(Root &o, const Spec &s, Pool &pool) {
    o.all_on = s.toggle("all_on"); o.m2_on = s.toggle("m2_on");
    if (!sub(o.m1, s, "m1/", pool) || !subp(o.m2, pool.mids, s, "m2/", pool)) return false;
    for (int i = 0; i < 2; ++i)
        if (!sub(o.ms[i], s, "ms" + std::to_string(i) + "/", pool)) return false;
    return true;
}
inline bool cfg(Wide &o, const Spec &s, Pool &pool) {
    o.cnt = s.val("cnt"); o.big_on = s.toggle("big_on");
    for (int i = 0; i < 11; ++i)
        if (!sub(o.big[i], s, "big" + std::to_string(i) + "/", pool)) return false;
    for (int i = 0; i < 12; ++i)
        if (!subp(o.pv[i], pool.plains, s, "pv" + std::to_string(i) + "/", pool)) return false;
    return sub(o.z9, s, "z9/", pool);
}

// one configured instance of compiled tree `id`
struct Instance {
    Pool pool;
    Root root; Mid mid; Leaf leaf; Wide wide;
    const rtosc::Ports *ports = nullptr;
    void *obj = nullptr;
    bool make(int id, const Spec &s) {
        switch (id) {
        case 0: ports = &Root::ports; obj = &root; return cfg(root, s, pool);
        case 1: ports = &Mid::ports;  obj = &mid;  return cfg(mid, s, pool);
        case 2: ports = &Leaf::ports; obj = &leaf; return cfg(leaf, s, pool);
        case 3: ports = &Wide::ports; obj = &wide; return cfg(wide, s, pool);
        }
        return false;
    }
};
inline const rtosc::Ports *tree_ports(int id) {
    switch (id) {
    case 0: return &Root::ports;
    case 1: return &Mid::ports;
    case 2: return &Leaf::ports;
    case 3: return &Wide::ports;
    }
    return nullptr;
}
const int NTREES = 4;

} // namespace wrt
