// Compiled port trees for the runtime clause of C09 (engine `walk`, op `R`): the real
// rRecur / rRecurp / rRecurs / rRecursp / rSelf / rEnabledBy macros of port-sugar.h, a fixed
// but rich set of object trees.  The documentation string of every sub-tree port says
// whether its object is embedded ("embedded": never NULL) or held by pointer ("pointer").
// tools/props/c09.py reads the shape of these trees from the harness itself (op `T`).
#pragma once
#include <rtosc/ports.h>
#include <rtosc/port-sugar.h>
#include <rtosc/rtosc.h>
#include <map>
#include <memory>
#include <string>
#include <vector>

#undef rChangeCb
#define rChangeCb

namespace wrt {

// abstract runtime description parsed from the op line
struct Spec {
    std::map<std::string, bool> tog;
    std::map<std::string, std::unique_ptr<Spec>> kids;   // value == nullptr: NULL pointer
    bool toggle(const char *n) const { auto i = tog.find(n); return i != tog.end() && i->second; }
    const Spec *kid(const std::string &rel, bool &present) const {
        auto i = kids.find(rel);
        present = i != kids.end();
        return present ? i->second.get() : nullptr;
    }
};

// a leaf object that can switch itself off
struct Leaf {
    static const rtosc::Ports ports;
    bool on; int v; float arr[2];
    Leaf() : on(false), v(0) { arr[0] = arr[1] = 0; }
};
// a leaf object without a guard of its own
struct Plain {
    static const rtosc::Ports ports;
    bool t; int w;
    Plain() : t(false), w(0) {}
};
struct Mid {
    static const rtosc::Ports ports;
    bool a_on, p_on, q_on; int m;
    Leaf a; Leaf *p; Leaf s[2]; Leaf *sp[2]; Plain q; Plain *r; Plain x;
    Mid() : a_on(false), p_on(false), q_on(false), m(0), p(nullptr), r(nullptr) { sp[0] = sp[1] = nullptr; }
};
struct Root {
    static const rtosc::Ports ports;
    bool all_on, m2_on; int top;
    Mid m1; Mid *m2; Mid ms[2];
    Root() : all_on(false), m2_on(false), top(0), m2(nullptr) {}
};

#define rObject Leaf
const rtosc::Ports Leaf::ports = {
    rSelf(Leaf, rEnabledBy(on)),
    rToggle(on, "switch"),
    rParamI(v, "value"),
    rArrayF(arr, 2, "array"),
};
#undef rObject

#define rObject Plain
const rtosc::Ports Plain::ports = {
    rSelf(Plain),
    rToggle(t, "switch"),
    rParamI(w, "value"),
};
#undef rObject

#define rObject Mid
const rtosc::Ports Mid::ports = {
    rSelf(Mid),
    rToggle(a_on, "switch"),
    rToggle(p_on, "switch"),
    rToggle(q_on, "switch"),
    rParamI(m, "value"),
    rRecur(a, rEnabledBy(a_on), "embedded"),
    rRecurp(p, rEnabledBy(p_on), "pointer"),
    rRecurs(s, 2, "embedded"),
    rRecursp(sp, 2, "pointer"),
    rRecur(q, rEnabledBy(q_on), "embedded"),
    rRecurp(r, "pointer"),
    rRecur(x, rEnabledBy(x/t), "embedded"),      // guarded by a toggle of its own table
};
#undef rObject

#define rObject Root
const rtosc::Ports Root::ports = {
    rSelf(Root, rEnabledBy(all_on)),
    rToggle(all_on, "switch"),
    rToggle(m2_on, "switch"),
    rParamI(top, "value"),
    rRecur(m1, "embedded"),
    rRecurp(m2, rEnabledBy(m2_on), "pointer"),
    rRecurs(ms, 2, "embedded"),
};
#undef rObject

// owns the objects reached through pointers
struct Pool {
    std::vector<std::unique_ptr<Leaf>> leaves;
    std::vector<std::unique_ptr<Plain>> plains;
    std::vector<std::unique_ptr<Mid>> mids;
};

inline bool cfg(Leaf &o, const Spec &s, Pool &) { o.on = s.toggle("on"); return true; }
inline bool cfg(Plain &o, const Spec &s, Pool &) { o.t = s.toggle("t"); return true; }
inline bool cfg(Mid &o, const Spec &s, Pool &pool) {
    o.a_on = s.toggle("a_on"); o.p_on = s.toggle("p_on"); o.q_on = s.toggle("q_on");
    bool pr; const Spec *k;
    k = s.kid("a/", pr); if (!k || !cfg(o.a, *k, pool)) return false;
    k = s.kid("p/", pr); if (!pr) return false;
    if (k) { pool.leaves.emplace_back(new Leaf()); o.p = pool.leaves.back().get(); if (!cfg(*o.p, *k, pool)) return false; } else o.p = nullptr;
    for (int i = 0; i < 2; ++i) {
        k = s.kid("s" + std::to_string(i) + "/", pr); if (!k || !cfg(o.s[i], *k, pool)) return false;
        k = s.kid("sp" + std::to_string(i) + "/", pr); if (!pr) return false;
        if (k) { pool.leaves.emplace_back(new Leaf()); o.sp[i] = pool.leaves.back().get(); if (!cfg(*o.sp[i], *k, pool)) return false; } else o.sp[i] = nullptr;
    }
    k = s.kid("q/", pr); if (!k || !cfg(o.q, *k, pool)) return false;
    k = s.kid("r/", pr); if (!pr) return false;
    if (k) { pool.plains.emplace_back(new Plain()); o.r = pool.plains.back().get(); if (!cfg(*o.r, *k, pool)) return false; } else o.r = nullptr;
    k = s.kid("x/", pr); if (!k || !cfg(o.x, *k, pool)) return false;
    return true;
}
inline bool cfg(Root &o, const Spec &s, Pool &pool) {
    o.all_on = s.toggle("all_on"); o.m2_on = s.toggle("m2_on");
    bool pr; const Spec *k;
    k = s.kid("m1/", pr); if (!k || !cfg(o.m1, *k, pool)) return false;
    k = s.kid("m2/", pr); if (!pr) return false;
    if (k) { pool.mids.emplace_back(new Mid()); o.m2 = pool.mids.back().get(); if (!cfg(*o.m2, *k, pool)) return false; } else o.m2 = nullptr;
    for (int i = 0; i < 2; ++i) {
        k = s.kid("ms" + std::to_string(i) + "/", pr); if (!k || !cfg(o.ms[i], *k, pool)) return false;
    }
    return true;
}

// one configured instance of compiled tree `id`
struct Instance {
    Pool pool;
    Root root; Mid mid; Leaf leaf;
    const rtosc::Ports *ports = nullptr;
    void *obj = nullptr;
    bool make(int id, const Spec &s) {
        switch (id) {
        case 0: ports = &Root::ports; obj = &root; return cfg(root, s, pool);
        case 1: ports = &Mid::ports;  obj = &mid;  return cfg(mid, s, pool);
        case 2: ports = &Leaf::ports; obj = &leaf; return cfg(leaf, s, pool);
        }
        return false;
    }
};
inline const rtosc::Ports *tree_ports(int id) {
    switch (id) {
    case 0: return &Root::ports;
    case 1: return &Mid::ports;
    case 2: return &Leaf::ports;
    }
    return nullptr;
}
const int NTREES = 3;

} // namespace wrt
